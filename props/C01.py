"""C01 — mixing / splitting / separating / copying / scaling streams conserves every chemical.
Correspondence harness, generators and direct oracle."""
import numpy as np
from fractions import Fraction as F
from vf import q, qlist, clist, cbool, cnat, copt, frac, fr_json

ID = 'C01'
COQ_DIR = 'C01'
COQ_HEADER = 'From V Require Import Common.Num C01.Model.\nOpen Scope Q_scope.'
RULE = ('histories of 1-3 operations (Stream.mix_from with 0-5 inlets, split_to, separate_out, copy_flow, scale, *) over a '
        'store of 3-6 real streams built on 5 real property packages (6 user-defined chemicals listed in different orders '
        'and subsets, two packages with equal lists but distinct objects); single- and multi-phase receivers and inlets, '
        'phases from s l g S L, the receiver among the inlets 0/1/2 times, dyadic flows including all-zero streams, '
        'energy_balance on and off, the temperature solver made to fail 0-3 times (fallback to multi-phase); executed on '
        'the real classes and on the Coq model; the whole store (class, package, phases, every phase x chemical flow) or '
        'the exception class and the store before the raising call are compared.  non-trivial = an operation succeeded '
        'and changed the store, or raised; distinct = distinct case hash')
ASSUMPTIONS = [
    'float rounding is not modelled: inputs are dyadic so the material arithmetic is exact; values compared to 1e-9 relative',
    'the index cache of Chemicals objects (index_overlap / _get_index_and_kind) is cleared before every case and treated as '
    'transparent: it is cleared before every operation (cache transparency is property C10; DESIGN section 5 item 17 breaks it: a cross-package mix_from followed by split_to/copy_flow with the same CAS tuple raises IndexError)',
    'the enthalpy setter is an oracle: mixture.solve_T_at_HP / xsolve_T_at_HP are made to raise for the first hf calls; '
    'energy_balance=True cases use non-negative flows so that the mixed stream is not empty',
    'separate_out is run with energy_balance=False (its enthalpy part belongs to C02)',
]
TRUSTED = ['model coq/C01/Model.v is hand-written from thermosteam/{_stream,_multi_stream,indexer,_phase}.py and '
           'base/sparse.py (SparseVector.mix_from); tie = correspondence check',
           'SparseVector/SparseArray item access, arithmetic and sum are modelled by their dense meaning (property C09)',
           'MultiStream.copy_flow and copy_flow of a stream onto itself are not modelled (never generated)']

NAMES = ['A_', 'B_', 'C_', 'D_', 'E_', 'F_']
PKGS = [['A_', 'B_', 'C_', 'D_', 'E_', 'F_'], ['C_', 'A_', 'B_'], ['F_', 'E_', 'D_', 'C_', 'B_', 'A_'], ['B_', 'D_'],
        ['A_', 'B_', 'C_', 'D_', 'E_', 'F_']]
PHASES = ['L', 'S', 'g', 'l', 's']
PHC = {'L': 'PL', 'S': 'PS', 'g': 'Pg', 'l': 'Pl', 's': 'Ps'}
ERR = {'ValueError': 'EValue', 'KeyError': 'EKey', 'IndexError': 'EIndex', 'TypeError': 'EType',
       'RuntimeError': 'ERuntime', 'UndefinedPhase': 'EUndefPhase', 'UndefinedChemicalAlias': 'EOther',
       'ZeroDivisionError': 'EZeroDiv'}

_env = {}
def env():
    if not _env:
        import thermosteam as tmo
        U = {n: tmo.Chemical(n, search_db=False, CAS='9900-0%d-0' % (i + 1), MW=16., Hf=0., Cn=64., phase='l', default=True)
             for i, n in enumerate(NAMES)}
        _env['tmo'] = tmo
        _env['P'] = [tmo.Thermo(tmo.Chemicals([U[n] for n in names])) for names in PKGS]
        _env['code'] = {n: i for i, n in enumerate(NAMES)}
    return _env

def clear_caches():
    for p in env()['P']:
        p.chemicals._index_cache.clear()

# ------------------------------------------------------------------ generators
VALS = [F(0), F(1), F(2), F(1, 2), F(1, 4), F(3), F(8), F(3, 2), F(1, 1024), F(4096)]
SPLITS = [F(0), F(1), F(1, 2), F(1, 4), F(3, 4), F(1, 8)]
KS = [F(0), F(1), F(2), F(1, 2), F(3), F(1, 4), F(-1)]

def gen_stream(rng, neg=False, pkg=None):
    k = pkg if pkg is not None else rng.choice([0, 0, 1, 1, 2, 2, 3, 4])
    n = len(PKGS[k])
    multi = rng.random() < 0.4
    if multi:
        m = rng.choice([1, 2, 2, 2, 3, 3])
        phases = sorted(rng.sample(PHASES, m)) if rng.random() < 0.5 else sorted(rng.sample(['g', 'l', 's'], min(m, 3)))
    else:
        phases = [rng.choice(['l', 'l', 'g', 'g', 's', 'L', 'S'])]
    mode = rng.random()
    rows = []
    for _ in phases:
        if mode < 0.12:
            row = [0.] * n
        else:
            row = [float(rng.choice(VALS)) if rng.random() < 0.5 else 0. for _ in range(n)]
            if mode > 0.9 and rng.random() < 0.5:
                row = [0.] * n            # an empty phase of a multi-phase stream
            if neg:
                row = [x * rng.choice([1, 1, -1]) for x in row]
        rows.append(row)
    return {'pkg': k, 'multi': multi, 'phases': phases, 'flows': rows}

def gen_op(rng, ns, streams, eb_ok):
    kind = rng.choice(['mix'] * 10 + ['split'] * 3 + ['sep'] * 2 + ['copy_flow'] * 3 + ['scale', 'mul', 'mixsep'])
    big = [i for i in range(ns) if streams[i]['pkg'] in (0, 2, 4)] or list(range(ns))
    if kind in ('mix', 'mixsep'):
        r = rng.choice(big) if rng.random() < 0.9 else rng.randrange(ns)
        n_in = rng.choice([0, 1, 1, 2, 2, 2, 3, 3, 4, 5])
        if kind == 'mixsep':
            n_in = 2
        ins = [rng.randrange(ns) for _ in range(n_in)]
        selfs = rng.choice([0, 0, 0, 1, 1, 2])
        ins = [i for i in ins if i != r] if selfs == 0 else ins
        for _ in range(selfs):
            if ins:
                ins[rng.randrange(len(ins))] = r
        eb = eb_ok and rng.random() < 0.45
        hf = rng.choice([0, 0, 0, 0, 1, 2, 2, 3]) if eb else 0
        ops = [['mix', r, ins, eb, hf]]
        if kind == 'mixsep' and len(ins) == 2:
            ops.append(['sep', r, ins[1]])
        return ops
    if kind == 'split':
        f = rng.randrange(ns)
        s1, s2 = rng.randrange(ns), rng.randrange(ns)
        if rng.random() < 0.85:
            others = [i for i in range(ns) if i != f]
            if len(others) >= 2:
                s1, s2 = rng.sample(others, 2)
        if rng.random() < 0.5:
            sp = float(rng.choice(SPLITS))
        else:
            sp = [float(rng.choice(SPLITS)) for _ in PKGS[streams[f]['pkg']]]
        return [['split', f, s1, s2, sp, rng.random() < 0.6]]
    if kind == 'sep':
        r = rng.choice(big)
        return [['sep', r, rng.randrange(ns)]]
    if kind == 'copy_flow' and all(s['multi'] for s in streams):
        kind = 'scale'
    if kind == 'copy_flow':
        singles = [i for i in range(ns) if not streams[i]['multi']]
        d = rng.choice(singles)
        s = rng.choice([i for i in range(ns) if i != d] or [d])
        m = rng.random()
        if m < 0.4:
            ids = None
        elif m < 0.55:
            ids = rng.choice(NAMES)
        else:
            ids = rng.sample(NAMES, rng.randint(1, 3))
            if rng.random() < 0.7:
                ids = [x for x in ids if x in PKGS[streams[s]['pkg']]] or [PKGS[streams[s]['pkg']][0]]
        return [['copy_flow', d, s, ids, rng.random() < 0.7, rng.random() < 0.3]]
    if kind == 'scale':
        return [['scale', rng.randrange(ns), float(rng.choice(KS))]]
    return [['mul', rng.randrange(ns), float(rng.choice(KS))]]

def gen_case(rng):
    ns = rng.randint(3, 6)
    neg = rng.random() < 0.12
    streams = [gen_stream(rng, neg) for _ in range(ns)]
    if rng.random() < 0.7:
        streams[0] = gen_stream(rng, neg, pkg=rng.choice([0, 2, 4]))
    ops = []
    for _ in range(rng.choice([1, 1, 2, 3])):
        ops += gen_op(rng, ns, streams, not neg)
    return {'streams': streams, 'ops': ops}

def gen_cases(rng, tier):
    n = 380 if tier == 'quick' else 6000
    return [gen_case(rng) for _ in range(n)]

# ------------------------------------------------------------------ implementation side
def build(sd, T=320.):
    e = env(); tmo = e['tmo']
    P = e['P'][sd['pkg']]
    if sd['multi']:
        s = tmo.MultiStream(None, phases=tuple(sd['phases']), T=T, thermo=P)
        assert list(s.phases) == list(sd['phases'])
        s.imol.data[:] = np.array(sd['flows'], float)
    else:
        s = tmo.Stream(None, phase=sd['phases'][0], T=T, thermo=P)
        s.mol[:] = np.array(sd['flows'][0], float)
    return s

def pkg_of(s):
    for k, p in enumerate(env()['P']):
        if s.chemicals is p.chemicals:
            return k
    raise RuntimeError('unknown property package')

def snap(s):
    tmo = env()['tmo']
    if isinstance(s, tmo.MultiStream):
        arr = np.asarray(s.imol.data.to_array(), float)
        return {'pkg': pkg_of(s), 'multi': True, 'phases': list(s.phases),
                'flows': [[fr_json(frac(x)) for x in row] for row in arr]}
    arr = np.asarray(s.mol.to_array(), float)
    return {'pkg': pkg_of(s), 'multi': False, 'phases': [s.phase], 'flows': [[fr_json(frac(x)) for x in arr]]}

class FailingSolves:
    """mixture.solve_T_at_HP / xsolve_T_at_HP raise for the first n calls (oracle substitution)."""
    def __init__(self, n):
        self.n = n
    def __enter__(self):
        from thermosteam.mixture.mixture import Mixture
        self.M = Mixture
        self.orig = (Mixture.solve_T_at_HP, Mixture.xsolve_T_at_HP)
        outer = self
        def wrap(f):
            def g(self, *a, **k):
                if outer.n > 0:
                    outer.n -= 1
                    raise RuntimeError('temperature solve failed (oracle)')
                return f(self, *a, **k)
            return g
        Mixture.solve_T_at_HP = wrap(self.orig[0])
        Mixture.xsolve_T_at_HP = wrap(self.orig[1])
    def __exit__(self, *a):
        self.M.solve_T_at_HP, self.M.xsolve_T_at_HP = self.orig

def apply_op(store, op):
    clear_caches()      # index caches are treated as transparent (C10); see ASSUMPTIONS
    name = op[0]
    if name == 'mix':
        _, r, ins, eb, hf = op
        with FailingSolves(hf):
            store[r].mix_from([store[i] for i in ins], energy_balance=eb)
    elif name == 'split':
        _, f, s1, s2, sp, eb = op
        split = np.array(sp, float) if isinstance(sp, list) else sp
        store[f].split_to(store[s1], store[s2], split, energy_balance=eb)
    elif name == 'sep':
        store[op[1]].separate_out(store[op[2]], energy_balance=False)
    elif name == 'copy_flow':
        _, d, s, ids, remove, exclude = op
        if ids is None:
            store[d].copy_flow(store[s], remove=remove, exclude=exclude)
        else:
            store[d].copy_flow(store[s], tuple(ids) if isinstance(ids, list) else ids, remove=remove, exclude=exclude)
    elif name == 'scale':
        store[op[1]].scale(op[2])
    elif name == 'mul':
        store.append(store[op[1]] * op[2])
    else:
        raise ValueError(name)

def run_impl(case):
    clear_caches()
    store = [build(sd) for sd in case['streams']]
    out = {'init': [snap(s) for s in store], 'n_ok': 0, 'error': None}
    out['ops'] = []
    for op in case['ops']:
        if op[0] == 'copy_flow' and (isinstance(store[op[1]], env()['tmo'].MultiStream) or op[1] == op[2]):
            break                     # MultiStream.copy_flow / copying onto itself: not modelled, history ends here
        out['ops'].append(op)
        before = [snap(s) for s in store]
        try:
            apply_op(store, op)
            out['n_ok'] += 1
        except Exception as ex:
            out['error'] = type(ex).__name__
            out['final'] = before
            return out
    out['final'] = [snap(s) for s in store]
    return out

# ------------------------------------------------------------------ model side
def cpkg(k):
    code = env()['code']
    return f'(mkpkg {cnat(k)} {clist([code[n] for n in PKGS[k]], cnat)})'

def cstream(sd):
    rows = [[F(x) for x in row] for row in sd['flows']]
    if sd['multi']:
        return f'(MS (mkm {cpkg(sd["pkg"])} {clist([PHC[p] for p in sd["phases"]])} {clist(rows, qlist)}))'
    return f'(SS (mkc {cpkg(sd["pkg"])} {PHC[sd["phases"][0]]} {qlist(rows[0])}))'

def cop(o):
    code = env()['code']
    n = o[0]
    if n == 'mix':
        return f'(OMix {cnat(o[1])} {clist(o[2], cnat)} {cbool(o[3])} {cnat(o[4])})'
    if n == 'split':
        sp = f'(SpV {qlist(o[4])})' if isinstance(o[4], list) else f'(SpS {q(o[4])})'
        return f'(OSplit {cnat(o[1])} {cnat(o[2])} {cnat(o[3])} {sp} {cbool(o[5])})'
    if n == 'sep':
        return f'(OSep {cnat(o[1])} {cnat(o[2])})'
    if n == 'copy_flow':
        ids = o[3]
        if ids is None: i = 'IdAll'
        elif isinstance(ids, str): i = f'(IdOne {cnat(code[ids])})'
        else: i = f'(IdList {clist([code[x] for x in ids], cnat)})'
        return f'(OCopyFlow {cnat(o[1])} {cnat(o[2])} {i} {cbool(o[4])} {cbool(o[5])})'
    if n == 'scale':
        return f'(OScale {cnat(o[1])} {q(o[2])})'
    if n == 'mul':
        return f'(OMul {cnat(o[1])} {q(o[2])})'
    raise ValueError(n)

def coq_case(case, out):
    st = clist([cstream(s) for s in out['init']])
    ops = clist([cop(o) for o in out['ops']])
    e = 'None' if out['error'] is None else f'(Some {ERR.get(out["error"], "EOther")})'
    return f'(run_eqb {st} {ops} {cnat(out["n_ok"])} {e} {clist([cstream(s) for s in out["final"]])})'

def coq_show(case, out):
    st = clist([cstream(s) for s in out['init']])
    ops = clist([cop(o) for o in out['ops']])
    return f'(run_upto {st} {ops} {cnat(out["n_ok"] + 1)})'

def nontrivial(case, out):
    return out.get('error') is not None or out.get('final') != out.get('init')

def classify(case, out):
    ks = []
    n_ok = out.get('n_ok', 0)
    for j, o in enumerate(case['ops']):
        if j > n_ok: break
        res = 'ok' if j < n_ok else 'raise:' + str(out.get('error'))
        ks.append(f'op:{o[0]}:{res}')
        if o[0] == 'mix':
            r, ins = o[1], o[2]
            ks.append(f'mix:inlets={len(ins)}')
            ks.append(f'mix:self_in_inlets={min(ins.count(r), 2)}')
            ks.append('mix:receiver=' + ('multi' if case['streams'][r]['multi'] else 'single') if r < len(case['streams']) else 'mix:receiver=new')
            if any(case['streams'][i]['pkg'] != case['streams'][r]['pkg'] for i in ins if i < len(case['streams']) and r < len(case['streams'])):
                ks.append('mix:other_package_inlet')
            if o[3]: ks.append(f'mix:energy_balance:hf={o[4]}')
    return ks

# ------------------------------------------------------------------ direct oracle
def totals(s):
    """per-chemical (by name) total flow of a real stream"""
    tmo = env()['tmo']
    arr = np.asarray(s.imol.data.to_array(), float)
    if arr.ndim == 2: arr = arr.sum(0)
    t = {n: 0. for n in NAMES}
    for c, x in zip(s.chemicals.IDs, arr):
        t[c] = float(x)
    return t

def phase_totals(s):
    tmo = env()['tmo']
    arr = np.asarray(s.imol.data.to_array(), float)
    if arr.ndim == 1: arr = arr.reshape(1, -1)
    return arr

def close(a, b, tol=1e-9):
    return abs(a - b) <= tol * max(1., abs(a), abs(b))

def same_tot(a, b):
    return all(close(a[n], b[n]) for n in NAMES)

def nonneg(s):
    return bool((phase_totals(s) >= 0).all())

def covers(recv, t):
    ids = set(recv.chemicals.IDs)
    return all(n in ids for n in NAMES if t[n] != 0)

def kind_of(s):
    return 'M' if isinstance(s, env()['tmo'].MultiStream) else 'S'

def oracle(case):
    """The property evaluated directly on the implementation: per-chemical conservation, and the
    operation must return a result within the property's preconditions."""
    tmo = env()['tmo']
    clear_caches()
    store = [build(sd) for sd in case['streams']]
    for op in case['ops']:
        name = op[0]
        if name == 'copy_flow' and (isinstance(store[op[1]], tmo.MultiStream) or op[1] == op[2]):
            return None
        tot0 = [totals(s) for s in store]
        ok_flows = all(nonneg(s) for s in store)
        kinds = [kind_of(s) for s in store]
        phs0 = [phases_info(s) for s in store]
        desc = None
        try:
            apply_op(store, op)
            raised = None
        except Exception as ex:
            raised = type(ex).__name__
        if name == 'mix':
            _, r, ins, eb, hf = op
            expect = {n: sum(tot0[i][n] for i in ins) for n in NAMES}
            pre = ok_flows and covers(store[r], expect)
            ne = sum(1 for i in ins if any(tot0[i][n] != 0 for n in NAMES))
            where = (f'mix:recv={kinds[r]}:inlets={"".join(sorted(set(kinds[i] for i in ins)))}:nonempty={min(ne, 2)}:eb={int(eb)}:hf={min(hf, 2)}'
                     f':self={int(r in ins)}:otherpkg={int(any(pkg_of(store[i]) != pkg_of(store[r]) for i in ins))}')
            if raised:
                # a RuntimeError with hf > 0 is the (oracle) temperature solver giving up
                if pre and not (eb and hf > 0 and raised == 'RuntimeError'):
                    return f'{where}: raises {raised} although the receiver lists every inlet chemical'
                return None          # the history stops at a raise
            if pre or covers(store[r], expect):
                if not same_tot(totals(store[r]), expect):
                    return f'{where}: per-chemical totals of the receiver {totals(store[r])} != sum of the inlets {expect}'
            for i in range(len(tot0)):
                if i != r and not same_tot(totals(store[i]), tot0[i]):
                    return f'{where}: inlet/bystander stream {i} was modified'
        elif name == 'split':
            _, f, s1, s2, sp, eb = op
            feed = tot0[f]
            ids = case_ids(store[f])
            spl = dict(zip(ids, sp)) if isinstance(sp, list) else {n: sp for n in NAMES}
            e1 = {n: feed[n] * spl.get(n, 0.) for n in NAMES}
            e2 = {n: feed[n] - e1[n] for n in NAMES}
            pre = (ok_flows and s1 != s2 and covers(store[s1], e1) and covers(store[s2], e2)
                   and (eb or kinds[f] == 'M' or (kinds[s1] == 'S' and kinds[s2] == 'S')))
            where = f'split:feed={kinds[f]}:outs={kinds[s1]}{kinds[s2]}:eb={int(eb)}:otherpkg={int(pkg_of(store[s1]) != pkg_of(store[f]) or pkg_of(store[s2]) != pkg_of(store[f]))}'
            if raised:
                if pre and raised != 'UndefinedPhase':
                    return f'{where}: raises {raised}'
                return None
            if s1 != s2:
                if f != s1 and not same_tot(totals(store[s1]), e1):
                    return f'{where}: first outlet {totals(store[s1])} != split*feed {e1}'
                if f != s2 and s1 != s2 and not same_tot(totals(store[s2]), e2):
                    return f'{where}: second outlet {totals(store[s2])} != feed - split*feed {e2}'
                if ok_flows and (not nonneg(store[s1]) or not nonneg(store[s2])):
                    return f'{where}: negative outlet flow'
        elif name == 'sep':
            _, r, o = op
            if raised:
                ok_ph = kinds[r] == 'S' or all(p.lower() in [x.lower() for x in phs0[r][0]] for p in (phs0[o][1] if kinds[o] == 'M' else phs0[o][0]))
                if covers(store[r], tot0[o]) and ok_ph and r != o:
                    return f'separate_out:recv={kinds[r]}:other={kinds[o]}:otherpkg={int(pkg_of(store[r]) != pkg_of(store[o]))}: raises {raised} although the receiver lists every chemical and phase of the other stream'
                return None
            if r != o:
                exp = {n: tot0[r][n] - tot0[o][n] for n in NAMES}
                if not same_tot(totals(store[r]), exp):
                    return f'separate_out:recv={kinds[r]}:other={kinds[o]}: totals {totals(store[r])} != receiver - other {exp}'
                if not same_tot(totals(store[o]), tot0[o]):
                    return 'separate_out: the separated stream was modified'
        elif name == 'copy_flow':
            _, d, s, ids, remove, exclude = op
            if raised: return None
            names = NAMES if ids is None else ([ids] if isinstance(ids, str) else list(ids))
            moved = [n for n in NAMES if (n in names) != bool(exclude)] if ids is not None else ([] if exclude else NAMES)
            src_ids = set(store[s].chemicals.IDs)
            for n in NAMES:
                td, ts = totals(store[d])[n], totals(store[s])[n]
                if n in moved and n in src_ids:
                    exp_d = tot0[s][n]
                    exp_s = 0. if remove else tot0[s][n]
                elif n in moved and ids is None:
                    exp_d, exp_s = 0., tot0[s][n]
                else:
                    exp_d, exp_s = tot0[d][n], tot0[s][n]
                if not close(td, exp_d) or not close(ts, exp_s):
                    return (f'copy_flow:src={kinds[s]}:ids={"all" if ids is None else "some"}:remove={int(remove)}:exclude={int(exclude)}'
                            f':otherpkg={int(pkg_of(store[s]) != pkg_of(store[d]))}: chemical {n}: receiver {td} (expected {exp_d}), source {ts} (expected {exp_s})')
        elif name in ('scale', 'mul'):
            if raised: return f'{name}: raises {raised}'
            i, k = op[1], op[2]
            target = store[i] if name == 'scale' else store[-1]
            exp = {n: k * tot0[i][n] for n in NAMES}
            if not same_tot(totals(target), exp):
                return f'{name}: totals {totals(target)} != k * flows {exp}'
            if name == 'mul' and not same_tot(totals(store[i]), tot0[i]):
                return 'mul: the operand was modified'
        if raised:
            return None
    return None

def phases_info(s):
    """(all phases, phases that hold material)"""
    arr = phase_totals(s)
    ph = list(s.phases) if kind_of(s) == 'M' else [s.phase]
    return ph, [p for p, row in zip(ph, arr) if row.any()]

def case_ids(s):
    return list(s.chemicals.IDs)

def finding_key(case, msg):
    return 'C01:' + msg.split(': ')[0]

def _s(pkg, phase, flows): return {'pkg': pkg, 'multi': False, 'phases': [phase], 'flows': [flows]}
def _m(pkg, phases, flows): return {'pkg': pkg, 'multi': True, 'phases': phases, 'flows': flows}
_Z6 = [0.] * 6
# minimised inputs of the defects found (pending_fixes/C01_<n>_*); they run first in every check
CORPUS = [
    # 1: multi-phase inlet of another package into a single-phase receiver (DESIGN 5 #6)
    {'streams': [_s(0, 'l', _Z6), _s(0, 'l', [1., 0, 0, 0, 0, 0]), _m(1, ['g', 'l'], [[0, 1., 2.], [0, 0, 0]])],
     'ops': [['mix', 0, [1, 2], False, 0]]},
    # 2: inlet phase the multi-phase receiver lacks (DESIGN 5 #7)
    {'streams': [_m(0, ['g', 'l'], [_Z6, _Z6]), _s(0, 'l', [1., 0, 0, 0, 0, 0]), _s(0, 's', [1., 0, 0, 0, 0, 0])],
     'ops': [['mix', 0, [1, 2], False, 0]]},
    # 3: one non-empty inlet of another package, multi-phase receiver, no energy balance
    {'streams': [_m(0, ['g', 'l'], [_Z6, _Z6]), _s(1, 'l', [0, 1., 0])], 'ops': [['mix', 0, [1], False, 0]]},
    # 4: one-phase MultiStream of another package copied by position
    {'streams': [_s(0, 'l', _Z6), _m(1, ['g'], [[0, 1., 2.]])], 'ops': [['mix', 0, [1], True, 0]]},
    # 5: single-phase inlet whose phase the multi-phase receiver lacks, energy balance
    {'streams': [_m(0, ['g', 'l'], [_Z6, _Z6]), _s(0, 's', [1., 0, 0, 0, 0, 0])], 'ops': [['mix', 0, [1], True, 0]]},
    # 6: multi-phase receiver and inlet with different phases: stale row kept / rows by position / no remap
    {'streams': [_m(0, ['g', 'l'], [[0, 0, 1., 0, 0, 0], [0, 0, 0, 2., 0, 0]]), _m(0, ['L', 'g'], [[0, 2., 0, 0, 0, 0], [1., 0, 0, 0, 0, 0]])],
     'ops': [['mix', 0, [1], True, 0]]},
    {'streams': [_m(0, ['l', 's'], [_Z6, _Z6]), _m(2, ['L', 'S'], [[0, 0, 0, 0, 0, 1.], [0, 0, 0, 0, 2., 0]])],
     'ops': [['mix', 0, [1], True, 0]]},
    # 7: receiver's phase not among the multi-phase inlet's phases
    {'streams': [_s(0, 'l', [1., 0, 0, 0, 0, 0]), _m(0, ['g', 's'], [[1., 0, 0, 0, 0, 0], [0, 2., 0, 0, 0, 0]])],
     'ops': [['mix', 0, [1], True, 0]]},
    # 8: outlet of another package receives nothing
    {'streams': [_s(1, 'g', [0, 2., 0]), _s(0, 'l', _Z6), _s(2, 'l', _Z6)], 'ops': [['split', 0, 1, 2, 1., True]]},
    # 9: multi-phase feed, single-phase outlets, no energy balance
    {'streams': [_m(0, ['g', 'l'], [[2., 0, 0, 0, 0, 0], [1., 4., 0, 0, 0, 0]]), _s(0, 'l', _Z6), _s(0, 'l', _Z6)],
     'ops': [['split', 0, 1, 2, 0.5, False]]},
    # 10, 11: separate_out of a multi-phase stream of another package
    {'streams': [_s(0, 'l', [8., 8., 8., 0, 0, 0]), _m(1, ['g', 'l'], [[0, 1., 0], [1., 0, 2.]])], 'ops': [['sep', 0, 1]]},
    {'streams': [_m(0, ['L', 'S'], [[8., 8., 0, 0, 0, 0], [0, 0, 8., 0, 0, 0]]), _m(2, ['L', 'S'], [[0, 0, 0, 0, 0, 1.], [0, 0, 0, 2., 0, 0]])],
     'ops': [['sep', 0, 1]]},
    # 12: receiver among the inlets, temperature solve fails, fallback to multi-phase
    {'streams': [_s(0, 's', [2., 0, 0.25, 0, 0, 1.]), _s(0, 'g', [1., 0, 0, 0, 0, 0])], 'ops': [['mix', 0, [0, 1], True, 1]]},
    # mix then separate (same and other package, self inlet)
    {'streams': [_s(0, 'l', [1., 2., 0, 0, 0, 0]), _s(1, 'g', [4., 0.5, 0]), _m(2, ['g', 'l'], [[0, 0, 0, 0, 1., 0], [0, 0, 0, 8., 0, 3.]])],
     'ops': [['mix', 0, [0, 1, 2, 0], False, 0], ['sep', 0, 2]]},
]
WITNESSES = []
