"""C16 — activity-coefficient models.  Correspondence harness, generators and direct oracle.

Stand-in stream (exact): the numba kernels are run through their `.py_func` with the module
global `np` replaced by a shim whose exp / log / **0.75 are rational stand-ins over exact
Fractions (class XQ); the same generated Gallina terms are evaluated in Coq at option Q with the
same stand-ins and every observable (returned gamma, the caller's x afterwards, the group_psis
buffer, which exception) is compared exactly.  The group data are read from the constructed real
objects.  Real stream: the compiled objects are called with real exp/log; the result must agree
with the py_func path (numba is not where behaviour differs) and the caller's x afterwards must
be what the exact run predicts."""
import itertools, math, os, sys, warnings
import numpy as np
from fractions import Fraction as F
from vf import q, qlist, qmat, clist, cbool, cnat, frac, fr_json, TranslatorError, VERIF

ID = 'C16'
COQ_DIR = 'C16'
COQ_HEADER = 'From V Require Import Common.Num C16.Model C16.ModelJac.\nOpen Scope Q_scope.'
MODEL_FILES = ('Model.v', 'ModelJac.v')
CASE_TIMEOUT = 60
RULE = ('sets of 2-5 database chemicals (Water, Ethanol, Methanol, Propanol, Hexane, Octane, Benzene, Acetone, Toluene, '
        'AceticAcid with UNIFAC/Dortmund groups from the database and NIST groups assigned by id; O2, N2 and a user-defined '
        'chemical without groups), each of the classes UNIFAC / Dortmund / NIST, all permutations of the chemical list for '
        'n <= 4 on selected sets, compositions from a dyadic alphabet (vertices, edges, trace amounts, unnormalised, zero on '
        'every group-bearing chemical, negative entries), T dyadic in 250-450 K, x passed as float64 array / list / int array / '
        'float32 array; kernels run through .py_func on exact Fractions with seeded rational stand-ins (affine, Moebius, '
        'quadratic) for exp, log, **0.75 and compared exactly with the generated Gallina terms at option Q (gamma, x after, '
        'group_psis buffer, exception kind); derived arrays of __new__ (rs, qs, chem_Qfractions, group_mask) compared with '
        'the model; compiled call compared with py_func at 1e-12 and its x-after with the exact prediction; the direct oracle '
        '(gamma_i = 1 at x_i = 1 to 1e-9, Gibbs-Duhem by central finite differences to 1e-5 relative along every e_a - e_b, '
        'all permutations n <= 4, no-group => exactly 1, ideal models = 1, x untouched, .f = __call__, and one float64 buffer '
        'rewritten in place between calls at the same T: obj(x,T) = obj.f(x,T,*args) = obj(x.copy(),T) at every step; obj.f on the '
        'caller\'s own int / float32 array and on integer unit vectors; obj.activity_coefficients = functional form, repeatable, and '
        'leaves every persistent array of the object unchanged) is evaluated on every case; '
        'on every group-path case with a non-negative sub-composition the residual Jacobian d ln(gamma_i^R)/dx_j is measured '
        'on the compiled group_activity_coefficients (zero combinatorial term, the object\'s arrays, psis of the module at T; central '
        'differences + Richardson, accepted only when two successive step sizes agree to 1e-7) and compared entry by entry with '
        'ModelJac.resid_jac evaluated in Coq over option Q on the exact rational values of the same float inputs (1e-5 relative), '
        'together with its exact symmetry and x^T J = 0; '
        'history cases (call / call with a copy / .f / activity_coefficients / in-place rewrite of the composition / in-place rewrite of a previously RETURNED '
        'array, 1-2 caller arrays, 3-10 operations on ONE object, group objects and the ideal fallback) are run '
        'exactly and compared with run_hist '
        'and must hold.  non-trivial = '
        'the group path was taken (object is not the ideal fallback) and the run returned values; distinct = case hash')
ASSUMPTIONS = [
    'float rounding, nan and inf are not modelled (the `if np.isnan(value): continue` branch is never taken in the model); '
    'where exact arithmetic divides by zero the model yields an undefined element and the py_func run raises',
    'exp, log and **0.75 are opaque in the correspondence (same rational stand-in on both sides) and are the real functions '
    '(Coq Reals: exp, ln, Rpower _ (3/4)) in the theorems',
    'Gibbs-Duhem for the residual (group) part and for the whole coefficient are theorems over R about the translated kernels '
    '(residual part: closed orthant with some present chemical carrying a group; whole coefficient: open simplex; positive Q and psi, '
    'array shapes as __new__ builds them); on the real objects the relation '
    'is still measured by oracle() with central finite differences (relative 1e-5), and the analytic Jacobian d ln(gamma_i^R)/dx_j '
    'of the model (ModelJac.resid_jac, proved to be that derivative) is compared on every group-path case with the derivative '
    'measured on thermosteam\'s compiled group_activity_coefficients (self-consistent Richardson differences, 1e-5 relative)',
    'np.asarray(x, float) returns the caller\'s own object exactly for float64 ndarrays (NumPy semantics, transcribed)',
]
TRUSTED = [
    'tr/C16_kernels.py: python ast -> Gallina for the five NumPy kernels (rank inference, broadcasting) and skeleton '
    'matching with holes for gamma_UNIFAC / gamma_modified_UNIFAC and fill_group_psis; fails closed',
    'coq/C16/Ops.v (NumPy array vocabulary over lists), Wrapper.v (gather/evaluate/scatter with explicit array writes), '
    'Model.v (__new__ derived arrays, __call__/f/args, ideal decorator) are hand-written; tie = exact correspondence',
    'dict -> array layout in __new__ (chemgroup_array, set iteration order of group ids, get_interaction look-ups) is not '
    'modelled: chemgroups, Qs, Rs, interactions and index are read from the constructed object',
    'numba compilation: compiled results are compared with the py_func path at 1e-12 on every case where both return',
    'not modelled: GCEOSActivityCoefficients / GCEOSFugacityCoefficients (third-party thermo EOS objects), '
    'IdealGasPoyintingCorrectionFactors (not an ideal-returns-one model), pickling (__reduce__) and the per-class object cache; '
    'array dtypes (the functional form on int / float32 arrays is checked by the oracle, not by the model)',
]

# ------------------------------------------------------------------ translator hook
def translate():
    sys.path.insert(0, os.path.join(VERIF, 'tr'))
    import importlib
    m = importlib.import_module('C16_kernels')
    return m.translate()

# ------------------------------------------------------------------ exact arithmetic stand-in carrier
class XQ:
    """Exact rational with stand-in transcendental functions (set per case in XQ.SI)."""
    __slots__ = ('v',)
    SI = None
    def __init__(s, v): s.v = v if isinstance(v, F) else F(v)
    @staticmethod
    def c(o): return o.v if isinstance(o, XQ) else F(o)
    def __add__(s, o): return XQ(s.v + XQ.c(o))
    __radd__ = __add__
    def __sub__(s, o): return XQ(s.v - XQ.c(o))
    def __rsub__(s, o): return XQ(XQ.c(o) - s.v)
    def __mul__(s, o): return XQ(s.v * XQ.c(o))
    __rmul__ = __mul__
    def __truediv__(s, o): return XQ(s.v / XQ.c(o))
    def __rtruediv__(s, o): return XQ(XQ.c(o) / s.v)
    def __neg__(s): return XQ(-s.v)
    def __pow__(s, e):
        if e != 0.75: raise TypeError('power other than 0.75')
        return XQ(apply_si(XQ.SI[2], s.v))
    def exp(s): return XQ(apply_si(XQ.SI[0], s.v))
    def log(s): return XQ(apply_si(XQ.SI[1], s.v))
    def __eq__(s, o): return s.v == XQ.c(o)
    def __ne__(s, o): return s.v != XQ.c(o)
    def __bool__(s): return s.v != 0
    def __hash__(s): return hash(s.v)
    def __repr__(s): return f'XQ({s.v})'

def apply_si(si, x):
    k, a, b = si
    a, b = F(a), F(b)
    if k == 0: return (a + x) / b
    if k == 1: return (a + x) / (b + x)
    return a + x * x / b

def fx(v):
    return v.v if isinstance(v, XQ) else F(v)

def toX(a, quant=None):
    a = np.asarray(a)
    if a.dtype == bool or a.dtype.kind == 'i':
        return a
    out = np.empty(a.shape, dtype=object)
    for idx in np.ndindex(a.shape):
        v = float(a[idx])
        out[idx] = XQ(F(round(v * quant), quant) if quant else F(v))
    return out

_xexp = np.frompyfunc(lambda v: (v if isinstance(v, XQ) else XQ(v)).exp(), 1, 1)
_xlog = np.frompyfunc(lambda v: (v if isinstance(v, XQ) else XQ(v)).log(), 1, 1)

class Shim:
    """Replacement for the module global `np` of activity_coefficients during an exact run."""
    def __getattr__(s, n): return getattr(np, n)
    @staticmethod
    def ones(n): return toX(np.ones(n))
    @staticmethod
    def isnan(v): return False
    @staticmethod
    def asarray(x, dtype=None):
        # an object ndarray stands for the caller's float64 ndarray (returned as is);
        # anything else is converted into a fresh array
        if isinstance(x, np.ndarray) and x.dtype == object:
            return x
        out = np.empty(len(x), dtype=object)
        for i, v in enumerate(x):
            out[i] = v if isinstance(v, XQ) else XQ(v)
        return out
    exp = staticmethod(_xexp)
    log = staticmethod(_xlog)

KERNEL_NAMES = ['group_activity_coefficients', 'loggammacs_UNIFAC', 'loggammacs_modified_UNIFAC',
                'psi_modified_UNIFAC', 'psi_UNIFAC', 'fill_group_psis', 'gamma_UNIFAC', 'gamma_modified_UNIFAC']
ARG_SLOTS = ['_interactions', '_group_psis', '_group_mask', '_qs', '_rs', '_Qs', '_chemgroups', '_chem_Qfractions', '_index']

class patched:
    """py_funcs in place of the compiled dispatchers; np -> shim when exact."""
    def __init__(s, exact): s.exact = exact
    def __enter__(s):
        ac = env()['ac']
        # every numba dispatcher of the module (the listed kernels and any helper they were split into)
        names = list(dict.fromkeys(KERNEL_NAMES + [n for n, v in vars(ac).items() if hasattr(v, 'py_func')]))
        s.saved = {n: getattr(ac, n) for n in names if hasattr(ac, n)}
        for n in s.saved:
            setattr(ac, n, getattr(s.saved[n], 'py_func', s.saved[n]))
        if s.exact: ac.np = Shim()
    def __exit__(s, *a):
        ac = env()['ac']
        for n in s.saved: setattr(ac, n, s.saved[n])
        ac.np = np

# ------------------------------------------------------------------ environment
GROUPED = ['Water', 'Ethanol', 'Methanol', 'Propanol', 'Hexane', 'Octane', 'Benzene', 'Acetone', 'Toluene', 'AceticAcid']
NOGROUP = ['O2', 'N2', 'Inert_']
NIST_IDS = {'Water': {16: 1}, 'Ethanol': {1: 1, 2: 1, 14: 1}, 'Methanol': {15: 1}, 'Propanol': {1: 1, 2: 2, 14: 1},
            'Hexane': {1: 2, 2: 4}, 'Octane': {1: 2, 2: 6}, 'Benzene': {9: 6}, 'Acetone': {1: 1, 18: 1}}
CLASSES = ['UNIFAC', 'Dortmund', 'NIST']
_env = {}
def env():
    if not _env:
        warnings.filterwarnings('ignore')
        import thermosteam as tmo
        from thermosteam.equilibrium import activity_coefficients as ac
        from thermosteam import equilibrium as eq
        chems = {}
        for n in GROUPED + NOGROUP[:2]:
            chems[n] = tmo.Chemical(n)
        chems['Inert_'] = tmo.Chemical('Inert_', search_db=False, MW=16., Hf=0., Cn=64., phase='l', default=True)
        for n, g in NIST_IDS.items():
            chems[n].NIST.clear(); chems[n].NIST.update(g)
        _env.update(tmo=tmo, ac=ac, eq=eq, chems=chems,
                    cls={'UNIFAC': ac.UNIFACActivityCoefficients, 'Dortmund': ac.DortmundActivityCoefficients,
                         'NIST': ac.NISTActivityCoefficients})
    return _env

def build(case):
    e = env()
    chems = [e['chems'][n] for n in case['chems']]
    with warnings.catch_warnings():
        warnings.simplefilter('ignore')
        return e['cls'][case['cls']](chems)

def group_order(case):
    """group ids in the column order __new__ uses (same statements as the source)."""
    e = env()
    field = case['cls']
    all_groups = set()
    for n in case['chems']:
        g = getattr(e['chems'][n], field)
        if g: all_groups.update(g)
    return list(all_groups)

# ------------------------------------------------------------------ generators
XA = [0., 1., 0.5, 0.25, 0.125, 0.75, 0.375, 2., 3., 2. ** -20, 2. ** -10, 0.0625, 1.5]
TS = [250., 256., 298.15, 300., 320.5, 350., 373.125, 400., 450.]
def gen_si(rng):
    # kinds: 0 affine (a+x)/b, 1 Moebius (a+x)/(b+x), 2 quadratic a+x*x/b.  exp is applied to the largest
    # intermediate values, so it only gets the degree-one kinds (keeps the exact numbers small)
    def one(kinds):
        k = rng.choice(kinds)
        a = F(rng.choice([1, 2, 3, 5, 7, -1, -3]), rng.choice([1, 2, 4]))
        b = F(rng.choice([2, 3, 4, 5, 7, -2]), rng.choice([1, 2]))
        return [k, fr_json(a), fr_json(b)]
    return [one([0, 0, 1]), one([0, 0, 1, 2]), one([0, 1, 2])]

def gen_x(rng, n, names):
    r = rng.random()
    grouped = [i for i, m in enumerate(names) if m not in NOGROUP]
    if r < 0.12:                                   # vertex
        x = [0.] * n; x[rng.randrange(n)] = 1.; return x
    if r < 0.20:                                   # edge
        x = [0.] * n; i, j = rng.sample(range(n), 2) if n > 1 else (0, 0); x[i] = 0.5; x[j] = 0.5; return x
    if r < 0.27:                                   # zero on every group-bearing chemical
        x = [0. if i in grouped else rng.choice([1., 0.5, 0.25]) for i in range(n)]
        return x
    if r < 0.33:                                   # trace
        x = [2. ** -20] * n; x[rng.randrange(n)] = 1. - (n - 1) * 2. ** -20; return x
    if r < 0.38:                                   # a negative entry / cancelling pair
        x = [rng.choice(XA) for _ in range(n)]; x[rng.randrange(n)] = -rng.choice([0.25, 0.5, 1.]); return x
    if r < 0.60:                                   # normalised dyadic
        k = [rng.randint(0, 8) for _ in range(n)]
        s = sum(k)
        if s and (s & (s - 1)) == 0: return [ki / s for ki in k]
        k[0] += 16 - s if 0 < s < 16 else 0
        s = sum(k)
        return [ki / s for ki in k] if s and (s & (s - 1)) == 0 else [rng.choice(XA) for _ in range(n)]
    return [rng.choice(XA) for _ in range(n)]

PERM_SETS = [['Water', 'Ethanol', 'O2'], ['Water', 'Ethanol', 'Hexane', 'N2'], ['Methanol', 'Benzene', 'Acetone'],
             ['Inert_', 'Water', 'Propanol', 'Octane']]

def gen_cases(rng, tier):
    n_rand = 150 if tier == 'quick' else 2400
    cases = []
    def mk(cls, names, x, T):
        return {'kind': 'wrap', 'cls': cls, 'chems': list(names), 'x': x, 'T': T,
                'xkind': rng.choice(['f64', 'f64', 'f64', 'list', 'int', 'f32']),
                'si': gen_si(rng), 'quant': rng.choice([64, 64, 16, 1024])}
    # all permutations of selected sets (n <= 4), one composition per set carried along
    for names in PERM_SETS if tier != 'quick' else PERM_SETS[:2] + [PERM_SETS[3][:3]]:
        cls = rng.choice(CLASSES)
        x = gen_x(rng, len(names), names)
        T = rng.choice(TS)
        for p in itertools.permutations(range(len(names))):
            c = mk(cls, [names[i] for i in p], [x[i] for i in p], T)
            cases.append(c)
    for _ in range(n_rand):
        n = rng.choice([2, 2, 3, 3, 3, 4, 4, 5])
        ng = rng.choice([0, 0, 0, 1, 1, 2]) if n > 2 else rng.choice([0, 0, 1])
        names = rng.sample(GROUPED, n - ng) + rng.sample(NOGROUP, min(ng, 3))
        rng.shuffle(names)
        cases.append(mk(rng.choice(CLASSES), names, gen_x(rng, n, names), rng.choice(TS)))
    for _ in range(12 if tier == 'quick' else 100):   # bare combinatorial kernels
        n = rng.randint(1, 4)
        cases.append({'kind': 'lgc', 'modified': rng.random() < 0.5, 'si': gen_si(rng),
                      'qs': [rng.choice([0.5, 1., 1.5, 2.25, 3., 0.]) for _ in range(n)],
                      'rs': [rng.choice([0.5, 1., 1.25, 2., 4., 0.]) for _ in range(n)],
                      'x': [rng.choice(XA) for _ in range(n)]})
    for _ in range(4 if tier == 'quick' else 20):
        n = rng.randint(1, 5)
        cases.append({'kind': 'ideal', 'chems': rng.sample(GROUPED + NOGROUP, n), 'x': [rng.choice(XA) for _ in range(n)],
                      'T': rng.choice(TS)})
    # histories on one object: call, rewrite the same array in place, call again at the same T, .f, copies
    def pos_x(n):
        k = [rng.randint(1, 5) for _ in range(n)]
        while sum(k) != 16:
            i = rng.randrange(n)
            if sum(k) < 16: k[i] += 1
            elif k[i] > 1: k[i] -= 1
        return [ki / 16 for ki in k]
    for h in range(15 if tier == 'quick' else 160):
        n = rng.choice([2, 3, 3, 4])
        ng = rng.choice([0, 0, 1]) if n > 2 else 0
        names = rng.sample(GROUPED, n - ng) + rng.sample(NOGROUP, ng)
        if h % 5 == 4:                                   # at most one member with groups: the ideal fallback object
            names = rng.sample(GROUPED, rng.choice([0, 1])) + rng.sample(NOGROUP, 2)
            n = len(names)
        rng.shuffle(names)
        T = rng.choice(TS)
        na = rng.choice([1, 1, 2])
        ops = [['call', 0, True, T], ['set', 0, pos_x(n)], ['call', 0, True, T]] if h % 2 == 0 else []
        for _ in range(rng.randint(2, 5)):
            r = rng.randrange(na)
            k = rng.choice(['call', 'call', 'callcopy', 'f', 'set', 'set', 'setres', 'setres', 'act', 'act'])
            Tk = T if rng.random() < 0.8 else rng.choice(TS)
            if k == 'call': ops.append(['call', r, True, Tk])
            elif k == 'callcopy': ops.append(['call', r, False, Tk])
            elif k == 'f': ops.append(['f', r, Tk])
            elif k == 'act':                             # the object form on the sub-system, then the functional form again
                nsub = sum(1 for nm in names if nm not in NOGROUP and (CLASSES[h % 3] != 'NIST' or nm in NIST_IDS))
                ops.append(['act', pos_x(max(nsub, 1)), Tk]); ops.append(['call', r, True, Tk])
            elif k == 'setres':                          # the caller rewrites in place an array a call returned
                ops.append(['setres', rng.randrange(3), pos_x(n)]); ops.append(['call', r, True, Tk])
            else: ops.append(['set', r, pos_x(n)])
        cases.append({'kind': 'hist', 'cls': CLASSES[h % 3], 'chems': names, 'arrays': [pos_x(n) for _ in range(na)],
                      'ops': ops, 'si': gen_si(rng), 'quant': rng.choice([64, 16])})
    for c in cases:
        if c['kind'] == 'wrap' and c['xkind'] == 'int':
            c['x'] = [float(int(abs(v)) if abs(v) >= 1 else (1 if v else 0)) for v in c['x']]
    return cases

# ------------------------------------------------------------------ implementation side
def real_x(case):
    k = case['xkind']
    if k == 'f64': return np.array(case['x'], float)
    if k == 'list': return list(case['x'])
    if k == 'int': return np.array([int(v) for v in case['x']])
    return np.array(case['x'], np.float32)

def x_values(x):
    return [frac(v) for v in np.asarray(x, float)]

def fmat(a):
    return [[fr_json(fx(v)) for v in row] for row in a]
def fvec(a):
    return [fr_json(fx(v)) for v in a]

def all_slots(G):
    names = []
    for k in type(G).__mro__:
        sl = k.__dict__.get('__slots__', ())
        names += [sl] if isinstance(sl, str) else list(sl)
    return list(dict.fromkeys(names))

class exact_session:
    """Swap the array attributes of G for exact (XQ) arrays; on exit restore EVERY attribute the object has
    (declared slots and, if present, __dict__), so that whatever per-object state an exact run leaves behind
    (e.g. a memo of the last call holding XQ values) never leaks into later real calls."""
    def __init__(s, G, quant): s.G = G; s.quant = quant
    def __enter__(s):
        G = s.G
        s.names = all_slots(G)
        s.saved = {n: getattr(G, n) for n in s.names if hasattr(G, n)}
        s.dict = dict(G.__dict__) if hasattr(G, '__dict__') else None
        for n in ARG_SLOTS:
            if n != '_index': setattr(G, n, toX(s.saved[n], s.quant))
        return s
    def __exit__(s, *a):
        G = s.G
        for n in s.names:
            if n in s.saved: setattr(G, n, s.saved[n])
            elif hasattr(G, n):
                try: delattr(G, n)
                except Exception: pass
        if s.dict is not None:
            G.__dict__.clear(); G.__dict__.update(s.dict)

def exact_data(G):
    inter = G._interactions
    return {'inter': fmat(inter) if inter.ndim == 2 else [fmat(r) for r in inter],
            'gpsis': fmat(G._group_psis), 'mask': [[bool(b) for b in r] for r in G._group_mask],
            'qs': fvec(G._qs), 'rs': fvec(G._rs), 'Qs': fvec(G._Qs), 'chemgroups': fmat(G._chemgroups),
            'cQfs': fmat(G._chem_Qfractions), 'index': [int(i) for i in G._index]}

def xarray(vals):
    x = np.empty(len(vals), dtype=object)
    for i, v in enumerate(vals): x[i] = XQ(F(v))
    return x

def exact_call(G, case):
    """G(x, T) on exact Fractions through the py_funcs.  Returns (obs dict, data dict)."""
    XQ.SI = [(k, F(a), F(b)) for k, a, b in case['si']]
    x = xarray(case['x'])
    if case['xkind'] != 'f64': x = list(x)
    with exact_session(G, case['quant']):
        data = exact_data(G)
        with patched(True):
            try:
                g = G(x, XQ(F(case['T'])))
                obs = {'gamma': fvec(g), 'x_after': fvec(x), 'gpsis': fmat(G._group_psis)}
            except ZeroDivisionError:
                obs = {'err': 'ZeroDiv'}
            except UnboundLocalError:
                obs = {'err': 'Unbound'}
        inter_after = G._interactions
        obs['inter_untouched'] = (fmat(inter_after) if inter_after.ndim == 2 else [fmat(r) for r in inter_after]) == data['inter']
    return obs, data

def exact_hist(G, case):
    """a history of calls / .f calls / in-place rewrites (of the caller's arrays and of returned arrays) on ONE
    object, on exact Fractions"""
    XQ.SI = [(k, F(a), F(b)) for k, a, b in case['si']]
    arrays = [xarray(a) for a in case['arrays']]
    results = []
    outs = []
    with exact_session(G, case['quant']):
        data = exact_data(G)
        with patched(True):
            for op in hist_ops(G, case):
                try:
                    if op[0] == 'set':
                        arrays[op[1]][:] = xarray(op[2]); outs.append(None); continue
                    if op[0] == 'setres':
                        if op[1] < len(results): results[op[1]][:] = xarray(op[2])
                        outs.append(None); continue
                    if op[0] == 'act':
                        g = G.activity_coefficients(xarray(op[1]), XQ(F(op[2])))
                    else:
                        arr = arrays[op[1]]
                        if op[0] == 'call':
                            g = G(arr if op[2] else list(arr), XQ(F(op[3])))
                        else:
                            g = G.f(arr, XQ(F(op[2])), *G.args)
                    results.append(g)
                    outs.append(fvec(g))
                except ZeroDivisionError:
                    outs.append('ZeroDiv')
                except UnboundLocalError:
                    outs.append('Unbound')
        ia = G._interactions
        final = {'arrays': [fvec(a) for a in arrays], 'results': [fvec(r) for r in results], 'gpsis': fmat(G._group_psis),
                 'inter': fmat(ia) if ia.ndim == 2 else [fmat(r) for r in ia]}
    return outs, final, data

def hist_ops(G, case):
    """operations of a history case that apply to this object: 'act' needs the number of members with groups, and a
    'setres' must carry as many values as the array it rewrites holds (a result of activity_coefficients is shorter)"""
    nsub = len(getattr(G, '_index', ()))
    n = len(case['chems'])
    ops, lens = [], []
    for op in case['ops']:
        if op[0] == 'act':
            if not (nsub and len(op[1]) == nsub): continue
            lens.append(nsub)
        elif op[0] in ('call', 'f'):
            lens.append(n)
        elif op[0] == 'setres' and op[1] < len(lens) and lens[op[1]] != len(op[2]):
            continue
        ops.append(op)
    return ops

def ideal_hist(G, case):
    """the same history on an ideal object (real floats: everything is exactly 1.0 or what the caller wrote)"""
    arrays = [np.array(a, float) for a in case['arrays']]
    results = []; ops = []; outs = []
    for op in hist_ops(G, case):
        if op[0] == 'set':
            arrays[op[1]][:] = op[2]; continue
        if op[0] == 'setres':
            if op[1] < len(results): results[op[1]][:] = op[2]
            ops.append(['setres', op[1], op[2]]); outs.append(None); continue
        arr = arrays[op[1]]
        if op[0] == 'call':
            g = G(arr if op[2] else list(arr), op[3])
            results.append(g); ops.append(['call', len(arr)]); outs.append([fr_json(frac(v)) for v in g])
        else:
            v = G.f(arr, op[2], *G.args)
            ops.append(['f']); outs.append(fr_json(frac(v)))
    return {'iops': ops, 'iouts': outs, 'iresults': [[fr_json(frac(v)) for v in r] for r in results]}

def close(a, b, tol):
    a = np.asarray(a, float); b = np.asarray(b, float)
    return a.shape == b.shape and bool(np.all(np.abs(a - b) <= tol * np.maximum(1., np.maximum(np.abs(a), np.abs(b)))))

def real_call(G, case, safe):
    """compiled call and py_func call with the real exp/log.  `safe` = the exact run did not hit the
    unbound gamma_sub (the compiled kernel then reads an uninitialised array and can crash the process)."""
    out = {}
    x = real_x(case)
    before = x_values(x)
    with patched(False):
        xp = real_x(case)
        try:
            with np.errstate(all='ignore'):
                gp = np.asarray(G(xp, case['T']), float)
            out['py'] = True
        except UnboundLocalError:
            gp = None; out['py'] = 'Unbound'
        except (FloatingPointError, ZeroDivisionError):
            gp = None; out['py'] = 'ZeroDiv'
        xp_after = x_values(xp)
    if safe and out['py'] != 'Unbound':
        gpsis0 = G._group_psis.copy()
        g = np.asarray(G(x, case['T']), float)
        out['x_after_real'] = [fr_json(v) for v in x_values(x)]
        out['x_changed_real'] = x_values(x) != before
        if gp is not None and np.all(np.isfinite(g)) and np.all(np.isfinite(gp)):
            out['jit_agrees'] = close(g, gp, 1e-12) and x_values(x) == xp_after
        else:
            out['jit_agrees'] = None
    else:
        out['x_after_real'] = [fr_json(v) for v in xp_after]
        out['x_changed_real'] = xp_after != before
        out['jit_agrees'] = None
    return out

JAC_TOL = F(1, 10 ** 5)
def _short(a, bits=12):
    """the same floats kept to `bits` significant bits: the kernel is evaluated AT these values (they are its inputs), and
    the exact rational evaluation of the model in Coq on the same values stays small"""
    m, e = np.frexp(np.asarray(a, float))
    return np.ldexp(np.round(m * 2. ** bits), e - bits)
def resid_jacobian_fd(G, case):
    """d ln(gamma_i^R) / d x_j MEASURED on thermosteam's compiled group_activity_coefficients (zero combinatorial term, the
    object's own arrays, psis from the module's psi function at T, group_psis filled through the object's mask) by central
    differences with one Richardson step, at the renormalised sub-composition of the members with groups, with x, psis and Qs kept to 12 significant bits (closed orthant:
    zero entries allowed; the theorems hold there).  None when the point is outside it or the measurement is not self-consistent.  Everything returned is the exact rational value of
    the float, so the model's Jacobian (ModelJac.resid_jac) is evaluated in Coq on exactly the inputs the kernel saw."""
    e = env(); ac = e['ac']
    x = np.asarray([float(v) for v in case['x']], float)
    idx = np.asarray(G._index)
    if idx.size < 2: return None
    xs = x[idx]
    if not (np.all(np.isfinite(xs)) and np.all(xs >= 0) and xs.sum() > 0): return None
    xs = _short(xs / xs.sum())
    if not xs.sum() > 0: return None
    T = float(case['T'])
    inter = np.array(G._interactions, float, copy=True)
    with np.errstate(all='ignore'):
        psis = np.asarray(ac.psi_UNIFAC(T, inter) if inter.ndim == 2 else ac.psi_modified_UNIFAC(T, inter), float)
    if not np.all(np.isfinite(psis)) or not np.all(psis > 0): return None
    psis = _short(psis)
    gpsis = np.where(np.asarray(G._group_mask, bool), psis, 0.)
    cg = np.asarray(G._chemgroups, float); Qs = _short(np.asarray(G._Qs, float)); cQ = np.asarray(G._chem_Qfractions, float)
    zeros = np.zeros(xs.size)
    def f(v):
        return np.log(ac.group_activity_coefficients(v, cg, zeros, Qs, psis, cQ, gpsis))
    n = xs.size; J = np.zeros((n, n))
    with np.errstate(all='ignore'):
        for j in range(n):
            def D(hh):
                a = xs.copy(); b = xs.copy(); a[j] += hh; b[j] -= hh
                return (f(a) - f(b)) / (2. * hh)
            # the measurement must be self-consistent: two successive step sizes agree to 1e-7, otherwise no comparison
            h = min(2. ** -10, xs[j] / 4.) if xs[j] > 0 else 2. ** -10; prev = None; got = None
            for _ in range(4):
                est = (4. * D(h / 2.) - D(h)) / 3.
                if prev is not None and np.all(np.isfinite(est)) and close(prev, est, 1e-7):
                    got = est; break
                prev = est; h /= 8.
            if got is None: return None
            J[:, j] = got
    if not np.all(np.isfinite(J)): return None
    fm = lambda m: [[fr_json(frac(v)) for v in r] for r in m]
    return {'x': [fr_json(frac(v)) for v in xs], 'psis': fm(psis), 'J': fm(J), 'cg': fm(cg),
            'Qs': [fr_json(frac(v)) for v in Qs]}

def derived(G, case):
    e = env()
    cls = e['cls'][case['cls']]
    order = group_order(case)
    sub = cls.all_subgroups
    Qs = [float(sub[g].Q) for g in order]
    Rs = [float(sub[g].R) for g in order]
    return {'order_ok': bool(np.array_equal(np.array(Qs), G._Qs)), 'Rs': [fr_json(frac(v)) for v in Rs],
            'Qs': [fr_json(frac(v)) for v in G._Qs], 'chemgroups': [[fr_json(frac(v)) for v in r] for r in G._chemgroups],
            'rs': [fr_json(frac(v)) for v in G._rs], 'qs': [fr_json(frac(v)) for v in G._qs],
            'cQfs': [[fr_json(frac(v)) for v in r] for r in G._chem_Qfractions],
            'mask': [[bool(b) for b in r] for r in G._group_mask]}

def n_with_groups(case):
    e = env()
    return sum(1 for n in case['chems'] if getattr(e['chems'][n], case['cls']))

def _run_impl(case):
    e = env(); ac = e['ac']; eq = e['eq']
    if case['kind'] == 'lgc':
        XQ.SI = [(k, F(a), F(b)) for k, a, b in case['si']]
        with patched(True):
            fn = ac.loggammacs_modified_UNIFAC if case['modified'] else ac.loggammacs_UNIFAC
            try:
                r = fn(toX(np.array(case['qs'])), toX(np.array(case['rs'])), toX(np.array(case['x'])))
                return {'values': fvec(r)}
            except ZeroDivisionError:
                return {'values': None}
    if case['kind'] == 'ideal':
        chems = [e['chems'][n] for n in case['chems']]
        x = np.array(case['x'], float); x0 = x.copy()
        ia = ac.IdealActivityCoefficients(chems)
        fu = eq.IdealFugacityCoefficients(chems)
        pc = eq.MockPoyintingCorrectionFactors(chems)
        act = ia(x, case['T'])
        return {'act': [fr_json(frac(v)) for v in act], 'f': fr_json(frac(ia.f(x, case['T'], *ia.args))),
                'fug': fr_json(frac(fu(x, case['T'], 101325.))), 'fugf': fr_json(frac(fu.f(x, case['T'], 101325., *fu.args))),
                'pcf': fr_json(frac(pc(case['T'], 101325.))), 'x_same': bool(np.array_equal(x, x0))}
    G = build(case)
    out = {'nidx': n_with_groups(case), 'is_ideal': type(G) is ac.IdealActivityCoefficients}
    if case['kind'] == 'hist':
        if not out['is_ideal']:
            out['outs'], out['final'], out['data'] = exact_hist(G, case)
            out['ops_run'] = hist_ops(G, case)
        else:
            out.update(ideal_hist(G, case))
        return out
    if out['is_ideal']:
        x = real_x(case); before = x_values(x)
        g = G(x, case['T'])
        out['gamma'] = [fr_json(frac(v)) for v in g]
        out['f'] = fr_json(frac(G.f(x, case['T'], *G.args)))
        out['x_same'] = x_values(x) == before
        return out
    obs, data = exact_call(G, case)
    out['obs'] = obs; out['data'] = data
    out['real'] = real_call(G, case, obs.get('err') != 'Unbound')
    out['derived'] = derived(G, case)
    out['jac'] = resid_jacobian_fd(G, case) if 'gamma' in obs else None
    return out

def run_impl(case):
    """observations for the model comparison, plus the property itself measured on the real objects
    (pure limit, Gibbs-Duhem by finite differences, permutations, no-group, ideal, x untouched, f = call):
    clauses that no theorem covers (residual part) are thereby checked on every run, not only after a break."""
    out = _run_impl(case)
    out['oracle'] = oracle(case)
    return out

# ------------------------------------------------------------------ model side
def Fs(s): return F(s)
def cqv(v): return qlist([F(s) for s in v])
def cqm(m): return clist([cqv(r) for r in m])
def cqm3(m): return clist([cqm(r) for r in m])
def cbm(m): return clist([clist(r, cbool) for r in m])
def csi(si): return clist([f'(mkSI {cnat(k)} {q(F(a))} {q(F(b))})' for k, a, b in si])

def cobs(o):
    if o.get('err') == 'ZeroDiv': return 'ObsZeroDiv'
    if o.get('err') == 'Unbound': return 'ObsUnbound'
    return f'(ObsOk {cqv(o["gamma"])} {cqv(o["x_after"])} {cqm(o["gpsis"])})'

def coq_case(case, out):
    return f'({_coq_case(case, out)} && {cbool(out.get("oracle") is None)})'

def _coq_case(case, out):
    if case['kind'] == 'lgc':
        v = 'None' if out['values'] is None else f'(Some {cqv(out["values"])})'
        return (f'(chk_lgc {csi(case["si"])} {cbool(case["modified"])} {qlist(case["qs"])} {qlist(case["rs"])} '
                f'{qlist(case["x"])} {v})')
    if case['kind'] == 'ideal':
        return (f'(chk_ideal {cnat(len(case["x"]))} {cqv(out["act"])} {q(F(out["f"]))} {q(F(out["fug"]))} '
                f'{q(F(out["fugf"]))} {q(F(out["pcf"]))} && {cbool(out["x_same"])})')
    kind = f'chk_new_kind {cnat(out["nidx"])} {cbool(out["is_ideal"])}'
    if case['kind'] == 'hist':
        if out['is_ideal']:
            def ciop(o):
                if o[0] == 'call': return f'(QICall {cnat(o[1])})'
                if o[0] == 'f': return 'QIF'
                return f'(QISetRes {cnat(o[1])} {qlist(o[2])})'
            def ciob(o):
                if o is None: return 'IONone'
                if isinstance(o, list): return f'(IOArr {cqv(o)})'
                return f'(IOScalar {q(F(o))})'
            return (f'({kind} && chk_ideal_hist {clist([ciop(o) for o in out["iops"]])} '
                    f'{clist([ciob(o) for o in out["iouts"]])} {clist([cqv(r) for r in out["iresults"]])})')
        d = out['data']
        def cop(o):
            if o[0] == 'act': return f'(QAct {qlist(o[1])} {q(o[2])})'
            if o[0] == 'set': return f'(QSet {cnat(o[1])} {qlist(o[2])})'
            if o[0] == 'setres': return f'(QSetRes {cnat(o[1])} {qlist(o[2])})'
            if o[0] == 'call': return f'(QCall {cnat(o[1])} {cbool(o[2])} {q(o[3])})'
            return f'(QF {cnat(o[1])} {q(o[2])})'
        def chob(o):
            if o is None: return 'HNone'
            if o == 'ZeroDiv': return 'HZeroDiv'
            if o == 'Unbound': return 'HUnbound'
            return f'(HVals {cqv(o)})'
        fn = 'chk_hist_unifac' if case['cls'] == 'UNIFAC' else 'chk_hist_modified'
        inter = cqm(d['inter']) if case['cls'] == 'UNIFAC' else cqm3(d['inter'])
        anyz = any(o in ('ZeroDiv',) for o in out['outs'])
        return (f'({kind} && {fn} {csi(case["si"])} {inter} {cqm(d["gpsis"])} {cbm(d["mask"])} {cqv(d["qs"])} {cqv(d["rs"])} '
                f'{cqv(d["Qs"])} {cqm(d["chemgroups"])} {cqm(d["cQfs"])} {clist(d["index"], cnat)} '
                f'{cqm(out["final"]["inter"]) if case["cls"] == "UNIFAC" else cqm3(out["final"]["inter"])} '
                f'{clist([qlist(a) for a in case["arrays"]])} {clist([cop(o) for o in out["ops_run"]])} '
                f'{clist([chob(o) for o in out["outs"]])} {clist([cqv(a) for a in out["final"]["arrays"]])} '
                f'{clist([cqv(a) for a in out["final"]["results"]])} '
                f'{cqm(out["final"]["gpsis"])} {cbool(anyz)})')
    if out['is_ideal']:
        n = len(case['x'])
        return (f'({kind} && chk_ideal {cnat(n)} {cqv(out["gamma"])} {q(F(out["f"]))} 1 1 1 && {cbool(out["x_same"])})')
    d = out['data']; o = out['obs']; r = out['real']; dv = out['derived']
    alias = case['xkind'] == 'f64'
    fn = 'chk_unifac' if case['cls'] == 'UNIFAC' else 'chk_modified'
    inter = cqm(d['inter']) if case['cls'] == 'UNIFAC' else cqm3(d['inter'])
    main = (f'{fn} {csi(case["si"])} {cbool(alias)} {qlist(case["x"])} {q(case["T"])} {inter} {cqm(d["gpsis"])} '
            f'{cbm(d["mask"])} {cqv(d["qs"])} {cqv(d["rs"])} {cqv(d["Qs"])} {cqm(d["chemgroups"])} {cqm(d["cQfs"])} '
            f'{clist(d["index"], cnat)} {cobs(o)}')
    # the compiled call leaves in the caller's x what the exact run predicts (when both completed)
    real_x_ok = True
    if 'x_after' in o:
        real_x_ok = [F(s) for s in r['x_after_real']] == [F(s) for s in o['x_after']] if case['xkind'] != 'f32' \
            else r['x_changed_real'] == ([F(s) for s in o['x_after']] != [F(v) for v in case['x']])
    elif o.get('err') == 'Unbound':
        real_x_ok = r['py'] == 'Unbound'
    flags = (real_x_ok and r['jit_agrees'] in (True, None) and o['inter_untouched'] and dv['order_ok'])
    der = (f'chk_derived {cqm(dv["chemgroups"])} {cqv(dv["Qs"])} {cqv(dv["Rs"])} {cqv(dv["rs"])} {cqv(dv["qs"])} '
           f'{cqm(dv["cQfs"])} {cbm(dv["mask"])}')
    jac = 'true'
    if out.get('jac'):
        j = out['jac']
        jac = (f'chk_resid_jac {cqv(j["x"])} {cqm(j["cg"])} {cqv(j["Qs"])} {cqm(j["psis"])} {cqm(j["J"])} {q(JAC_TOL)}')
    return f'({kind} && {main} && {der} && {cbool(flags)} && {jac})'

def coq_show(case, out):
    if case['kind'] != 'wrap' or out.get('is_ideal'):
        return 'tt'
    d = out['data']
    fn = 'gamma_UNIFAC' if case['cls'] == 'UNIFAC' else 'gamma_modified_UNIFAC'
    inter = f'(some_mat {cqm(d["inter"])})' if case['cls'] == 'UNIFAC' else f'(some_mat3 {cqm3(d["inter"])})'
    return (f'(call ({fn} (KS {csi(case["si"])})) (mkx {cbool(case["xkind"] == "f64")} {qlist(case["x"])}) (Some {q(case["T"])}) '
            f'(mk_oargs {inter} {cqm(d["gpsis"])} {cbm(d["mask"])} {cqv(d["qs"])} {cqv(d["rs"])} {cqv(d["Qs"])} '
            f'{cqm(d["chemgroups"])} {cqm(d["cQfs"])} {clist(d["index"], cnat)}))')

def nontrivial(case, out):
    if case['kind'] == 'wrap':
        return (not out.get('is_ideal', True)) and 'gamma' in out.get('obs', {})
    if case['kind'] == 'lgc':
        return out.get('values') is not None
    if case['kind'] == 'hist':
        return any(isinstance(o, list) for o in out.get('outs', []) + out.get('iouts', []))
    return True

def classify(case, out):
    ks = ['kind:' + case['kind']]
    if case['kind'] == 'wrap':
        ks += ['cls:' + case['cls'], 'n:%d' % len(case['x']), 'xkind:' + case['xkind'], 'quant:%s' % case['quant']]
        ks.append('object:' + ('ideal-fallback' if out.get('is_ideal') else 'group'))
        if 'obs' in out:
            ks.append('outcome:' + out['obs'].get('err', 'values'))
            ks.append('nogroup-members:%d' % (len(case['x']) - out['nidx']))
            if 'x_after' in out['obs']:
                ks.append('x-after:' + ('changed' if [F(s) for s in out['obs']['x_after']] != [F(v) for v in case['x']] else 'same'))
            ks.append('jit:' + str(out['real']['jit_agrees']))
            ks.append('resid-jacobian:' + ('measured-and-compared' if out.get('jac') else 'not-measured'))
        ks += ['standin:%d%d%d' % tuple(s[0] for s in case['si'])]
    if case['kind'] == 'hist':
        ks += ['cls:' + case['cls'], 'hist-ops:%d' % len(case['ops'])] + ['hop:' + o[0] + (':alias' if o[0] == 'call' and o[2] else '') for o in case['ops']]
    if 'oracle' in out:
        ks.append('oracle:' + ('holds' if out['oracle'] is None else out['oracle'].split(':')[0]))
    return ks

# ------------------------------------------------------------------ direct oracle (the property on the real objects)
def safe_eval(G, x, T):
    """Gamma(x, T) on the compiled object; when the group sub-composition sums to zero the py_func is tried first
    because the compiled kernel reads an unbound array there (observed: process crash)."""
    e = env(); ac = e['ac']
    x = np.asarray(x, float)
    if type(G) is not ac.IdealActivityCoefficients and float(np.sum(x[G._index])) == 0.:
        with patched(False):
            with np.errstate(all='ignore'):
                return np.asarray(G(x.copy(), T), float)
    return np.asarray(G(x, T), float)

def oracle(case):
    """never raises: an exception inside the implementation (or an object left in a state the real calls cannot
    handle) is reported as a violation message"""
    try:
        return _oracle(case)
    except Exception as ex:
        return (f'raises: {case.get("cls", case["kind"])} model on {case.get("chems")}: {type(ex).__name__}: '
                f'{str(ex)[:200]}')

def fresh_result_check(label, callf):
    """an array handed to the caller belongs to the caller: rewriting it in place must not change what the next
    evaluation returns, and two evaluations must not return overlapping memory"""
    r1 = callf()
    if not isinstance(r1, np.ndarray): return None
    keep = r1.copy()
    r1 *= 0.5; r1 += 0.25
    r2 = np.asarray(callf())
    if np.shares_memory(r1, r2):
        return f'result-aliased: {label}: two evaluations returned the same memory (caller rewrote the first result in place; the second reads {r2.tolist()})'
    if not close(r2, keep, 1e-12):
        return (f'result-aliased: {label}: after the caller rewrote a returned array in place the next evaluation gives '
                f'{r2.tolist()} instead of {keep.tolist()}')
    return None

PERSISTENT = ['_interactions', '_group_mask', '_qs', '_rs', '_Qs', '_chemgroups', '_chem_Qfractions', '_index']
def state_snapshot(G):
    """the arrays a model object holds between evaluations, except the _group_psis scratch buffer"""
    return {n: np.array(getattr(G, n), copy=True) for n in PERSISTENT if hasattr(G, n)}

def state_changed(G, snap, cls, names, what):
    for n, v in snap.items():
        cur = np.asarray(getattr(G, n))
        if cur.shape != v.shape or not np.array_equal(cur, v):
            d = float(np.max(np.abs(cur.astype(float) - v.astype(float)))) if cur.shape == v.shape else float('nan')
            return (f'object-state: {cls} model on {names}: {what} rewrote the model\'s own {n} (max change {d:.3g}); the object is '
                    f'cached per chemical tuple, so later evaluations see the damaged table')
    return None

def fresh_model(cls, names):
    """a model object that has not been evaluated yet (the per-class cache is bypassed and left as it was): one
    evaluation of it is the state-free reference for any step of a history on the cached object"""
    e = env()
    klass = e['cls'][cls]
    chems = tuple(e['chems'][n] for n in names)
    old = klass._cached.pop(chems, None)
    try:
        with warnings.catch_warnings():
            warnings.simplefilter('ignore')
            G2 = klass(chems)
    finally:
        if old is not None: klass._cached[chems] = old
        else: klass._cached.pop(chems, None)
    return G2

def expected_index(cls, names):
    """positions of the members that carry group data FOR THIS MODEL CLASS (read from the chemicals, not from the object)"""
    e = env()
    return [i for i, n in enumerate(names) if getattr(e['chems'][n], cls)]

def object_form_check(G, cls, names, xs, T):
    """obj.activity_coefficients (the object form on the members with groups) agrees with the functional form, can be
    repeated, and leaves the object as it was: evaluations before and after it give the same values"""
    idx = [int(i) for i in G._index]
    sub = np.asarray(xs, float)[idx]
    if float(sub.sum()) == 0. or np.any(np.asarray(xs) < 0): return None
    sub = sub / sub.sum()
    snap = state_snapshot(G)
    g_before = np.asarray(G(np.array(xs, float), T), float)
    ga = np.asarray(G.activity_coefficients(sub.copy(), T), float)
    msg = state_changed(G, snap, cls, names, 'activity_coefficients(x, T)')
    if msg: return msg
    ga2 = np.asarray(G.activity_coefficients(sub.copy(), T), float)
    g_after = np.asarray(G(np.array(xs, float), T), float)
    if not close(ga, g_before[idx], 1e-9):
        return (f'object-form: {cls} model on {names} at x={list(map(float, xs))}, T={T}: activity_coefficients gives {ga.tolist()} '
                f'but the functional form gives {g_before[idx].tolist()} for the members with groups')
    if not close(ga2, ga, 1e-12):
        return f'object-form: {cls} model on {names}: a second activity_coefficients call gives {ga2.tolist()} instead of {ga.tolist()}'
    if not close(g_after, g_before, 1e-12):
        return (f'history: {cls} model on {names}: after one activity_coefficients call obj(x, T) gives {g_after.tolist()} '
                f'instead of {g_before.tolist()} (hidden per-object state)')
    # the same with the object form evaluated at ANOTHER temperature in between, against an object never evaluated before
    T2 = T + 32. if T < 400. else T - 32.
    g_ref = np.asarray(fresh_model(cls, names)(np.array(xs, float), T), float)
    g1 = np.asarray(G(np.array(xs, float), T), float)
    ga_T2 = np.asarray(G.activity_coefficients(sub.copy(), T2), float)
    g2 = np.asarray(G(np.array(xs, float), T), float)
    gf2 = np.asarray(G.f(np.array(xs, float), T, *G.args), float)
    ref_T2 = np.asarray(fresh_model(cls, names)(np.array(xs, float), T2), float)[idx]
    if not close(g1, g_ref, 1e-12):
        return (f'history: {cls} model on {names} at x={list(map(float, xs))}, T={T}: the cached object gives {g1.tolist()} but an object '
                f'that was never evaluated gives {g_ref.tolist()} (hidden per-object state)')
    if not close(g2, g1, 1e-12) or not close(gf2, g1, 1e-12):
        return (f'history: {cls} model on {names} at x={list(map(float, xs))}: obj(x, {T}) = {g1.tolist()}, then '
                f'obj.activity_coefficients(x_sub, {T2}), then obj(x, {T}) = {g2.tolist()} and obj.f(x, {T}, *obj.args) = {gf2.tolist()} '
                f'(the value at T={T} depends on an evaluation at another temperature: hidden per-object state)')
    if not close(ga_T2, ref_T2, 1e-9):
        return (f'object-form: {cls} model on {names}: activity_coefficients(x_sub, {T2}) after a call at {T} gives {ga_T2.tolist()} '
                f'but an object never evaluated gives {ref_T2.tolist()}')
    return None

def native_dtype_check(G, cls, names, x, T):
    """the functional form is handed the caller's array as is (int unit vectors, float32 storage): same values as the object"""
    if not isinstance(x, np.ndarray): return None
    idx = [int(i) for i in G._index]
    if float(np.sum(np.asarray(x, float)[idx])) == 0.: return None
    keep = x.copy()
    g_obj = np.asarray(G(x, T), float)
    try:
        r = G.f(x, T, *G.args)
    except Exception as ex:
        return (f'f-differs: {cls} model on {names}, x={keep.tolist()} ({x.dtype} array), T={T}: obj(x, T) = {g_obj.tolist()} but '
                f'obj.f(x, T, *obj.args) raises {type(ex).__name__} (the functional form cannot be evaluated on the caller\'s array)')
    g_fun = np.asarray(r, float)
    if not np.array_equal(x, keep):
        return f'x-modified: {cls} model on {names}: .f changed the caller\'s {x.dtype} array {keep.tolist()} -> {x.tolist()}'
    if not close(g_fun, g_obj, 1e-12):
        return (f'f-differs: {cls} model on {names}, x={keep.tolist()} ({x.dtype} array), T={T}: obj.f(x, T, *obj.args) = {g_fun.tolist()} '
                f'(dtype {np.asarray(r).dtype}) but obj(x, T) = {g_obj.tolist()}')
    return None

def reuse_buffer_check(G, cls, names, comps, T):
    """obj(x, T) with ONE float64 buffer rewritten in place between calls at the same T must equal
    obj.f(x, T, *obj.args) and obj(fresh copy, T) at every step, and leave the buffer alone."""
    x = np.empty(len(comps[0]))
    for k, comp in enumerate(comps):
        x[:] = comp
        keep = x.copy()
        g_obj = np.asarray(G(x, T), float)
        g_fun = np.broadcast_to(np.asarray(G.f(x.copy(), T, *G.args), float), g_obj.shape)
        g_new = np.asarray(G(x.copy(), T), float)
        if not np.array_equal(x, keep):
            return f'x-modified: {cls} model on {names}: reused buffer {keep.tolist()} became {x.tolist()}'
        if not close(g_obj, g_fun, 1e-12):
            return (f'history: {cls} model on {names}, one buffer rewritten in place, call {k} at T={T}, x={keep.tolist()}: '
                    f'obj(x, T) = {g_obj.tolist()} but obj.f(x, T, *obj.args) = {g_fun.tolist()} (hidden per-object state)')
        if not close(g_obj, g_new, 1e-12):
            return (f'history: {cls} model on {names}, one buffer rewritten in place, call {k} at T={T}: obj(x, T) = '
                    f'{g_obj.tolist()} but obj(x.copy(), T) = {g_new.tolist()} (hidden per-object state)')
    xx = np.array(comps[0], float)
    msg = fresh_result_check(f'{cls} model on {names}, obj(x, T)', lambda: G(xx, T))
    if msg: return msg
    return fresh_result_check(f'{cls} model on {names}, obj.f(x, T, *obj.args)', lambda: G.f(xx, T, *G.args))

def _oracle(case):
    e = env(); ac = e['ac']; eq = e['eq']
    if case['kind'] == 'lgc':
        return None
    if case['kind'] == 'hist':
        G = build(case)
        cls = case['cls']
        arrays = [np.array(a, float) for a in case['arrays']]
        results = []
        if type(G) is ac.IdealActivityCoefficients:
            ops = hist_ops(G, case); snap = {}
        else:
            ops = hist_ops(G, case); snap = state_snapshot(G)
        for k, op in enumerate(ops):
            if op[0] == 'act':
                idx = [int(i) for i in G._index]
                v = np.array(op[1], float); T = op[2]
                full = np.zeros(len(case['chems'])); full[idx] = v
                ref = np.asarray(fresh_model(cls, case['chems'])(full, T), float)[idx]
                ga = np.asarray(G.activity_coefficients(v.copy(), T), float)
                results.append(ga)
                msg = state_changed(G, snap, cls, case['chems'], f'step {k} (activity_coefficients)')
                if msg: return msg
                if not close(ga, ref, 1e-9):
                    return (f'object-form: {cls} model on {case["chems"]}: step {k} activity_coefficients({v.tolist()}, {T}) = {ga.tolist()} '
                            f'but the functional form gives {ref.tolist()}')
                continue
            if op[0] == 'set':
                arrays[op[1]][:] = op[2]; continue
            if op[0] == 'setres':
                if op[1] < len(results) and isinstance(results[op[1]], np.ndarray): results[op[1]][:] = op[2]
                continue
            arr = arrays[op[1]]; keep = arr.copy()
            T = op[3] if op[0] == 'call' else op[2]
            if op[0] == 'call':
                g = G(arr if op[2] else list(arr), T)
            else:
                g = G.f(arr, T, *G.args)
            results.append(g)
            g = np.array(g, float)
            ref = np.broadcast_to(np.asarray(fresh_model(cls, case['chems'])(keep.copy(), T), float), (len(keep),))
            g = np.broadcast_to(g, (len(keep),))
            if not np.array_equal(arr, keep):
                return f'x-modified: {cls} model on {case["chems"]}: step {k} changed the caller\'s array'
            if not close(g, ref, 1e-12):
                return (f'history: {cls} model on {case["chems"]}: step {k} ({op[0]}) at T={T}, x={keep.tolist()} returns '
                        f'{g.tolist()} but a model object never evaluated before gives {ref.tolist()} (hidden per-object state '
                        f'or a returned array shared between calls)')
        msg = state_changed(G, snap, cls, case['chems'], 'the history of evaluations')
        if msg: return msg
        comps = [a for a in case['arrays']] + [op[2] for op in case['ops'] if op[0] == 'set']
        Ts = [op[3] if op[0] == 'call' else op[2] for op in case['ops'] if op[0] in ('call', 'f')]
        msg = reuse_buffer_check(G, cls, case['chems'], comps, Ts[0] if Ts else 335.)
        if msg or type(G) is ac.IdealActivityCoefficients: return msg
        return object_form_check(G, cls, case['chems'], comps[0], Ts[0] if Ts else 335.)
    if case['kind'] == 'ideal':
        chems = [e['chems'][n] for n in case['chems']]
        x = np.array(case['x'], float); x0 = x.copy()
        ia = ac.IdealActivityCoefficients(chems); fu = eq.IdealFugacityCoefficients(chems); pc = eq.MockPoyintingCorrectionFactors(chems)
        if not np.all(np.asarray(ia(x, case['T'])) == 1.): return 'ideal: IdealActivityCoefficients does not return ones'
        if ia.f(x, case['T'], *ia.args) != 1.: return 'ideal: IdealActivityCoefficients.f is not 1'
        if fu(x, case['T'], 101325.) != 1. or fu.f(x, case['T'], 101325., *fu.args) != 1.: return 'ideal: IdealFugacityCoefficients is not 1'
        if pc(case['T'], 101325.) != 1.: return 'ideal: MockPoyintingCorrectionFactors is not 1'
        if not np.array_equal(x, x0): return 'ideal: composition array modified'
        msg = fresh_result_check(f'IdealActivityCoefficients on {case["chems"]}', lambda: ia(x, case['T']))
        if msg: return msg
        # a second instance of the same size, after the caller rewrote a result of the first
        a1 = ia(x, case['T'])
        if isinstance(a1, np.ndarray): a1 *= 0.5
        other = ac.IdealActivityCoefficients(list(reversed(chems)))
        if not np.all(np.asarray(other(x, case['T'])) == 1.):
            return f'result-aliased: IdealActivityCoefficients on {case["chems"]}: another instance returns {np.asarray(other(x, case["T"])).tolist()} after the caller rewrote an earlier result in place'
        return None
    G = build(case)
    cls = case['cls']; T = case['T']
    n = len(case['chems'])
    ideal = type(G) is ac.IdealActivityCoefficients
    x = np.array(case['x'], float); x0 = x.copy()
    # 1. evaluation returns, and leaves the caller's array alone
    try:
        g = safe_eval(G, x, T)
    except UnboundLocalError as ex:
        return (f'unbound: {cls} model on {case["chems"]} at x={case["x"]} (zero on every group-bearing chemical) raises '
                f'UnboundLocalError in the py_func; the compiled kernel reads the unbound gamma_sub (process crash)')
    if not np.array_equal(x, x0):
        return f'x-modified: {cls} model on {case["chems"]}: caller\'s x {x0.tolist()} became {x.tolist()}'
    exp_idx = expected_index(cls, case['chems'])
    for i in range(n):
        if i not in exp_idx and g[i] != 1.:
            return (f'no-group: {cls} model on {case["chems"]} at x={x0.tolist()}, T={T}: {case["chems"][i]} has no {cls} groups '
                    f'but gamma = {g[i]!r}')
    if ideal != (len(exp_idx) <= 1) or (not ideal and [int(i) for i in G._index] != exp_idx):
        return (f'group-data: {cls} model on {case["chems"]}: the members with {cls} groups are at positions {exp_idx} but the object '
                f'{"is the ideal fallback" if ideal else "uses index " + str([int(i) for i in G._index])}')
    if ideal:
        if not np.all(g == 1.):
            return (f'ideal-fallback: {cls} model on {case["chems"]} (at most one member with groups, so the ideal object) returns '
                    f'{np.asarray(g).tolist()} instead of ones (a returned array that an earlier caller rewrote in place is handed out again?)')
        return reuse_buffer_check(G, cls, case['chems'], [x0, np.roll(x0, 1)], T)
    idx = [int(i) for i in G._index]
    snap = state_snapshot(G)
    if np.all(x0 >= 0) and x0.sum() > 0 and not np.all(np.isfinite(g)):
        return (f'non-finite: {cls} model on {case["chems"]} at x={x0.tolist()}, T={T}: coefficients {g.tolist()} '
                f'(members without group data and an empty sub-composition must give ones)')
    # 2. no group data => exactly one
    for i in range(n):
        if i not in idx and g[i] != 1.:
            return f'no-group: {case["chems"][i]} has no {cls} groups but gamma = {g[i]!r}'
    # 3. .f equals __call__
    xf = x0.copy()
    if float(np.sum(xf[idx])) != 0.:
        gf = np.asarray(G.f(xf, T, *G.args), float)
        if not close(gf, g, 1e-12): return f'f-differs: {cls} Gamma.f gives {gf.tolist()} but Gamma(x, T) gives {g.tolist()}'
    # 3a. the functional form on the caller's own array type (int unit vectors, float32 storage)
    msg = native_dtype_check(G, cls, case['chems'], real_x(case), T)
    if msg: return msg
    # the remaining clauses are stated on the simplex (x >= 0, sum 1)
    if np.any(x0 < 0) or x0.sum() == 0: return None
    xs = x0 / x0.sum()
    if float(np.sum(xs[idx])) == 0.: return None
    # 3b. no hidden state: one buffer rewritten in place between calls at the same T
    comps = [xs, np.roll(xs, 1), (xs + np.roll(xs, 1)) / 2, xs]
    comps = [c for c in comps if float(np.sum(c[idx])) != 0.]
    msg = reuse_buffer_check(G, cls, case['chems'], comps, T)
    if msg: return msg
    # 3c. the object form (activity_coefficients) and what it leaves behind
    msg = object_form_check(G, cls, case['chems'], xs, T)
    if msg: return msg
    # 4. pure limit: gamma_i -> 1 as x_i -> 1 (object, and functional form on an integer unit vector)
    for i in idx:
        v = np.zeros(n); v[i] = 1.
        gi = safe_eval(G, v, T)
        if not abs(gi[i] - 1.) <= 1e-9:
            return f'pure-limit: {cls} model on {case["chems"]}: gamma of {case["chems"][i]} at x_i = 1 is {gi[i]!r}'
        vi = np.zeros(n, dtype=int); vi[i] = 1
        try:
            gf = np.asarray(G.f(vi, T, *G.args), float)
        except Exception as ex:
            return (f'pure-limit: {cls} model on {case["chems"]}: the functional form cannot be evaluated on the integer unit vector '
                    f'e_{i} ({type(ex).__name__}; numba cannot type the kernel for an int array?) while the object gives {gi.tolist()}')
        if not abs(gf[i] - 1.) <= 1e-9 or not close(gf, gi, 1e-12):
            return (f'pure-limit: {cls} model on {case["chems"]}: functional form on the integer unit vector e_{i} gives {gf.tolist()} '
                    f'(object: {gi.tolist()})')
    # 5. position independence: all (n <= 4) or a few permutations of the chemical list
    g_s = safe_eval(G, xs.copy(), T)
    perms = list(itertools.permutations(range(n))) if n <= 4 else [tuple(reversed(range(n))), tuple(list(range(1, n)) + [0])]
    for p in perms[1:]:
        c2 = dict(case, chems=[case['chems'][i] for i in p])
        G2 = build(c2)
        g2 = safe_eval(G2, np.array([xs[i] for i in p]), T)
        if not close(g2, [g_s[i] for i in p], 1e-9):
            return f'permutation: {cls} model on {case["chems"]} permuted by {p}: {g2.tolist()} vs {[g_s[i] for i in p]}'
    # 6. Gibbs-Duhem at constant T: sum_i x_i dln(gamma_i)/dx_j, differentiated along directions inside the simplex
    sub = [i for i in idx if xs[i] > 1e-3]
    if len(sub) >= 2 and np.all(g_s > 0) and all(xs[i] > 0 for i in idx):
        h = 1e-5
        for a, b in itertools.combinations(sub, 2):
            d = np.zeros(n); d[a] = 1.; d[b] = -1.
            hh = h * min(1., xs[a], xs[b])
            lp = np.log(safe_eval(G, xs + hh * d, T)); lm = np.log(safe_eval(G, xs - hh * d, T))
            dl = (lp - lm) / (2 * hh)
            gd = float(np.dot(xs, dl))
            scale = float(np.dot(xs, np.abs(dl))) + 1e-12
            if abs(gd) > 1e-5 * max(1., scale):
                return (f'gibbs-duhem: {cls} model on {case["chems"]} at x={xs.tolist()}, T={T}: sum x_i dln(gamma_i) along '
                        f'e_{a}-e_{b} = {gd:.3e} (scale {scale:.3e})')
    return state_changed(G, snap, cls, case['chems'], 'evaluating the model')

def finding_key(case, msg):
    return 'C16:' + msg.split(':')[0] + ':' + str(case.get('cls', case['kind']))

CORPUS = [
    # original UNIFAC class, caller's float64 array (DESIGN section 5 item 20)
    {'kind': 'wrap', 'cls': 'UNIFAC', 'chems': ['Water', 'Ethanol', 'O2', 'Hexane'], 'x': [0.5, 0.25, 0.125, 0.125], 'T': 350.,
     'xkind': 'f64', 'si': [[0, '3/1', '2/1'], [0, '-1/1', '3/1'], [0, '1/1', '2/1']], 'quant': 64},
    # zero on every group-bearing chemical (pure O2 in a Water/Ethanol/O2 system)
    {'kind': 'wrap', 'cls': 'Dortmund', 'chems': ['Water', 'Ethanol', 'O2'], 'x': [0., 0., 1.], 'T': 350.,
     'xkind': 'f64', 'si': [[0, '3/1', '2/1'], [0, '-1/1', '3/1'], [0, '1/1', '2/1']], 'quant': 64},
    # doctest points
    {'kind': 'wrap', 'cls': 'Dortmund', 'chems': ['Water', 'Ethanol'], 'x': [0.5, 0.5], 'T': 350.,
     'xkind': 'list', 'si': [[1, '3/1', '2/1'], [0, '-1/1', '3/1'], [0, '1/1', '2/1']], 'quant': 2 ** 20},
    {'kind': 'wrap', 'cls': 'NIST', 'chems': ['Water', 'Ethanol'], 'x': [0.5, 0.5], 'T': 350.,
     'xkind': 'list', 'si': [[0, '3/1', '2/1'], [0, '-1/1', '3/1'], [2, '1/1', '2/1']], 'quant': 2 ** 20},
]
WITNESSES = []
