"""C15 -- liquid-liquid and solid-liquid splits: equilibrium, labelling and cache rules.
Correspondence harness (stubbed solvers, exact histories), kernel comparison with rational stand-ins,
and the direct oracle on the real objects."""
import os, sys, math, importlib.util
import numpy as np
from fractions import Fraction as F
from vf import q, qlist, clist, cbool, cnat, copt, frac, fr_json, TranslatorError, VERIF, REPO

ID = 'C15'
COQ_DIR = 'C15'
COQ_HEADER = 'From V Require Import Common.Num C15.Model.\nOpen Scope Q_scope.'
CASE_TIMEOUT = 120
RULE = ('(1) lle: histories of 2-6 operations (LLE call with T/P/top_chemical/update/use_cache/single_loop, change of the liquid '
        'flows, reset_cache) on one MultiStream of 5 stub chemicals (4 LLE-capable, dyadic MW) with LLE.solve_lle_liquid_mol and '
        'flexsolve inside phase_fraction replaced by table-driven stubs; after every operation the flows of l/L/g, T, P, the stored '
        'K/phi/T/z/chemicals, whether the cache was used, the arguments the solver received, the return value or exception class '
        'are compared with the Coq model (values 1e-9 relative, structure exactly); (2) kern: psuedo_equilibrium_inner_loop.py_func, '
        'pseudo_equilibrium_outer_loop, pseudo_equilibrium and solve_lle_liquid_mol with np.exp/np.log, the activity-coefficient '
        'function and flexsolve replaced by seeded rational stand-ins, compared with the generated/hand-written kernels; '
        '(3) sle: histories of 1-4 SLE calls (solute, T, given or computed solubility) with solubility_eutectic/flexsolve stubbed. '
        'non-trivial = at least one call took the main branch (two or more LLE chemicals / a solute present) and changed the '
        'flows or the stored state; distinct = distinct case hash')
ASSUMPTIONS = [
    'scipy.optimize.shgo / differential_evolution return a point inside the bounds passed (their documented contract); '
    'stationarity of the Gibbs objective at that point is not proved, it is measured by oracle() on every run',
    'flexsolve.aitken / fixed_point / IQ_interpolation / find_bracket are oracles: arbitrary return values; the equal-activity theorem '
    'is about exact fixed points of the iteration maps',
    'activity coefficients (thermo.Gamma), chemicals.solubility_eutectic, Cn.l, Cn.s, Tm, Hfus are oracles (arbitrary functions/values)',
    'float rounding, inf/nan are not modelled (a zero divisor is Err in the model; numba-compiled kernels give inf/nan there, '
    'their .py_func raises)',
    'SLE with H given (energy-balance path through mixture.xsolve_T_at_HP) is not modelled',
]
TRUSTED = ['coq/C15/Model.v is hand-written from lle.py / sle.py / binary_phase_fraction.py / cache.py; tie = correspondence check',
           'tr/C15_kernels.py translates psuedo_equilibrium_inner_loop, compute_phase_fraction_2N, the use_cache expression and '
           'SLE._update_solubility from the source text on every run (fails closed)']

# ------------------------------------------------------------------ translator
def translate():
    spec = importlib.util.spec_from_file_location('C15_kernels', os.path.join(VERIF, 'tr', 'C15_kernels.py'))
    mod = importlib.util.module_from_spec(spec)
    spec.loader.exec_module(mod)
    try:
        return mod.translate(REPO, os.path.join(VERIF, 'coq', 'C15', 'Gen_kernels.v'))
    except mod.TranslatorError as e:
        raise TranslatorError(str(e))

# ------------------------------------------------------------------ environments
_env = {}
IDS = ['A_', 'B_', 'C_', 'D_', 'E_']
MW = [16., 32., 8., 64., 4.]
LLE_INDEX = [0, 1, 2, 4]          # D_ has no groups: not an LLE chemical

def env():
    if not _env:
        import thermosteam as tmo
        cs = []
        for n, mw in zip(IDS, MW):
            c = tmo.Chemical(n, search_db=False, MW=mw, Hf=0., Cn=64., phase='l', default=True)
            if n != 'D_':
                c.UNIFAC.set_group_counts_by_name({'CH3': 1})
                c.Dortmund.set_group_counts_by_name({'CH3': 1})
            cs.append(c)
        chems = tmo.Chemicals(cs)
        thermo = tmo.Thermo(chems)
        _env['tmo'] = tmo
        _env['thermo_lle'] = thermo
        assert list(thermo.chemicals._lle_index) == LLE_INDEX
        from thermosteam.equilibrium import lle as lle_mod, binary_phase_fraction as bpf, sle as sle_mod
        from thermosteam.equilibrium.activity_coefficients import ActivityCoefficients, IdealActivityCoefficients
        _env['lle_mod'] = lle_mod; _env['bpf'] = bpf; _env['sle_mod'] = sle_mod
        class StubGamma(ActivityCoefficients):
            """affine stand-in: gamma(x) = a + B x over the chemicals it was created for"""
            __slots__ = ('f', 'args', 'idx')
            coef = {'a': [1.] * 5, 'B': [[0.] * 5 for _ in range(5)], 'ids': IDS}
            def __init__(self, chemicals):
                self._chemicals = tuple(chemicals)
                ids = StubGamma.coef['ids']
                self.idx = idx = [ids.index(c.ID) for c in chemicals]
                a = np.array([StubGamma.coef['a'][i] for i in idx])
                B = np.array([[StubGamma.coef['B'][i][j] for j in idx] for i in idx]).reshape(len(idx), len(idx))
                self.f = gamma_f; self.args = (a, B)
            def __call__(self, x, T):
                return gamma_f(np.asarray(x, float), T, *self.args)
        _env['StubGamma'] = StubGamma
        _env['thermo_kern'] = tmo.Thermo(chems, Gamma=StubGamma)
        cs2 = []
        for n, mw, tm, hf, grp in SLE_CHEMS:
            c = tmo.Chemical(n, search_db=False, MW=mw, Tm=tm, Hfus=hf, default=True)
            c.Cn.l.add_model(CPL, top_priority=True); c.Cn.s.add_model(CPS, top_priority=True)
            if hf is None: c._Hfus = None
            if grp:
                c.UNIFAC.set_group_counts_by_name({'CH3': 1}); c.Dortmund.set_group_counts_by_name({'CH3': 1})
            cs2.append(c)
        chems2 = tmo.Chemicals(cs2)
        _env['thermo_sle'] = tmo.Thermo(chems2, Gamma=StubGamma, skip_checks=True)
        _env['thermo_sle_ideal'] = tmo.Thermo(chems2, Gamma=IdealActivityCoefficients, skip_checks=True)
        assert list(chems2._lle_index) == SLE_LLE_INDEX
    return _env

def gamma_f(x, T, a, B):
    return a + B @ x

SLE_IDS = ['P_', 'Q_', 'R_', 'S_']
SLE_CHEMS = [('P_', 16., 320., 8192., True), ('Q_', 32., 256., 4096., True), ('R_', 8., None, None, True), ('S_', 64., 384., 2048., False)]
SLE_LLE_INDEX = [0, 1, 2]
CPL, CPS = 64., 32.

class FakeNp:
    """numpy with exp/log replaced by affine stand-ins (DESIGN 2.2)"""
    def __init__(self, ea, eb, la, lb):
        self.exp = lambda v: ea + eb * np.asarray(v, float)
        self.log = lambda v: la + lb * np.asarray(v, float)
    def __getattr__(self, name):
        return getattr(np, name)

class IterStub:
    """stands for flexsolve inside lle.py / sle.py: k plain iterations of the map"""
    def __init__(self, ki=1, ko=1, kf=1, inner=None):
        self.ki, self.ko, self.kf, self.inner = ki, ko, kf, inner
    def _it(self, f, x, args, k):
        for _ in range(k):
            x = f(x, *args)
        return x
    def aitken(self, f, x, *pos, args=(), **kw):
        if pos and not args and len(pos) >= 2: args = pos[1]
        return self._it(f, x, args, self.ki if f is self.inner else self.ko)
    def fixed_point(self, f, x, args=(), **kw):
        return self._it(f, x, args, self.kf)

def use_thermo(name):
    e = env()
    e['tmo'].settings.set_thermo(e[name])
    return e

# ------------------------------------------------------------------ generators
TOL_T = [None, None, 0.125, 2.0 ** -10]
TOL_Z = [None, None, 2.0 ** -4, 2.0 ** -6]
FRS = [0., 0.25, 0.5, 0.75, 1., 0.125, 0.875, 2.0 ** -6, 1., 0.5, 0.25]
TOPS = [None, None, 'A_', 'B_', 'C_', 'E_', 'D_', 'Zz', '']

def gen_flows(rng, present, total_pow):
    """flows in units of 1/8 over the chemicals `present`, summing to 2**total_pow / 8 when possible (z exact)"""
    n = len(present)
    units = 2 ** total_pow
    cuts = sorted(rng.randrange(1, units) for _ in range(n - 1)) if n > 1 else []
    parts = [b - a for a, b in zip([0] + cuts, cuts + [units])]
    v = [0.] * 5
    for i, p in zip(present, parts):
        v[i] = p / 8.
    return v

def gen_fr(rng):
    r = rng.random()
    if r < 0.08: return [0.] * 5
    if r < 0.16: return [1.] * 5
    # pairwise distinct fractions: equal fractions give two liquids of identical composition, where the top-chemical
    # comparison C_L < C_l is an exact tie that float rounding decides
    fr = rng.sample([0., 0.25, 0.5, 0.75, 1., 0.125, 0.875, 2.0 ** -6], 5)
    # (fractions outside [0, 1] -- a solver answer outside the bounds it was given -- make sums such as F_mol_l cancel to
    #  exactly 0 in exact arithmetic and to 1e-17 in floats; they are outside the solver contract and are not generated)
    return fr

def gen_rr(rng):
    r = rng.random()
    if r < 0.1:
        x0 = rng.choice([0.25, 0.5, 0.75])
        return [x0, x0 + 2.0 ** -21, 0.5]
    return [0., 1., rng.choice([0.25, 0.5, 0.75, 0.375, 0.625, 0., 1., -0.25, 1.25])]

def gen_call(rng, T):
    return ['call', {'T': T, 'P': rng.choice([None, None, None, 0, 202650.]), 'top': rng.choice(TOPS),
                     'update': rng.random() < 0.85, 'use_cache': rng.random() < 0.85, 'single': rng.random() < 0.2,
                     'fr': gen_fr(rng), 'rr': gen_rr(rng)}]

def split_rows(rng, tot):
    l, L = [], []
    for x in tot:
        k = rng.choice([0, 0, 1, 2, 4])      # quarters of x in 'l'
        l.append(x * k / 4.); L.append(x - x * k / 4.)
    return l, L

def exact_boundary(case):
    """True when some cache comparison is an exact tie that float rounding of z = mol/F could flip."""
    tolT = case['tolT']; tolz = case['tolz']
    l, L = case['init']['l'], case['init']['L']
    last = None
    for op in case['ops']:
        if op[0] == 'set':
            l, L = op[1], op[2]
        elif op[0] == 'reset':
            last = None; tolT, tolz = op[1], op[2]
        else:
            tot = [F(a) + F(b) for a, b in zip(l, L)]
            idx = [i for i in LLE_INDEX if tot[i] != 0]
            Fm = sum(tot[i] for i in idx)
            if Fm != 0 and len(idx) > 1:
                z = [tot[i] / Fm for i in idx]
                pow2 = Fm.denominator & (Fm.denominator - 1) == 0 and Fm.numerator & (Fm.numerator - 1) == 0
                tz = F(1e-5) if tolz is None else F(tolz)
                if last is not None and last[0] == idx and not pow2:
                    if any(abs(a - b) == tz for a, b in zip(last[1], z)):
                        return True
                last = (idx, z)
                # flows after the call are unknown here; the next call follows a 'set' or sees the same totals
                l, L = [float(x) for x in tot], [0.] * 5
    return False

def substitute(rng, cur):
    """the LLE chemicals present are replaced, flow for flow in index order, by another set of LLE chemicals of the same
    size: the normalised composition vector is numerically identical but refers to other chemicals.  None if impossible."""
    old = [i for i in LLE_INDEX if cur[i] != 0]
    if not 0 < len(old) < len(LLE_INDEX):
        return None
    choices = []
    for _ in range(6):
        new = sorted(rng.sample(LLE_INDEX, len(old)))
        if new != old: choices.append(new)
    if not choices:
        return None
    new = choices[0]
    out = list(cur)
    for i in old: out[i] = 0.
    for i, j in zip(old, new): out[j] = cur[i]
    return out

def gen_lle_case(rng):
    present = sorted(rng.sample(range(5), rng.choice([2, 3, 3, 4, 5])))
    if rng.random() < 0.06:
        present = [rng.choice([0, 1, 2, 4])] + ([3] if rng.random() < 0.5 else [])
    total_pow = rng.choice([3, 4, 5, 5, 6])
    exactz = rng.random() < 0.75
    def flows():
        if exactz and len(present) >= 1 and 2 ** total_pow > len(present):
            return gen_flows(rng, present, total_pow)
        v = [0.] * 5
        for i in present: v[i] = rng.choice([0.5, 1., 1.5, 2., 3., 5., 0.25, 7.])
        return v
    tot = flows()
    l, L = split_rows(rng, tot)
    g = [rng.choice([0., 0., 1., 0.5]) for _ in range(5)]
    case = {'kind': 'lle', 'tolT': rng.choice(TOL_T), 'tolz': rng.choice(TOL_Z), 'init': {'l': l, 'L': L, 'g': g}, 'ops': []}
    T = rng.choice([300., 310., 285., 355., 298.15, 320.5])
    case['ops'].append(gen_call(rng, T))
    cur = list(tot)
    visited = [(T, list(cur))]
    for _ in range(rng.randint(1, 4)):
        r = rng.random()
        # how the next call differs from the previous one
        if r < 0.12:
            pass                                            # identical feed and T
        elif r < 0.17 and substitute(rng, cur) is not None:  # other chemicals, numerically the same composition vector
            cur = substitute(rng, cur)
            nl, nL = split_rows(rng, cur)
            case['ops'].append(['set', nl, nL])
        elif r < 0.2:                                       # back to an earlier (T, feed) of this history
            T, cur = rng.choice(visited); cur = list(cur)
            nl, nL = split_rows(rng, cur)
            case['ops'].append(['set', nl, nL])
        elif r < 0.45:                                      # other temperature (colder / hotter, inside / outside the tolerance)
            T = T + rng.choice([-25., 25., -1., 1., -0.125, 0.125, -2.0 ** -10, 2.0 ** -10, -2.0 ** -12, 2.0 ** -12, -0.0625, 0.0625])
        elif r < 0.75:                                      # other composition: move d units from one chemical to another
            nz = [i for i in range(5) if cur[i] > 0]
            if len(nz) >= 2:
                a, b = rng.sample(nz, 2)
                d = rng.choice([0.125, 0.25, 0.5, 1., 2.0 ** -9])
                d = min(d, cur[a]) if rng.random() < 0.3 else (d if cur[a] > d else cur[a] / 2)
                cur = list(cur); cur[a] -= d; cur[b] += d
            nl, nL = split_rows(rng, cur)
            case['ops'].append(['set', nl, nL])
        elif r < 0.85:                                      # scaled feed
            k = rng.choice([2., 0.5, 8., 2.0 ** -10, 1024.])
            cur = [x * k for x in cur]
            nl, nL = split_rows(rng, cur)
            case['ops'].append(['set', nl, nL])
        elif r < 0.92:                                      # a chemical appears / disappears
            i = rng.randrange(5)
            cur = list(cur); cur[i] = 0. if cur[i] else rng.choice([0.5, 1., 2.])
            nl, nL = split_rows(rng, cur)
            case['ops'].append(['set', nl, nL])
        else:
            case['ops'].append(['reset', rng.choice(TOL_T), rng.choice(TOL_Z)])
        if rng.random() < 0.5 and r >= 0.45:
            T = T + rng.choice([-25., 25., -0.125, 0.125, 2.0 ** -12])
        case['ops'].append(gen_call(rng, T))
        visited.append((T, list(cur)))
    return case

def gen_lle_revisit_case(rng):
    """solve at (T1, feed 1); one or two calls elsewhere (other T and/or other feed), each possibly a K-value query
    (update=False) or a call with reuse forbidden; then the call at exactly (T1, feed 1) again with reuse allowed.
    What is remembered must by then belong to the call just before, never to the first one."""
    present = sorted(rng.sample([0, 1, 2, 4], rng.choice([2, 3, 4])) + ([3] if rng.random() < 0.3 else []))
    f1 = gen_flows(rng, present, rng.choice([4, 5, 6]))
    l, L = split_rows(rng, f1)
    case = {'kind': 'lle', 'tolT': rng.choice(TOL_T), 'tolz': rng.choice(TOL_Z),
            'init': {'l': l, 'L': L, 'g': [rng.choice([0., 1.]) for _ in range(5)]}, 'ops': []}
    T1 = rng.choice([300., 310., 285., 355., 320.5])
    first = gen_call(rng, T1); first[1]['update'] = True
    case['ops'].append(first)
    for _ in range(rng.choice([1, 1, 2])):
        T2, f2 = T1, list(f1)
        how = rng.choice(['T', 'T', 'z', 'both', 'chems'])
        if how == 'chems' and substitute(rng, f2) is not None:
            f2 = substitute(rng, f2)
        if how in ('T', 'both'):
            T2 = T1 + rng.choice([-25., 25., 40., -10., 1., -1., 0.25, -0.25])
        if how in ('z', 'both'):
            nz = [i for i in present if i != 3 and f2[i] > 0.25]
            others = [i for i in present if i != 3]
            if nz and len(others) >= 2:
                a = rng.choice(nz); b = rng.choice([i for i in others if i != a])
                d = rng.choice([0.125, 0.25]); f2[a] -= d; f2[b] += d
        nl, nL = split_rows(rng, f2)
        case['ops'].append(['set', nl, nL])
        mid = gen_call(rng, T2)
        mid[1]['update'] = rng.random() < 0.4
        mid[1]['use_cache'] = rng.random() < 0.7
        case['ops'].append(mid)
    if rng.random() < 0.25 and substitute(rng, f1) is not None:
        f1 = substitute(rng, f1)                           # same T, same vector, other chemicals
    nl, nL = split_rows(rng, f1)
    case['ops'].append(['set', nl, nL])
    last = gen_call(rng, T1); last[1]['use_cache'] = True; last[1]['update'] = True
    case['ops'].append(last)
    return case

DY = [0.5, 1., 1.5, 2., 0.25, 0.75, 3., 0.125]

def gen_gamma(rng, n=5):
    a = [rng.choice([1., 0.5, 2., 1.5]) for _ in range(n)]
    B = [[rng.choice([0., 0.5, 1., 2., 0.25, 4.]) for _ in range(n)] for _ in range(n)]
    return a, B

def gen_std(rng):
    return [rng.choice([1., 0.5, 0.]), rng.choice([1., 0.5, 2.]), rng.choice([0., -1., 0.5]), rng.choice([1., 0.5, 2.])]

def gen_z(rng, n):
    cuts = sorted(rng.sample(range(1, 16), n - 1))
    return [(b - a) / 16. for a, b in zip([0] + cuts, cuts + [16])]

def gen_inner_case(rng):
    n = rng.choice([2, 2, 3, 4])
    a, B = gen_gamma(rng, n)
    v = [rng.choice([0., 0.5, 1., -0.5, 2., -1.]) for _ in range(n)] + [rng.choice([1., 2., 0.5, 1.5, 4.]) for _ in range(n)]
    z = gen_z(rng, n)
    phi = rng.choice([0.5, 0.25, 0.75, 0., 1., 0.125])
    r = rng.random()
    if r < 0.06: z = z + [0.25]                      # shape mismatch
    elif r < 0.12: v[n + rng.randrange(n)] = 0.      # zero gamma_y
    elif r < 0.16: v = v + [1.]                      # longer gamma block
    return {'kind': 'inner', 'n': n, 'v': v, 'z': z, 'phi': phi, 'ga': a, 'gB': B, 'std': gen_std(rng)}

def gen_solve_case(rng):
    n = rng.choice([2, 2, 3, 4])
    a, B = gen_gamma(rng, 5)
    while True:
        z = gen_z(rng, n)
        idx = LLE_INDEX[:n]
        masses = [z[k] * MW[idx[k]] for k in range(n)]
        if len(set(masses)) == n: break
    method = rng.choice(['pseudo equilibrium'] * 5 + ['shgo', 'shgo', 'differential evolution', 'bogus'])
    K0 = phi0 = None
    if rng.random() < 0.5:
        K0 = [rng.choice([0.5, 2., 4., 0.25, 1., 8., 0.125]) for _ in range(n)]
        phi0 = rng.choice([0.5, 0.25, 0.75, 0., 1., None]) if rng.random() < 0.9 else None
    ki, ko, kf = rng.choice([0, 1, 1, 2]), rng.choice([0, 1, 1, 2]), rng.choice([0, 1, 2])
    if K0 is None or phi0 is None or not 0 < phi0 < 1:
        # default initial guess (0.99 / 1e-3 doubles): exact rationals get very large under iteration; the loops are
        # exercised from dyadic K0 instead
        ki, kf = 0, 0
    return {'kind': 'solve', 'n': n, 'z': z, 'method': method, 'K0': K0, 'phi0': phi0, 'single': rng.random() < 0.3,
            'ga': a, 'gB': B, 'std': gen_std(rng), 'ki': ki, 'ko': ko,
            'kf': kf, 'rr': gen_rr(rng),
            'shgo': [rng.random() < 0.7, [rng.choice([0., 0.25, 0.5, 1.]) * x for x in z] if rng.random() < 0.8 else [0.] * n],
            'de': [rng.choice([0., 0.25, 0.5]) * x for x in z]}

def gen_sle_case(rng):
    ideal = rng.random() < 0.35
    a, B = gen_gamma(rng, 4)
    def flows():
        present = sorted(rng.sample(range(4), rng.choice([1, 2, 2, 3, 4])))
        l, s = [0.] * 4, [0.] * 4
        for i in present:
            x = rng.choice(DY + [5., 10.])
            k = rng.choice([0, 1, 2, 4, 4])
            l[i] = x * k / 4.; s[i] = x - x * k / 4.
        return l, s
    l, s = flows()
    ops = []
    for _ in range(rng.randint(1, 4)):
        r = rng.random()
        if r < 0.25 and ops:
            nl, ns = flows(); ops.append(['set', nl, ns])
        elif r < 0.3 and ops:
            ops.append(['reset'])
        # 0.0 / 0 : the solute is declared insoluble (a given value that is falsy in Python)
        sol = rng.choice([None, None, None, None, 0.0625, 0.5, -0.125, 1., 0.25, 0.75, 0.875, 0.9375, 0.0, 0.0, 0])
        solute = rng.choice(['P_', 'P_', 'Q_', 'S_', 'R_', 'Zz'])
        T = rng.choice([300., 330., 250., 320., 256., 450., None])
        ops.append(['call', {'solute': solute, 'T': T, 'H': rng.choice([None] * 9 + [0.]) if T is not None else rng.choice([None, 0.]),
                             'P': rng.choice([None, None, 202650.]), 'sol': sol,
                             'e': [rng.choice([0.0625, 0.25, -0.125, 0.5, 1.5]), rng.choice([0., 0.125, -0.0625]),
                                   rng.choice([0., 2.0 ** -8, -2.0 ** -9]), rng.choice([0., 2.0 ** -14])],
                             'k': rng.choice([0, 1, 1, 2])}])
    if rng.random() < 0.3:
        # a pure-solute call first, then a mixture on the same stream (the solver object is kept by the stream)
        l, s = [0.] * 4, [0.] * 4
        j = rng.choice([0, 1]); l[j] = rng.choice([1., 2., 0.5])
        if rng.random() < 0.5: s[j] = rng.choice([0.5, 1.])
        if rng.random() < 0.6:
            # an inert chemical (S_ carries no activity-coefficient groups) in both phases: the solute is still the only
            # chemical in equilibrium, so the pure-solute rule applies and must move nothing but the solute
            l[3] = rng.choice([0., 0.75, 1.5]); s[3] = rng.choice([0.5, 2., 0.])
        nl, ns = [rng.choice([0.5, 1., 3.]) for _ in range(3)] + [0.], [0.] * 4
        ops = [['call', {'solute': SLE_IDS[j], 'T': rng.choice([300., 250., 330.]), 'H': None, 'P': None, 'sol': None,
                         'e': [0.25, 0., 0., 0.], 'k': 1}], ['set', nl, ns]] + ops
    # T None with H given is the unmodelled path: drop those calls
    ops = [o for o in ops if not (o[0] == 'call' and o[1]['T'] is None and o[1]['H'] is not None)]
    if not any(o[0] == 'call' for o in ops):
        ops.append(['call', {'solute': 'P_', 'T': 300., 'H': None, 'P': None, 'sol': None, 'e': [0.25, 0., 0., 0.], 'k': 1}])
    return {'kind': 'sle', 'ideal': ideal, 'act': rng.choice([None, None, 2., 0.5, 0.0]), 'l': l, 's': s, 'ga': a, 'gB': B, 'ops': ops}

def gen_gcache_case(rng):
    """a history of thermo.Gamma(chemicals) requests: the same chemicals listed in different orders, sub-lists, repeats,
    lists with fewer than two chemicals that carry groups (D_ has none)"""
    reqs = []
    base = rng.sample(range(5), rng.choice([2, 3, 4]))
    for _ in range(rng.randint(2, 6)):
        r = rng.random()
        if r < 0.35 and reqs:
            q_ = list(rng.choice(reqs)); rng.shuffle(q_)            # same set, another order
        elif r < 0.5 and reqs:
            q_ = list(rng.choice(reqs))                             # identical request
        elif r < 0.7:
            q_ = list(base); rng.shuffle(q_)
        elif r < 0.85:
            q_ = rng.sample(range(5), rng.choice([1, 2, 3]))
        else:
            q_ = [3, rng.choice([0, 1, 2, 4])]; rng.shuffle(q_)     # one chemical with groups only
        reqs.append(q_)
    return {'kind': 'gcache', 'reqs': reqs}

def gen_cases(rng, tier):
    n = 150 if tier == 'quick' else 2500
    cases = []
    while len(cases) < n:
        c = gen_lle_revisit_case(rng) if len(cases) % 5 == 4 else gen_lle_case(rng)
        if exact_boundary(c):
            continue
        cases.append(c)
    m = 60 if tier == 'quick' else 800
    cases += [gen_inner_case(rng) for _ in range(m)]
    cases += [gen_solve_case(rng) for _ in range(m)]
    cases += [gen_sle_case(rng) for _ in range(m + m // 2)]
    cases += [gen_gcache_case(rng) for _ in range(20 if tier == 'quick' else 300)]
    return cases

# ------------------------------------------------------------------ implementation side: LLE wrapper with stubbed solvers
class FlxStub:
    """stands for flexsolve inside binary_phase_fraction: table-driven answers"""
    def __init__(self):
        self.rr = [0., 1., 0.5]
    def find_bracket(self, f, x0, x1, y0, y1, args=(), **kw):
        return self.rr[0], self.rr[1], y0, y1
    def IQ_interpolation(self, f, x0, x1, y0, y1, *a, **kw):
        return self.rr[2]

EXC = {'ZeroDivisionError': 'EZeroDiv', 'FloatingPointError': 'EZeroDiv', 'ValueError': 'EValue', 'TypeError': 'EType',
       'KeyError': 'EKey', 'IndexError': 'EIndex', 'RuntimeError': 'ERuntime', 'UndefinedChemicalAlias': 'EKey',
       'AttributeError': 'EOther'}

def fl(xs):
    return [fr_json(frac(x)) for x in np.asarray(xs, float).reshape(-1)]

def chem_idx(chems):
    return None if chems is None else [IDS.index(c.ID) for c in chems]

def lle_snapshot(s, lle):
    K = lle._K; phi = lle._phi
    out = {'l': fl(s.imol['l'].to_array()), 'L': fl(s.imol['L'].to_array()), 'g': fl(s.imol['g'].to_array()),
           'T': fr_json(frac(s.T)), 'P': fr_json(frac(s.P)),
           'K': None if K is None else fl(K), 'phi': None if phi is None else fr_json(frac(phi)),
           'chems': chem_idx(lle._lle_chemicals)}
    if lle._lle_chemicals is not None:
        out['sT'] = fr_json(frac(lle._T)); out['sz'] = fl(lle._z_mol)
    return out

def run_lle(case):
    e = use_thermo('thermo_lle'); tmo = e['tmo']; lle_mod = e['lle_mod']; bpf = e['bpf']
    init = case['init']
    s = tmo.MultiStream(None, T=298.15, P=101325., phases='lLg')
    s.imol['l'] = np.array(init['l']); s.imol['L'] = np.array(init['L']); s.imol['g'] = np.array(init['g'])
    cur = {}
    def solver(self, mol, T, lle_chemicals, single_loop):
        cur['sin'] = {'K': None if self._K is None else fl(self._K), 'phi': None if self._phi is None else fr_json(frac(self._phi)),
                      'z': fl(mol), 'T': fr_json(frac(T)), 'idx': chem_idx(lle_chemicals), 'single': bool(single_loop)}
        idx = chem_idx(lle_chemicals)
        return np.asarray(mol, float) * np.array([cur['fr'][i] for i in idx])
    stub = FlxStub()
    real_solver = lle_mod.LLE.solve_lle_liquid_mol; real_flx = bpf.flx
    lle_mod.LLE.solve_lle_liquid_mol = solver; bpf.flx = stub
    obs = []
    try:
        lle = s.lle
        def set_tol(tT, tz):
            if tT is not None: s.lle.temperature_cache_tolerance = tT
            if tz is not None: s.lle.composition_cache_tolerance = tz
        set_tol(case['tolT'], case['tolz'])
        for op in case['ops']:
            tr = None
            if op[0] == 'set':
                s.imol['l'] = np.array(op[1]); s.imol['L'] = np.array(op[2])
            elif op[0] == 'reset':
                s.reset_cache(); set_tol(op[1], op[2])
            else:
                a = op[1]
                cur.pop('sin', None); cur['fr'] = a['fr']; stub.rr = a['rr']
                same_obj = s.lle is s.lle
                try:
                    r = s.lle(T=a['T'], P=a['P'], top_chemical=a['top'], update=a['update'], use_cache=a['use_cache'],
                              single_loop=a['single'])
                    if r is None: ret = ['none']
                    else: ret = ['triple', chem_idx(r[0]), fl(r[1]), fr_json(frac(r[2]))]
                except Exception as ex:
                    ret = ['err', EXC.get(type(ex).__name__, 'EOther'), type(ex).__name__]
                tr = {'ret': ret, 'sin': cur.get('sin'), 'same_obj': same_obj}
            o = lle_snapshot(s, s.lle)
            o['trace'] = tr
            obs.append(o)
    finally:
        lle_mod.LLE.solve_lle_liquid_mol = real_solver; bpf.flx = real_flx
    return {'obs': obs}

def res_vec(fn):
    try:
        return ['ok', fl(fn())]
    except Exception as ex:
        return ['err', EXC.get(type(ex).__name__, 'EOther'), type(ex).__name__]

def run_inner(case):
    e = use_thermo('thermo_kern'); lle_mod = e['lle_mod']
    a = np.array(case['ga']); B = np.array(case['gB'])
    real_np = lle_mod.np
    lle_mod.np = FakeNp(*case['std'])
    try:
        f = lle_mod.psuedo_equilibrium_inner_loop.py_func
        return {'r': res_vec(lambda: f(np.array(case['v']), np.array(case['z']), 300., case['n'], gamma_f, (a, B), case['phi']))}
    finally:
        lle_mod.np = real_np

def run_solve(case):
    e = use_thermo('thermo_kern'); tmo = e['tmo']; lle_mod = e['lle_mod']; bpf = e['bpf']
    n = case['n']; idx = LLE_INDEX[:n]
    e['StubGamma'].coef = {'a': case['ga'], 'B': case['gB'], 'ids': IDS}
    s = tmo.MultiStream(None, T=298.15, P=101325., phases='lLg')
    lle = s.lle
    lle.method = case['method']
    lle._K = None if case['K0'] is None else np.array(case['K0'])
    lle._phi = case['phi0']
    chems = [tmo.settings.chemicals.tuple[i] for i in idx]
    seen = {}
    class Res:
        def __init__(self, ok, x): self.success = ok; self.x = np.array(x)
    def shgo(f, bounds, args, options=None):
        seen['ub_shgo'] = fl(bounds[:, 1]); assert (bounds[:, 0] == 0).all()
        return Res(*case['shgo'])
    def de(f, bounds, args, **kw):
        seen['ub_de'] = fl(bounds[:, 1]); assert (bounds[:, 0] == 0).all()
        return Res(True, case['de'])
    saved = (lle_mod.np, lle_mod.flx, lle_mod.psuedo_equilibrium_inner_loop, lle_mod.shgo, lle_mod.differential_evolution, bpf.flx)
    inner = lle_mod.psuedo_equilibrium_inner_loop.py_func
    stub = FlxStub(); stub.rr = case['rr']
    lle_mod.np = FakeNp(*case['std']); lle_mod.flx = IterStub(case['ki'], case['ko'], case['kf'], inner)
    lle_mod.psuedo_equilibrium_inner_loop = inner; lle_mod.shgo = shgo; lle_mod.differential_evolution = de; bpf.flx = stub
    try:
        r = res_vec(lambda: lle.solve_lle_liquid_mol(np.array(case['z']), 300., chems, case['single']))
    finally:
        (lle_mod.np, lle_mod.flx, lle_mod.psuedo_equilibrium_inner_loop, lle_mod.shgo, lle_mod.differential_evolution, bpf.flx) = saved
    return {'r': r, 'seen': seen}

def sle_snapshot(s, sle):
    ix = sle._index
    return {'l': fl(s.imol['l'].to_array()), 's': fl(s.imol['s'].to_array()), 'T': fr_json(frac(s.T)), 'P': fr_json(frac(s.P)),
            'index': 'all' if isinstance(ix, slice) else [int(i) for i in ix],
            'chemical': None if sle._chemical is None else SLE_IDS.index(sle._chemical.ID),
            'nonzero': None if sle._nonzero is None else sorted(int(i) for i in sle._nonzero)}

def run_sle(case):
    e = use_thermo('thermo_sle_ideal' if case['ideal'] else 'thermo_sle'); tmo = e['tmo']; sle_mod = e['sle_mod']
    e['StubGamma'].coef = {'a': case['ga'], 'B': case['gB'], 'ids': SLE_IDS}
    s = tmo.MultiStream(None, T=298.15, P=101325., phases='ls')
    s.imol['l'] = np.array(case['l']); s.imol['s'] = np.array(case['s'])
    cur = {}
    def eut(T, Tm, Hm, Cpl, Cps, g):
        c = cur['e']
        return c[0] + c[1] * g + c[2] * (T - Tm) + c[3] * (Hm + Cpl - Cps)
    saved = (sle_mod.solubility_eutectic, sle_mod.flx)
    sle_mod.solubility_eutectic = eut
    obs = []
    try:
        if case['act'] is not None: s.sle.activity_coefficient = case['act']
        for op in case['ops']:
            ret = None
            if op[0] == 'set':
                s.imol['l'] = np.array(op[1]); s.imol['s'] = np.array(op[2])
            elif op[0] == 'reset':
                s.reset_cache()
                if case['act'] is not None: s.sle.activity_coefficient = case['act']
            else:
                a = op[1]; cur['e'] = a['e']
                sle_mod.flx = IterStub(ko=a['k'])
                same = s.sle is s.sle
                try:
                    r = s.sle(a['solute'], T=a['T'], P=a['P'], H=a['H'], solubility=a['sol'])
                    ret = ['ok', same and r is None]
                except Exception as ex:
                    ret = ['err', EXC.get(type(ex).__name__, 'EOther'), type(ex).__name__]
            o = sle_snapshot(s, s.sle); o['ret'] = ret
            obs.append(o)
    finally:
        sle_mod.solubility_eutectic, sle_mod.flx = saved
    return {'obs': obs}

class fresh_gamma_cache:
    """run with the class-level caches of the activity-coefficient classes empty (restored afterwards): objects built
    inside are built for the order requested there, whatever the rest of the process asked for before"""
    def __enter__(self):
        from thermosteam.equilibrium import activity_coefficients as ac
        self.classes = [c for c in vars(ac).values() if isinstance(c, type) and isinstance(vars(c).get('_cached'), dict)]
        self.saved = [dict(c._cached) for c in self.classes]
        for c in self.classes: c._cached.clear()
        return self
    def __exit__(self, *a):
        for c, d in zip(self.classes, self.saved):
            c._cached.clear(); c._cached.update(d)

def run_gcache(case):
    e = use_thermo('thermo_lle'); tmo = e['tmo']
    chems = tmo.settings.chemicals.tuple
    Gamma = e['thermo_lle'].Gamma            # the default group-contribution class (Dortmund)
    objs, obs = [], []
    with fresh_gamma_cache():
        for r in case['reqs']:
            g = Gamma([chems[i] for i in r])
            order = [IDS.index(c.ID) for c in g.chemicals]
            if type(g).__name__ == 'IdealActivityCoefficients':
                obs.append(['ideal', order])
            else:
                k = next((n for n, o in enumerate(objs) if o is g), None)
                if k is None: objs.append(g); k = len(objs) - 1
                # the per-chemical arrays really are in the order the object reports
                rs_ok = len(g._rs) == len([i for i in order if i != 3])       # D_ carries no groups
                obs.append(['group', k, order, rs_ok])
    return {'obs': obs}

def run_impl(case):
    k = case['kind']
    if k == 'gcache': return run_gcache(case)
    if k == 'lle': return run_lle(case)
    if k == 'inner': return run_inner(case)
    if k == 'solve': return run_solve(case)
    if k == 'sle': return run_sle(case)
    if k == 'real': return {'msg': oracle(case)}
    raise ValueError(k)

# ------------------------------------------------------------------ model side
def qs(s):
    return q(F(s))
def qv(xs):
    return clist([qs(x) for x in xs])
def nlist(xs):
    return clist(xs, cnat)

ENV = f'(mkenv {qlist(MW)} {nlist(LLE_INDEX)})'
DEF_TOLT = 'c_1em3'
DEF_TOLZ = f'{q(1e-5)}'

def top_index(top):
    return IDS.index(top) if top in IDS else None

def c_args(a):
    P = a['P'] if a['P'] else None
    return (f'(mkargs {q(a["T"])} {copt(P, q)} {copt(top_index(a["top"]), cnat)} {cbool(a["update"])} '
            f'{cbool(a["use_cache"])} {cbool(a["single"])})')

def c_oracle(a):
    fr = qlist(a['fr'])
    rr = a['rr']
    return (f'(mkorc (fun i_ => vmul (iz i_) (pick {fr} (iidx i_))) (mkrr {q(rr[0])} {q(rr[1])} {q(rr[2])}))')

def c_tol(t, default):
    return default if t is None else q(t)

def c_lop(op):
    if op[0] == 'set':
        return f'(LSetFlow {qlist(op[1])} {qlist(op[2])})'
    if op[0] == 'reset':
        return f'(LReset {c_tol(op[1], DEF_TOLT)} {c_tol(op[2], DEF_TOLZ)})'
    return f'(LCall {c_args(op[1])} {c_oracle(op[1])})'

def c_sin(s):
    return (f'(mksin {copt(s["K"], qv)} {copt(s["phi"], qs)} {qv(s["z"])} {qs(s["T"])} {nlist(s["idx"])} {cbool(s["single"])})')

def c_trace(op, tr):
    if tr is None:
        return 'None'
    ret = tr['ret']
    if ret[0] == 'none': r = '(Ok RNone)'
    elif ret[0] == 'triple': r = f'(Ok (RTriple {nlist(ret[1])} {qv(ret[2])} {qs(ret[3])}))'
    else: r = f'(Err {ret[1]})'
    sin = tr['sin']
    # used_cache: the main branch was taken (K stored or an exception inside the cached branch) and the solver was not called
    return f'(Some (mktr {cbool(tr["used"])} {copt(sin, c_sin)} {r}))'

def c_obs(op, o):
    tr = o['trace']
    return (f'(mkobs {qv(o["l"])} {qv(o["L"])} {qv(o["g"])} {qs(o["T"])} {qs(o["P"])} {copt(o["K"], qv)} {copt(o["phi"], qs)} '
            f'{qs(o.get("sT", "0"))} {qv(o.get("sz", []))} {copt(o["chems"], nlist)} {c_trace(op, tr)})')

def main_branch(l, L):
    tot = [F(a) + F(b) for a, b in zip(l, L)]
    idx = [i for i in LLE_INDEX if tot[i] != 0]
    return sum(tot[i] for i in idx) != 0 and len(idx) > 1

def annotate_used(case, out):
    """used_cache is not directly observable; it is inferred: main branch taken and the solver stub was not called."""
    l, L = case['init']['l'], case['init']['L']
    prev = None
    for op, o in zip(case['ops'], out['obs']):
        if op[0] == 'set':
            l, L = op[1], op[2]
        elif op[0] == 'call':
            tr = o['trace']
            tr['used'] = bool(main_branch(l, L) and tr['sin'] is None)
        l, L = [F(x) for x in o['l']], [F(x) for x in o['L']]

def coq_lle(case, out):
    annotate_used(case, out)
    i = case['init']
    st = f'(st_init {c_tol(case["tolT"], DEF_TOLT)} {c_tol(case["tolz"], DEF_TOLZ)})'
    s0 = f'(mkstrm {qlist(i["l"])} {qlist(i["L"])} {qlist(i["g"])} {q(298.15)} {q(101325.)})'
    # float boundary: a cached call whose phase fraction is exactly 0 or 1 in exact arithmetic but 1e-16 off in floats leaves
    # a phase holding ~1e-16 of the feed (stored phi within 1e-12 of 0/1 but not equal); the history is compared up to that call
    n_ops = len(case['ops'])
    for k, o in enumerate(out['obs']):
        if o['trace'] is not None and o['trace'].get('used') and o['phi'] is not None:
            ph = F(o['phi'])
            if 0 < ph < F(1, 10 ** 12) or 1 - F(1, 10 ** 12) < ph < 1:
                n_ops = k; out['float_boundary'] = True
                break
        # a stored K entry (or a written flow) that is float noise around an exact 0 (|v| < 1e-12, v != 0, e.g. -6e-16): this
        # state still compares equal within the tolerance, but a later cached call divides by that entry (exact: inf, float:
        # -1e15) and takes another branch of the phase-fraction solver; the history is compared up to and including this call
        eps = F(1, 10 ** 12)
        noisy = [x for x in (o['K'] or []) if 0 < abs(F(x)) < eps] + [x for x in o['l'] + o['L'] if -eps < F(x) < 0]
        if noisy:
            n_ops = k + 1; out['float_boundary'] = True
            break
    ops = clist([c_lop(op) for op in case['ops'][:n_ops]])
    exp = clist([c_obs(op, o) for op, o in zip(case['ops'][:n_ops], out['obs'][:n_ops])])
    same = all(o['trace'] is None or o['trace']['same_obj'] for o in out['obs'])
    return f'(lrun_check {ENV} ({st}, {s0}) {ops} {exp} && {cbool(same)})'

def c_std(std):
    ea, eb, la, lb = std
    return f'(fun x_ => {q(ea)} + {q(eb)} * x_) (fun x_ => {q(la)} + {q(lb)} * x_)'

def c_gamma(a, B, idx=None):
    if idx is not None:
        a = [a[i] for i in idx]; B = [[B[i][j] for j in idx] for i in idx]
    return f'(gamma_aff {qlist(a)} {clist([qlist(r) for r in B])})'

def c_resvec(r):
    return f'(Ok {qv(r[1])})' if r[0] == 'ok' else f'(Err {r[1]})'

def coq_inner(case, out):
    return (f'(rv_eqb (inner_loop {c_std(case["std"])} {c_gamma(case["ga"], case["gB"])} {qlist(case["v"])} {qlist(case["z"])} '
            f'{cnat(case["n"])} {q(case["phi"])}) {c_resvec(out["r"])})')

METHODS = {'pseudo equilibrium': 'MPseudo', 'shgo': 'MShgo', 'differential evolution': 'MDE'}

def coq_solve(case, out):
    n = case['n']; idx = LLE_INDEX[:n]
    std = case['std']
    fe = f'(fun x_ => {q(std[0])} + {q(std[1])} * x_)'; fln = f'(fun x_ => {q(std[2])} + {q(std[3])} * x_)'
    seen = out['seen']
    def guard(key, val):
        # the optimiser stub answers only if it was handed the bounds the implementation handed to its stub
        if key in seen:
            return f'(fun ub_ => if vapproxb ub_ {qv(seen[key])} then {val} else BAD)'
        return f'(fun ub_ => BAD)'
    shgo = guard('ub_shgo', f'({cbool(case["shgo"][0])}, {qlist(case["shgo"][1])})').replace('BAD', '(false, [(-1)])')
    de = guard('ub_de', qlist(case['de'])).replace('BAD', '[(-1)]')
    rr = case['rr']
    o = (f'(mksorc {fe} {fln} {c_gamma(case["ga"], case["gB"], idx)} (iter_res {cnat(case["ki"])}) (iter_res {cnat(case["ko"])}) '
         f'(iter_res {cnat(case["kf"])}) (mkrr {q(rr[0])} {q(rr[1])} {q(rr[2])}) {shgo} {de})')
    return (f'(rv_eqb (solve_lle {o} {METHODS.get(case["method"], "MOther")} {qlist([MW[i] for i in idx])} {copt(case["K0"], qlist)} '
            f'{copt(case["phi0"], q)} {qlist(case["z"])} {cbool(case["single"])}) {c_resvec(out["r"])})')

SENV_FMT = ('(mksenv {idx} {tm} {hf} {cpl} {cps} {ideal})')
def c_senv(ideal):
    tm = clist([copt(c[2], q) for c in SLE_CHEMS]); hf = clist([copt(c[3], q) for c in SLE_CHEMS])
    return SENV_FMT.format(idx=nlist(SLE_LLE_INDEX), tm=tm, hf=hf, cpl=qlist([CPL] * 4), cps=qlist([CPS] * 4), ideal=cbool(ideal))

def c_sop(case, op):
    if op[0] == 'set': return f'(SSetFlow {qlist(op[1])} {qlist(op[2])})'
    if op[0] == 'reset': return f'(SReset {copt(case["act"] or None, q)})'
    a = op[1]
    solute = SLE_IDS.index(a['solute']) if a['solute'] in SLE_IDS else None
    P = a['P'] if a['P'] else None
    e = a['e']
    eut = (f'(fun u_ => {q(e[0])} + {q(e[1])} * u_gamma u_ + {q(e[2])} * (u_T u_ - u_Tm u_) + {q(e[3])} * (u_Hm u_ + u_Cpl u_ - u_Cps u_))')
    ait = f'(iter_ls {cnat(a["k"])})'
    # gamma over the chemicals of the solver's index is resolved inside the model through e_index: pass the full matrices
    return (f'(SCall (mksargs {copt(solute, cnat)} {copt(a["T"], q)} {cbool(a["H"] is not None)} {copt(P, q)} {copt(a["sol"], q)}) '
            f'(mkeorc {eut} GAMMA {ait}))')

def c_sobs(o):
    ix = 'SAll' if o['index'] == 'all' else f'(SList {nlist(o["index"])})'
    ret = 'None' if o['ret'] is None else ('(Some (Ok tt))' if o['ret'][0] == 'ok' else f'(Some (Err {o["ret"][1]}))')
    return (f'(mksobs {qv(o["l"])} {qv(o["s"])} {qs(o["T"])} {qs(o["P"])} {ix} {copt(o["chemical"], cnat)} {copt(o["nonzero"], nlist)} {ret})')

def coq_sle(case, out):
    # the stub Gamma object is built for the chemicals of _index at _setup time; the model applies oe_gamma to
    # liquid_mol[_index]; the affine stand-in restricted to that index is selected from the observed _index/_nonzero
    ops = []
    for op, o in zip(case['ops'], out['obs']):
        t = c_sop(case, op)
        if op[0] == 'call':
            nz = o['nonzero']
            gidx = [i for i in SLE_LLE_INDEX if nz is not None and i in nz]
            g = c_gamma(case['ga'], case['gB'], gidx)
            t = t.replace('GAMMA', f'(fun x_ => if Nat.eqb (length x_) {cnat(len(gidx))} then Ok ({g} x_) else Err EValue)')
        ops.append(t)
    ok = all(o['ret'] is None or o['ret'][0] != 'ok' or o['ret'][1] for o in out['obs'])
    s0 = f'(mksstrm {qlist(case["l"])} {qlist(case["s"])} {q(298.15)} {q(101325.)})'
    return (f'(srun_check {c_senv(case["ideal"])} (sst_init {copt(case["act"] or None, q)}, {s0}) {clist(ops)} '
            f'{clist([c_sobs(o) for o in out["obs"]])} && {cbool(ok)})')

def coq_gcache(case, out):
    reqs = clist([nlist(r) for r in case['reqs']])
    exp = clist([f'(GIdeal {nlist(o[1])})' if o[0] == 'ideal' else f'(GGroup {cnat(o[1])} {nlist(o[2])})' for o in out['obs']])
    ok = all(o[0] == 'ideal' or o[3] for o in out['obs'])
    return (f'(list_eqb gres_eqb (gamma_run (fun i_ => negb (Nat.eqb i_ 3)) [] {reqs}) {exp} && {cbool(ok)})')

def coq_case(case, out):
    k = case['kind']
    if k == 'gcache': return coq_gcache(case, out)
    if k == 'lle': return coq_lle(case, out)
    if k == 'inner': return coq_inner(case, out)
    if k == 'solve': return coq_solve(case, out)
    if k == 'sle': return coq_sle(case, out)
    if k == 'real': return cbool(out['msg'] is None)
    raise ValueError(k)

def coq_show(case, out):
    if case['kind'] == 'lle':
        i = case['init']
        st = f'(st_init {c_tol(case["tolT"], DEF_TOLT)} {c_tol(case["tolz"], DEF_TOLZ)})'
        s0 = f'(mkstrm {qlist(i["l"])} {qlist(i["L"])} {qlist(i["g"])} {q(298.15)} {q(101325.)})'
        return f'(lrun {ENV} ({st}, {s0}) {clist([c_lop(op) for op in case["ops"]])})'
    if case['kind'] in ('inner', 'solve'):
        t = coq_case(case, out)
        return t[len('(rv_eqb '):t.rindex(' (Ok') if ' (Ok' in t else t.rindex(' (Err')]
    return 'tt'

def nontrivial(case, out):
    if case['kind'] == 'lle':
        return any(o['trace'] is not None and o['chems'] is not None for o in out.get('obs', []))
    if case['kind'] in ('inner', 'solve'):
        return out['r'][0] == 'ok'
    if case['kind'] == 'sle':
        return any(o['ret'] is not None and o['ret'][0] == 'ok' for o in out.get('obs', []))
    if case['kind'] == 'gcache':
        return len({tuple(sorted(r)) for r in case['reqs']}) < len({tuple(r) for r in case['reqs']})   # a set seen in two orders
    return True

def classify(case, out):
    ks = ['kind:' + case['kind']]
    if out.get('float_boundary'): ks.append('lle:history-cut-at-float-boundary')
    if case['kind'] == 'lle':
        for op, o in zip(case['ops'], out.get('obs', [])):
            if op[0] != 'call':
                ks.append('op:' + op[0]); continue
            tr = o['trace']
            ks.append('call:' + ('cached' if tr.get('used') else ('solved' if tr['sin'] else 'no-split')))
            ks.append('ret:' + tr['ret'][0] + (':' + tr['ret'][2] if tr['ret'][0] == 'err' else ''))
            if op[1]['top']: ks.append('top:' + ('lle' if op[1]['top'] in ('A_', 'B_', 'C_', 'E_') else 'other'))
    elif case['kind'] in ('inner', 'solve'):
        r = out['r']
        ks.append(case['kind'] + ':' + (r[0] if r[0] == 'ok' else r[2]))
        if case['kind'] == 'solve': ks.append('method:' + case['method'] + (':single' if case['single'] else ''))
    elif case['kind'] == 'gcache':
        for o in out.get('obs', []): ks.append('gamma-request:' + o[0])
    elif case['kind'] == 'sle':
        for op, o in zip(case['ops'], out.get('obs', [])):
            if op[0] != 'call': ks.append('sle-op:' + op[0]); continue
            ks.append('sle-call:' + ('given' if op[1]['sol'] is not None else 'computed') + ':' + (o['ret'][0] if o['ret'][0] == 'ok' else o['ret'][2]))
            if o['ret'][0] == 'ok' and o['chemical'] is not None: ks.append('sle:pure-branch')
    return ks

# ------------------------------------------------------------------ direct oracle: the property itself on the real objects
def _rows(s, ids):
    return np.array(s.imol['l', ids], float), np.array(s.imol['L', ids], float)

def real_history(case, use_cache, scale=1.0):
    e = env(); tmo = e['tmo']
    tmo.settings.set_thermo(case['chems'], cache=True)
    s = tmo.MultiStream(None, T=298.15, P=101325., phases='lLg')
    s.lle.method = case['method']
    for call in case['calls']:
        T, flows = call[0], call[1]
        update = call[2] if len(call) > 2 else True          # False: a K-value query (flows are not split)
        s.imol['L'] = 0.; s.imol['l'] = 0.
        for k, v in flows.items(): s.imol['l', k] = v * scale
        s.lle(T=T, top_chemical=case.get('top'), use_cache=use_cache, update=update)
    return s

def oracle_real(case):
    e = env(); tmo = e['tmo']
    ids = case['chems']
    s = real_history(case, True)
    l, L = _rows(s, ids)
    tot = l.sum() + L.sum()
    T = case['calls'][-1][0]
    two = l.sum() > 1e-9 * tot and L.sum() > 1e-9 * tot
    # (3) with the cache vs without (up to the exchange of the two labels when no top chemical is named)
    s2 = real_history(case, False)
    l2, L2 = _rows(s2, ids)
    d = min(np.abs(l - l2).max() + np.abs(L - L2).max(), np.abs(l - L2).max() + np.abs(L - l2).max())
    if d > 1e-2 * tot:
        return (f'reusing remembered partition coefficients changes the split (history T={[c[0] for c in case["calls"]]}, '
                f'{case["method"]}): with cache l={np.round(l, 4).tolist()} L={np.round(L, 4).tolist()}, '
                f'without l={np.round(l2, 4).tolist()} L={np.round(L2, 4).tolist()}')
    # (1) equal activities in the two liquids
    if two and case.get('check_activity', True):
        with fresh_gamma_cache():       # a model built on its own for this order, not whatever the cache holds
            gamma = tmo.settings.get_thermo().Gamma([tmo.settings.chemicals[i] for i in ids])
            xl, xL = l / l.sum(), L / L.sum()
            al, aL = xl * gamma(xl, T), xL * gamma(xL, T)
        rel = np.abs(al - aL) / np.maximum(np.maximum(al, aL), 1e-12)
        if rel.max() > 0.02:
            return (f'activities differ between the two liquids after LLE ({case["method"]}) at T={T}: '
                    f'l {np.round(al, 4).tolist()} vs L {np.round(aL, 4).tolist()}')
    # (2) top chemical labelling
    top = case.get('top')
    if top and top in ids and two:
        mw = np.array([tmo.settings.chemicals[i].MW for i in ids]); k = ids.index(top)
        CL, Cl = (L * mw)[k] / (L * mw).sum(), (l * mw)[k] / (l * mw).sum()
        if CL < Cl - 1e-12: return f'top chemical {top}: mass fraction in L {CL:.6g} < in l {Cl:.6g}'
    # (4) proportional to the feed
    k = case.get('scale', 8.0)
    s3 = real_history(case, True, scale=k)
    l3, L3 = _rows(s3, ids)
    d = min(np.abs(l * k - l3).max() + np.abs(L * k - L3).max(), np.abs(l * k - L3).max() + np.abs(L * k - l3).max())
    if d > 1e-2 * tot * k:
        return f'flows not proportional to the feed under scaling by {k}: {np.round(l3 / k, 4).tolist()} vs {np.round(l, 4).tolist()}'
    return None

def oracle_sle_real(case):
    e = env(); tmo = e['tmo']
    tmo.settings.set_thermo(case['chems'], cache=True)
    s = tmo.MultiStream(None, T=298.15, P=101325., phases='ls')
    for k, v in case['l'].items(): s.imol['l', k] = v
    for k, v in case['s'].items(): s.imol['s', k] = v
    ids = case['chems']; sol = case['solute']; j = ids.index(sol)
    bl, bs = np.array(s.imol['l', ids], float), np.array(s.imol['s', ids], float)
    before = bl + bs
    s.sle(sol, T=case['T'], solubility=case.get('sol'))
    l, sd = np.array(s.imol['l', ids], float), np.array(s.imol['s', ids], float)
    for i in range(len(ids)):
        if i != j and (l[i] != bl[i] or sd[i] != bs[i]): return f'SLE moved {ids[i]} although the solute is {sol}'
    if abs(l[j] + sd[j] - before[j]) > 1e-9 * max(1, before[j]): return 'SLE does not conserve the solute'
    if l[j] < -1e-12 or l[j] > before[j] * (1 + 1e-12): return f'SLE dissolves {l[j]} of {before[j]} present'
    nz = [i for i in range(len(ids)) if before[i] != 0]
    if len(nz) == 1:
        Tm = tmo.settings.chemicals[sol].Tm
        if case['T'] > Tm and sd[j] != 0: return 'pure solute above Tm is not entirely liquid'
        if case['T'] <= Tm and l[j] != 0: return 'pure solute at or below Tm is not entirely solid'
    elif case.get('sol') is not None and case['sol'] >= 0:
        x = l[j] / l.sum()
        if x > case['sol'] * (1 + 1e-9) + 1e-12: return f'liquid mole fraction {x} exceeds the given solubility {case["sol"]}'
    return None

def sle_rules(tag, j, bl, bs, l, sd, x_given=None, basis=None):
    """the SLE clauses on one call: bl/bs flows on entry, l/sd flows on exit (sequences of numbers), j the solute.
    Returns a message or None."""
    n = len(l)
    tot = bl[j] + bs[j]
    tol = 1e-9 * max(1., abs(float(tot)))
    for i in range(n):
        if i != j and (abs(float(l[i] - bl[i])) > tol or abs(float(sd[i] - bs[i])) > tol):
            return f'sle-rules: {tag}: a chemical other than the solute moved (index {i})'
    if abs(float(l[j] + sd[j] - tot)) > tol:
        return f'sle-rules: {tag}: solute not conserved ({float(l[j] + sd[j]):.6g} vs {float(tot):.6g})'
    if float(sd[j]) < -tol or float(l[j]) < -tol or float(l[j]) > float(tot) + tol:
        return (f'sle-rules: {tag}: dissolved {float(l[j]):.6g} mol of solute but only {float(tot):.6g} is present '
                f'(solid = {float(sd[j]):.6g})')
    if x_given is not None and 0 <= x_given:
        idx = range(n) if basis is None else basis
        Fl = sum(float(l[i]) for i in idx)
        if Fl > 0 and float(l[j]) > x_given * Fl * (1 + 1e-9) + tol:
            return (f'sle-rules: {tag}: liquid mole fraction {float(l[j]) / Fl:.6g} of the solute exceeds the solubility '
                    f'{x_given} that was given / computed')
    return None

def oracle_sle_hist(case):
    """real SLE on database chemicals: after every call of a history the SLE rules hold (only the solute moves, conserved,
    0 <= dissolved <= present, never above a given solubility); a computed call made after earlier calls on the same stream
    gives what a new stream gives"""
    e = env(); tmo = e['tmo']
    tmo.settings.set_thermo(case['chems'], cache=True)
    ids = case['chems']
    def load(s, step):
        if 'l' in step or 's' in step:
            s.imol['l'] = 0.; s.imol['s'] = 0.
            for k, v in step.get('l', {}).items(): s.imol['l', k] = v
            for k, v in step.get('s', {}).items(): s.imol['s', k] = v
    s = tmo.MultiStream(None, T=298.15, P=101325., phases='ls')
    done = []
    for step in case['steps']:
        load(s, step)
        bl = np.array(s.imol['l', ids], float); bs = np.array(s.imol['s', ids], float)
        tag = f'after {done} the call sle({step["solute"]}, T={step["T"]}, solubility={step.get("sol")})'
        try:
            s.sle(step['solute'], T=step['T'], solubility=step.get('sol'))
        except Exception as ex:
            return f'sle-rules: {tag} raised {type(ex).__name__}: {ex}'
        l = np.array(s.imol['l', ids], float); sd = np.array(s.imol['s', ids], float)
        m = sle_rules(tag, ids.index(step['solute']), bl, bs, l, sd, step.get('sol'))
        if m: return m
        done.append((step['solute'], step['T'], step.get('sol')))
    last = case['steps'][-1]
    if last.get('sol') is None and len(case['steps']) > 1:
        f = tmo.MultiStream(None, T=298.15, P=101325., phases='ls')
        f.imol['l', ids] = bl; f.imol['s', ids] = bs
        f.sle(last['solute'], T=last['T'])
        a = l; b = np.array(f.imol['l', ids], float)
        if np.abs(a - b).max() > 1e-6 * max(1., np.abs(b).max()):
            return (f'sle-history: after {done[:-1]} the call {last["solute"]}, T={last["T"]} '
                    f'dissolves {np.round(a, 5).tolist()} but a new stream dissolves {np.round(b, 5).tolist()}')
    return None

def oracle_sle_stub(case):
    """stub histories (solubility_eutectic / flexsolve / Gamma replaced by stand-ins): after every successful call the SLE rules
    hold; a mixture is never treated as the pure solute of an earlier call"""
    out = run_sle(case)
    l, sd = [F(x) for x in case['l']], [F(x) for x in case['s']]
    for op, o in zip(case['ops'], out['obs']):
        if op[0] == 'set': l, sd = [F(x) for x in op[1]], [F(x) for x in op[2]]
        nl, ns = [F(x) for x in o['l']], [F(x) for x in o['s']]
        if op[0] == 'call':
            a = op[1]
            tag = f'sle({a["solute"]}, T={a["T"]}, solubility={a["sol"]}) on l={[float(x) for x in l]} s={[float(x) for x in sd]}'
            if a['solute'] in SLE_IDS:
                j = SLE_IDS.index(a['solute'])
                if o['ret'][0] == 'ok':
                    tot = [x + y for x, y in zip(l, sd)]
                    lle_present = [i for i in SLE_LLE_INDEX if tot[i] != 0]
                    if a['sol'] is None and len(lle_present) != 1 and o['chemical'] is not None:
                        return (f'sle-history: {a["solute"]} at T={a["T"]} with {len(lle_present)} chemicals in equilibrium was treated '
                                f'as the pure solute {SLE_IDS[o["chemical"]]} of an earlier call')
                    x, basis = None, None
                    if a['sol'] is not None:
                        x = a['sol']
                    elif case['ideal'] and o['chemical'] is None and j in lle_present:
                        c = SLE_CHEMS[j]; ev = a['e']; g = case['act'] or 1.
                        x = ev[0] + ev[1] * g + ev[2] * (a['T'] - c[2]) + ev[3] * (c[3] + CPL - CPS)
                        basis = lle_present if o['index'] != 'all' else None
                    m = sle_rules(tag, j, l, sd, nl, ns, x, basis)
                    if m: return m
                else:
                    # (a solute without activity-coefficient groups cannot be computed: any rejection is acceptable there)
                    if o['ret'][2] == 'AttributeError' and a['T'] is not None and a['H'] is None \
                            and (a['sol'] is not None or j in SLE_LLE_INDEX):
                        return (f'sle-rules: {tag} raised AttributeError: the result depends on whether an earlier call was made '
                                f'on this solver object')
                    # a call that raises may have written the solute entries, never anything else
                    for i in range(4):
                        if i != j and (nl[i] != l[i] or ns[i] != sd[i]):
                            return f'sle-rules: {tag} raised {o["ret"][2]} and moved chemical {i}'
                # history independence: the same computed call on a new stream holding the same flows
                if a['sol'] is None and a['T'] is not None and a['H'] is None and j in SLE_LLE_INDEX and l[j] + sd[j] != 0:
                    one = dict(case, l=[float(x) for x in l], s=[float(x) for x in sd], ops=[op])
                    o2 = run_sle(one)['obs'][0]
                    same_ret = o2['ret'][0] == o['ret'][0] and (o['ret'][0] == 'ok' or o2['ret'][1] == o['ret'][1])
                    fl2 = [F(x) for x in o2['l']] + [F(x) for x in o2['s']]
                    close = all(abs(float(x - y)) <= 1e-9 * max(1., abs(float(y))) for x, y in zip(nl + ns, fl2))
                    if not (same_ret and close):
                        return (f'sle-history: {tag} gives l={[float(x) for x in nl]} s={[float(x) for x in ns]} ({o["ret"][0:3:2]}) '
                                f'after the earlier calls of this history but l={[float(F(x)) for x in o2["l"]]} '
                                f's={[float(F(x)) for x in o2["s"]]} ({o2["ret"][0:3:2]}) on a new stream')
            elif nl != l or ns != sd:
                return f'sle-rules: {tag}: unknown solute but the flows changed'
        l, sd = nl, ns
    return None

def oracle_lle_stub(case):
    """use_cache_sound evaluated on the implementation (stubbed solver): a call that did not consult the solver must be
    within the tolerances of the previous call's T and z; top-chemical labelling of what was written."""
    out = run_lle(case)
    tolT = case['tolT']; tolz = case['tolz']
    prev = None
    l, L = case['init']['l'], case['init']['L']
    for op, o in zip(case['ops'], out['obs']):
        if op[0] == 'set':
            l, L = op[1], op[2]
        elif op[0] == 'reset':
            prev = None; tolT, tolz = op[1], op[2]
        else:
            a = op[1]
            tot = [F(x) + F(y) for x, y in zip(l, L)]
            idx = [i for i in LLE_INDEX if tot[i] != 0]
            Fm = sum(tot[i] for i in idx)
            if Fm != 0 and len(idx) > 1:
                z = [tot[i] / Fm for i in idx]
                solved = o['trace']['sin'] is not None
                if not solved:
                    tT = F(1e-3) if tolT is None else F(tolT); tz = F(1e-5) if tolz is None else F(tolz)
                    if prev is None or prev[0] != idx:
                        return (f'cache: partition coefficients remembered for chemicals {None if prev is None else [IDS[i] for i in prev[0]]} '
                                f'were reused for chemicals {[IDS[i] for i in idx]} (T={a["T"]})')
                    if abs(F(a['T']) - prev[1]) >= tT:
                        return (f'cache: call at T={a["T"]} reused the partition coefficients remembered at T={float(prev[1])} '
                                f'(tolerance {float(tT)})')
                    if any(abs(x - y) >= tz for x, y in zip(z, prev[2])):
                        return (f'cache: call at z={[float(x) for x in z]} reused the partition coefficients remembered at '
                                f'z={[float(x) for x in prev[2]]} (tolerance {float(tz)})')
                if o['trace']['ret'][0] != 'err':
                    prev = (idx, F(a['T']), z)
                    top = a['top']
                    if a['update'] and top in IDS and IDS.index(top) in idx:
                        ml = [F(x) * F(MW[i]) for i, x in enumerate(o['l'])]; mL = [F(x) * F(MW[i]) for i, x in enumerate(o['L'])]
                        sl = sum(ml[i] for i in idx); sL = sum(mL[i] for i in idx); k = IDS.index(top)
                        if sl != 0 and sL != 0 and mL[k] / sL < ml[k] / sl * (1 - F(1, 10 ** 9)):
                            return f'top chemical {top}: mass fraction in L below that in l'
                        if sL == 0 and sl != 0:
                            return f'top chemical {top}: the single liquid is labelled l'
            l, L = o['l'], o['L']
    return None

def oracle_gcache(case):
    """thermo.Gamma(chemicals) must hand out a model built for the order asked for, and its coefficients must be those of a
    model built on its own for that order"""
    out = run_gcache(case)
    e = env(); tmo = e['tmo']; chems = tmo.settings.chemicals.tuple
    for r, o in zip(case['reqs'], out['obs']):
        order = o[1] if o[0] == 'ideal' else o[2]
        if order != r:
            return (f'gamma-cache: thermo.Gamma({[IDS[i] for i in r]}) returned the model built for {[IDS[i] for i in order]} '
                    f'(requests so far: {[[IDS[i] for i in q_] for q_ in case["reqs"]]}); activity coefficients are attributed to the wrong chemicals')
    return None

def oracle_order(case):
    """the split of one feed must not depend on the order in which the property package lists its chemicals (the same
    Chemical objects, several packages in one process), and the activities -- evaluated with a model built on its own for
    that order -- must agree between the two liquids"""
    e = env(); tmo = e['tmo']
    ref = None
    for order in case['orders']:
        tmo.settings.set_thermo(order, cache=True)
        s = tmo.MultiStream(None, T=298.15, P=101325., phases='lLg')
        s.lle.method = case['method']
        for k, v in case['feed'].items(): s.imol['l', k] = v
        s.lle(T=case['T'], top_chemical=case['top'])
        ids = sorted(case['feed'])
        l = np.array(s.imol['l', ids], float); L = np.array(s.imol['L', ids], float)
        tot = l.sum() + L.sum()
        if l.sum() > 1e-9 * tot and L.sum() > 1e-9 * tot:
            with fresh_gamma_cache():
                gamma = tmo.settings.get_thermo().Gamma([tmo.settings.chemicals[i] for i in ids])
                xl, xL = l / l.sum(), L / L.sum()
                al, aL = xl * gamma(xl, case['T']), xL * gamma(xL, case['T'])
            rel = np.abs(al - aL) / np.maximum(np.maximum(al, aL), 1e-12)
            if rel.max() > 0.02:
                return (f'gamma-cache: package order {order}: activities differ between the two liquids '
                        f'({case["method"]}, T={case["T"]}): l {np.round(al, 4).tolist()} vs L {np.round(aL, 4).tolist()}')
        if ref is None: ref = (order, l, L)
        elif np.abs(l - ref[1]).max() + np.abs(L - ref[2]).max() > 1e-2 * tot:
            return (f'gamma-cache: the split depends on the order in which the package lists its chemicals: {ref[0]} gives '
                    f'L={np.round(ref[2], 4).tolist()}, {order} gives L={np.round(L, 4).tolist()} (chemicals {ids})')
    return None

def oracle(case):
    k = case['kind']
    if k == 'gcache': return oracle_gcache(case)
    if k == 'real_order': return oracle_order(case)
    if k == 'real': return oracle_real(case)
    if k == 'sle_real': return oracle_sle_real(case)
    if k == 'lle': return oracle_lle_stub(case)
    if k == 'sle_hist_real': return oracle_sle_hist(case)
    if k == 'sle': return oracle_sle_stub(case)
    return None

def finding_key(case, msg):
    if msg.startswith('activities differ') and 'pseudo equilibrium' in msg: return 'lle_inner_loop_logK'
    if msg.startswith('cache:') or msg.startswith('reusing remembered'): return 'lle_use_cache_signed_difference'
    if msg.startswith('sle-history'): return 'sle_stale_pure_chemical'
    if msg.startswith('sle-rules'): return 'sle_rules'
    if msg.startswith('gamma-cache'): return 'gamma_cache_order'
    return 'C15:' + msg.split(':')[0][:40].replace(' ', '_')

WOE = ['Water', 'Octanol', 'Ethanol']
WITNESSES = [
    {'key': 'lle_inner_loop_logK',
     'case': {'kind': 'real', 'chems': WOE, 'method': 'pseudo equilibrium', 'top': 'Octanol',
              'calls': [[300., {'Water': 30., 'Octanol': 10., 'Ethanol': 3.}]]}},
]
# Coq-side witness of C15_lle_fix_equal_activity_refuted, run through the implementation's inner loop on every run
CORPUS = [
    # pure-solute rule with an inert chemical present in both phases, above and below the melting point
    {'kind': 'sle', 'ideal': False, 'act': None, 'l': [1., 0., 0., 0.75], 's': [0.5, 0., 0., 2.], 'ga': [1.] * 4, 'gB': [[0.] * 4] * 4,
     'ops': [['call', {'solute': 'P_', 'T': 330., 'H': None, 'P': None, 'sol': None, 'e': [0.25, 0., 0., 0.], 'k': 1}],
             ['call', {'solute': 'P_', 'T': 300., 'H': None, 'P': None, 'sol': None, 'e': [0.25, 0., 0., 0.], 'k': 1}]]},
    {'kind': 'gcache', 'reqs': [[0, 1, 2], [2, 0, 1], [0, 1, 2], [1, 0], [0, 1], [3, 4], [4]]},
    # a given solubility of exactly 0 (the solute is declared insoluble) after a computed call
    {'kind': 'sle', 'ideal': True, 'act': None, 'l': [1., 0., 3., 0.], 's': [1., 0., 0., 0.], 'ga': [1.] * 4, 'gB': [[0.] * 4] * 4,
     'ops': [['call', {'solute': 'P_', 'T': 300., 'H': None, 'P': None, 'sol': None, 'e': [0.25, 0., 0., 0.], 'k': 1}],
             ['call', {'solute': 'P_', 'T': 300., 'H': None, 'P': None, 'sol': 0.0, 'e': [0.25, 0., 0., 0.], 'k': 1}],
             ['call', {'solute': 'P_', 'T': 300., 'H': None, 'P': None, 'sol': 0, 'e': [0.5, 0., 0., 0.], 'k': 0}]]},
    {'kind': 'sle', 'ideal': True, 'act': None, 'l': [1., 0., 0., 0.], 's': [0., 0., 0., 0.], 'ga': [1.] * 4, 'gB': [[0.] * 4] * 4,
     'ops': [['call', {'solute': 'P_', 'T': 300., 'H': None, 'P': None, 'sol': None, 'e': [0.25, 0., 0., 0.], 'k': 1}],
             ['set', [1., 0., 3., 0.], [0., 0., 0., 0.]],
             ['call', {'solute': 'P_', 'T': 330., 'H': None, 'P': None, 'sol': None, 'e': [0.125, 0., 0., 0.], 'k': 1}]]},
    {'kind': 'inner', 'n': 2, 'v': [2., -0.5, 1., 3.], 'z': [0.4, 0.6], 'phi': 0.5, 'ga': [0., 0.], 'gB': [[0., 4.], [4., 0.]],
     'std': [1., 1., -1., 1.]},
]

def search_cases(rng, tier):
    """real solvers on database chemicals: histories with a colder / hotter / richer second call, with and without the cache"""
    cases = []
    systems = [(WOE, {'Water': 30., 'Octanol': 10., 'Ethanol': 3.}), (['Water', 'Butanol', 'Hexane'], {'Water': 20., 'Butanol': 4., 'Hexane': 10.}),
               (['Water', 'EthylAcetate', 'Ethanol'], {'Water': 20., 'EthylAcetate': 12., 'Ethanol': 2.})]
    n = 6 if tier == 'quick' else 40
    for _ in range(n):
        chems, base = rng.choice(systems)
        T0 = rng.choice([300., 320., 340., 355.])
        dT = rng.choice([-25., -15., 15., -40.])
        T1 = min(355., max(285., T0 + dT))
        f1 = dict(base)
        if rng.random() < 0.5:
            k = rng.choice(list(f1)); f1[k] = f1[k] * rng.choice([0.5, 2.])
        cases.append({'kind': 'real', 'chems': chems, 'method': 'differential evolution', 'top': rng.choice([None, chems[1]]),
                      'calls': [[T0, base], [T1, f1]], 'scale': rng.choice([1e-3, 8., 1e3])})
        # solve, K-value query (update=False) or plain call elsewhere, then the first conditions again
        cases.append({'kind': 'real', 'chems': chems, 'method': 'differential evolution', 'top': rng.choice([None, chems[1]]),
                      'calls': [[T0, base], [T1, f1, rng.random() < 0.3], [T0, base]], 'scale': rng.choice([1e-3, 8., 1e3])})
    # several packages in one process that list the same chemicals in different orders
    for chems, feed in [(['Water', 'Octanol', 'Ethanol'], {'Water': 30., 'Octanol': 10., 'Ethanol': 3.}),
                        (['Water', 'Butanol', 'Hexane'], {'Water': 20., 'Butanol': 4., 'Hexane': 10.})]:
        o2 = list(chems); rng.shuffle(o2)
        if o2 == chems: o2 = chems[::-1]
        cases.append({'kind': 'real_order', 'orders': [chems, o2, chems[::-1]], 'feed': feed, 'method': 'differential evolution',
                      'T': rng.choice([300., 340.]), 'top': chems[1]})
    # the contents of the stream are replaced, mole for mole, by other chemicals (same T, same composition vector)
    subs = [(['Water', 'Octanol', 'Hexane'], {'Water': 50., 'Octanol': 50.}, {'Water': 50., 'Hexane': 50.}),
            (['Water', 'Ethanol', 'Octanol', 'Hexane'], {'Water': 60., 'Ethanol': 10., 'Octanol': 30.}, {'Water': 60., 'Ethanol': 10., 'Hexane': 30.}),
            (['Water', 'Butanol', 'EthylAcetate'], {'Water': 40., 'Butanol': 20.}, {'Water': 40., 'EthylAcetate': 20.})]
    for chems, fa, fb in (subs if tier != 'quick' else [rng.choice(subs), rng.choice(subs)]):
        T0 = rng.choice([298.15, 310., 330.])
        cases.append({'kind': 'real', 'chems': chems, 'method': 'differential evolution', 'top': None,
                      'calls': [[T0, fa], [T0, fb]], 'scale': 8., 'check_activity': True})
    # another solute earlier on the same stream; computed / given / computed with chemicals of the package absent
    two = ['Ethanol', 'Water', 'Tetradecanol', 'Hexadecanol']
    f2 = {'Water': 2., 'Ethanol': 6., 'Tetradecanol': 5., 'Hexadecanol': 5.}
    for T in (285., 290., 300.):
        cases.append({'kind': 'sle_hist_real', 'chems': two,
                      'steps': [{'l': f2, 's': {}, 'solute': 'Tetradecanol', 'T': T}, {'l': f2, 's': {}, 'solute': 'Hexadecanol', 'T': T}]})
        cases.append({'kind': 'sle_hist_real', 'chems': two,
                      'steps': [{'l': {'Ethanol': 20., 'Tetradecanol': 5.}, 's': {}, 'solute': 'Tetradecanol', 'T': T},
                                {'solute': 'Tetradecanol', 'T': T, 'sol': 0.1}, {'solute': 'Tetradecanol', 'T': T}]})
    cases.append({'kind': 'sle_hist_real', 'chems': ['Water', 'Tetradecanol', 'Octanol'],
                  'steps': [{'l': {'Tetradecanol': 5.}, 's': {}, 'solute': 'Tetradecanol', 'T': 300.},
                            {'l': {'Water': 10., 'Octanol': 2., 'Tetradecanol': 5.}, 's': {}, 'solute': 'Tetradecanol', 'T': 305.}]})
    sle_chems = ['Water', 'Methanol', 'Octanol', 'Tetradecanol']
    feeds = [{'Methanol': 10., 'Tetradecanol': 30.}, {'Methanol': 2., 'Octanol': 1., 'Tetradecanol': 25.},
             {'Methanol': 40., 'Octanol': 5., 'Water': 1., 'Tetradecanol': 4.}]
    for feed in feeds:
        for x in (0.05, 0.5, 0.9):                        # given solubility as the very first call on the stream
            cases.append({'kind': 'sle_hist_real', 'chems': sle_chems,
                          'steps': [{'l': feed, 's': {}, 'solute': 'Tetradecanol', 'T': 300., 'sol': x}]})
        for T1 in (255., 450., 290.):                     # earlier call: mostly solid / all liquid / partly solid on entry
            for x in (0.0, 0.05, 0.3, 0.6, 0.8, 0.9, 0.95, 0.99, 1.0):
                cases.append({'kind': 'sle_hist_real', 'chems': sle_chems,
                              'steps': [{'l': feed, 's': {}, 'solute': 'Tetradecanol', 'T': 300.},
                                        {'solute': 'Tetradecanol', 'T': T1},
                                        {'solute': 'Tetradecanol', 'T': 300., 'sol': x}]})
            for T2 in (255., 285., 300., 306., 311., 312.5, 330.):
                cases.append({'kind': 'sle_hist_real', 'chems': sle_chems,
                              'steps': [{'l': feed, 's': {}, 'solute': 'Tetradecanol', 'T': 300.},
                                        {'solute': 'Tetradecanol', 'T': T1}, {'solute': 'Tetradecanol', 'T': T2}]})
        # a feed that carries solids, given solubility on the second call
        half = {k: (v / 2 if k == 'Tetradecanol' else v) for k, v in feed.items()}
        for x in (0.3, 0.8, 0.95):
            cases.append({'kind': 'sle_hist_real', 'chems': sle_chems,
                          'steps': [{'l': half, 's': {'Tetradecanol': feed['Tetradecanol'] / 2}, 'solute': 'Tetradecanol', 'T': 300.},
                                    {'l': half, 's': {'Tetradecanol': feed['Tetradecanol'] / 2}, 'solute': 'Tetradecanol', 'T': 300., 'sol': x}]})
    cases.append({'kind': 'sle_real', 'chems': ['Water', 'Tetradecanol'], 'l': {'Water': 10., 'Tetradecanol': 5.}, 's': {}, 'solute': 'Tetradecanol', 'T': 300.})
    cases.append({'kind': 'sle_real', 'chems': ['Water', 'Tetradecanol'], 'l': {'Tetradecanol': 5.}, 's': {}, 'solute': 'Tetradecanol', 'T': 320.})
    cases.append({'kind': 'sle_real', 'chems': ['Water', 'Tetradecanol'], 'l': {}, 's': {'Tetradecanol': 5.}, 'solute': 'Tetradecanol', 'T': 300.})
    return cases
