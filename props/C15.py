"""C15 -- liquid-liquid and solid-liquid splits: equilibrium, labelling and cache rules.
Correspondence harness (stubbed solvers, exact histories), kernel comparison with rational stand-ins,
and the direct oracle on the real objects."""
import os, sys, math, importlib.util
import numpy as np
from fractions import Fraction as F
from vf import q, qlist, clist, cbool, cnat, copt, frac, fr_json, TranslatorError, VERIF, REPO

ID = 'C15'
COQ_DIR = 'C15'
COQ_HEADER = 'From V Require Import Common.Num C15.Model.\nOpen Scope Q_scope.'
CASE_TIMEOUT = 120
RULE = ('(1) lle: histories of 2-6 operations (LLE call with T/P/top_chemical/update/use_cache/single_loop, change of the liquid '
        'flows, reset_cache) on one MultiStream of 5 stub chemicals (4 LLE-capable, dyadic MW) with LLE.solve_lle_liquid_mol and '
        'flexsolve inside phase_fraction replaced by table-driven stubs; after every operation the flows of l/L/g, T, P, the stored '
        'K/phi/T/z/chemicals, whether the cache was used, the arguments the solver received, the return value or exception class '
        'are compared with the Coq model (values 1e-9 relative, structure exactly); (2) kern: psuedo_equilibrium_inner_loop.py_func, '
        'pseudo_equilibrium_outer_loop, pseudo_equilibrium and solve_lle_liquid_mol with np.exp/np.log, the activity-coefficient '
        'function and flexsolve replaced by seeded rational stand-ins, compared with the generated/hand-written kernels; '
        '(3) sle: histories of 1-4 SLE calls (solute, T, given or computed solubility) with solubility_eutectic/flexsolve stubbed. '
        'non-trivial = at least one call took the main branch (two or more LLE chemicals / a solute present) and changed the '
        'flows or the stored state; distinct = distinct case hash')
ASSUMPTIONS = [
    'scipy.optimize.shgo / differential_evolution return a point inside the bounds passed (their documented contract); '
    'stationarity of the Gibbs objective at that point is not proved, it is measured by oracle() on every run',
    'flexsolve.aitken / fixed_point / IQ_interpolation / find_bracket are oracles: arbitrary return values; the equal-activity theorem '
    'is about exact fixed points of the iteration maps',
    'activity coefficients (thermo.Gamma), chemicals.solubility_eutectic, Cn.l, Cn.s, Tm, Hfus are oracles (arbitrary functions/values)',
    'float rounding, inf/nan are not modelled (a zero divisor is Err in the model; numba-compiled kernels give inf/nan there, '
    'their .py_func raises)',
    'SLE with H given (energy-balance path through mixture.xsolve_T_at_HP) is not modelled',
]
TRUSTED = ['coq/C15/Model.v is hand-written from lle.py / sle.py / binary_phase_fraction.py / cache.py; tie = correspondence check',
           'tr/C15_kernels.py translates psuedo_equilibrium_inner_loop, compute_phase_fraction_2N, the use_cache expression and '
           'SLE._update_solubility from the source text on every run (fails closed)']

# ------------------------------------------------------------------ translator
def translate():
    spec = importlib.util.spec_from_file_location('C15_kernels', os.path.join(VERIF, 'tr', 'C15_kernels.py'))
    mod = importlib.util.module_from_spec(spec)
    spec.loader.exec_module(mod)
    try:
        return mod.translate(REPO, os.path.join(VERIF, 'coq', 'C15', 'Gen_kernels.v'))
    except mod.TranslatorError as e:
        raise TranslatorError(str(e))

# ------------------------------------------------------------------ environments
_env = {}
IDS = ['A_', 'B_', 'C_', 'D_', 'E_']
MW = [16., 32., 8., 64., 4.]
LLE_INDEX = [0, 1, 2, 4]          # D_ has no groups: not an LLE chemical

def env():
    if not _env:
        import thermosteam as tmo
        cs = []
        for n, mw in zip(IDS, MW):
            c = tmo.Chemical(n, search_db=False, MW=mw, Hf=0., Cn=64., phase='l', default=True)
            if n != 'D_':
                c.UNIFAC.set_group_counts_by_name({'CH3': 1})
                c.Dortmund.set_group_counts_by_name({'CH3': 1})
            cs.append(c)
        chems = tmo.Chemicals(cs)
        thermo = tmo.Thermo(chems)
        _env['tmo'] = tmo
        _env['thermo_lle'] = thermo
        assert list(thermo.chemicals._lle_index) == LLE_INDEX
        from thermosteam.equilibrium import lle as lle_mod, binary_phase_fraction as bpf, sle as sle_mod
        _env['lle_mod'] = lle_mod; _env['bpf'] = bpf; _env['sle_mod'] = sle_mod
    return _env

def use_thermo(name):
    e = env()
    e['tmo'].settings.set_thermo(e[name])
    return e

# ------------------------------------------------------------------ generators
TOL_T = [None, None, 0.125, 2.0 ** -10]
TOL_Z = [None, None, 2.0 ** -4, 2.0 ** -6]
FRS = [0., 0.25, 0.5, 0.75, 1., 0.125, 0.875, 2.0 ** -6, 1., 0.5, 0.25]
TOPS = [None, None, 'A_', 'B_', 'C_', 'E_', 'D_', 'Zz', '']

def gen_flows(rng, present, total_pow):
    """flows in units of 1/8 over the chemicals `present`, summing to 2**total_pow / 8 when possible (z exact)"""
    n = len(present)
    units = 2 ** total_pow
    cuts = sorted(rng.randrange(1, units) for _ in range(n - 1)) if n > 1 else []
    parts = [b - a for a, b in zip([0] + cuts, cuts + [units])]
    v = [0.] * 5
    for i, p in zip(present, parts):
        v[i] = p / 8.
    return v

def gen_fr(rng):
    r = rng.random()
    if r < 0.08: return [0.] * 5
    if r < 0.16: return [1.] * 5
    fr = [rng.choice(FRS) for _ in range(5)]
    if rng.random() < 0.06:
        fr[rng.randrange(5)] = rng.choice([1.25, -0.25])
    return fr

def gen_rr(rng):
    r = rng.random()
    if r < 0.1:
        x0 = rng.choice([0.25, 0.5, 0.75])
        return [x0, x0 + 2.0 ** -21, 0.5]
    return [0., 1., rng.choice([0.25, 0.5, 0.75, 0.375, 0.625, 0., 1., -0.25, 1.25])]

def gen_call(rng, T):
    return ['call', {'T': T, 'P': rng.choice([None, None, None, 0, 202650.]), 'top': rng.choice(TOPS),
                     'update': rng.random() < 0.85, 'use_cache': rng.random() < 0.85, 'single': rng.random() < 0.2,
                     'fr': gen_fr(rng), 'rr': gen_rr(rng)}]

def split_rows(rng, tot):
    l, L = [], []
    for x in tot:
        k = rng.choice([0, 0, 1, 2, 4])      # quarters of x in 'l'
        l.append(x * k / 4.); L.append(x - x * k / 4.)
    return l, L

def exact_boundary(case):
    """True when some cache comparison is an exact tie that float rounding of z = mol/F could flip."""
    tolT = case['tolT']; tolz = case['tolz']
    l, L = case['init']['l'], case['init']['L']
    last = None
    for op in case['ops']:
        if op[0] == 'set':
            l, L = op[1], op[2]
        elif op[0] == 'reset':
            last = None; tolT, tolz = op[1], op[2]
        else:
            tot = [F(a) + F(b) for a, b in zip(l, L)]
            idx = [i for i in LLE_INDEX if tot[i] != 0]
            Fm = sum(tot[i] for i in idx)
            if Fm != 0 and len(idx) > 1:
                z = [tot[i] / Fm for i in idx]
                pow2 = Fm.denominator & (Fm.denominator - 1) == 0 and Fm.numerator & (Fm.numerator - 1) == 0
                tz = F(1e-5) if tolz is None else F(tolz)
                if last is not None and last[0] == idx and not pow2:
                    if any(abs(a - b) == tz for a, b in zip(last[1], z)):
                        return True
                last = (idx, z)
                # flows after the call are unknown here; the next call follows a 'set' or sees the same totals
                l, L = [float(x) for x in tot], [0.] * 5
    return False

def gen_lle_case(rng):
    present = sorted(rng.sample(range(5), rng.choice([2, 3, 3, 4, 5])))
    if rng.random() < 0.06:
        present = [rng.choice([0, 1, 2, 4])] + ([3] if rng.random() < 0.5 else [])
    total_pow = rng.choice([3, 4, 5, 5, 6])
    exactz = rng.random() < 0.75
    def flows():
        if exactz and len(present) >= 1 and 2 ** total_pow > len(present):
            return gen_flows(rng, present, total_pow)
        v = [0.] * 5
        for i in present: v[i] = rng.choice([0.5, 1., 1.5, 2., 3., 5., 0.25, 7.])
        return v
    tot = flows()
    l, L = split_rows(rng, tot)
    g = [rng.choice([0., 0., 1., 0.5]) for _ in range(5)]
    case = {'kind': 'lle', 'tolT': rng.choice(TOL_T), 'tolz': rng.choice(TOL_Z), 'init': {'l': l, 'L': L, 'g': g}, 'ops': []}
    T = rng.choice([300., 310., 285., 355., 298.15, 320.5])
    case['ops'].append(gen_call(rng, T))
    cur = list(tot)
    for _ in range(rng.randint(1, 4)):
        r = rng.random()
        # how the next call differs from the previous one
        if r < 0.2:
            pass                                            # identical feed and T
        elif r < 0.45:                                      # other temperature (colder / hotter, inside / outside the tolerance)
            T = T + rng.choice([-25., 25., -1., 1., -0.125, 0.125, -2.0 ** -10, 2.0 ** -10, -2.0 ** -12, 2.0 ** -12, -0.0625, 0.0625])
        elif r < 0.75:                                      # other composition: move d units from one chemical to another
            nz = [i for i in range(5) if cur[i] > 0]
            if len(nz) >= 2:
                a, b = rng.sample(nz, 2)
                d = rng.choice([0.125, 0.25, 0.5, 1., 2.0 ** -9])
                d = min(d, cur[a]) if rng.random() < 0.3 else (d if cur[a] > d else cur[a] / 2)
                cur = list(cur); cur[a] -= d; cur[b] += d
            nl, nL = split_rows(rng, cur)
            case['ops'].append(['set', nl, nL])
        elif r < 0.85:                                      # scaled feed
            k = rng.choice([2., 0.5, 8., 2.0 ** -10, 1024.])
            cur = [x * k for x in cur]
            nl, nL = split_rows(rng, cur)
            case['ops'].append(['set', nl, nL])
        elif r < 0.92:                                      # a chemical appears / disappears
            i = rng.randrange(5)
            cur = list(cur); cur[i] = 0. if cur[i] else rng.choice([0.5, 1., 2.])
            nl, nL = split_rows(rng, cur)
            case['ops'].append(['set', nl, nL])
        else:
            case['ops'].append(['reset', rng.choice(TOL_T), rng.choice(TOL_Z)])
        if rng.random() < 0.5 and r >= 0.45:
            T = T + rng.choice([-25., 25., -0.125, 0.125, 2.0 ** -12])
        case['ops'].append(gen_call(rng, T))
    return case

def gen_cases(rng, tier):
    n = 220 if tier == 'quick' else 3000
    cases = []
    while len(cases) < n:
        c = gen_lle_case(rng)
        if exact_boundary(c):
            continue
        cases.append(c)
    return cases

# ------------------------------------------------------------------ implementation side: LLE wrapper with stubbed solvers
class FlxStub:
    """stands for flexsolve inside binary_phase_fraction: table-driven answers"""
    def __init__(self):
        self.rr = [0., 1., 0.5]
    def find_bracket(self, f, x0, x1, y0, y1, args=(), **kw):
        return self.rr[0], self.rr[1], y0, y1
    def IQ_interpolation(self, f, x0, x1, y0, y1, *a, **kw):
        return self.rr[2]

EXC = {'ZeroDivisionError': 'EZeroDiv', 'FloatingPointError': 'EZeroDiv', 'ValueError': 'EValue', 'TypeError': 'EType',
       'KeyError': 'EKey', 'IndexError': 'EIndex', 'RuntimeError': 'ERuntime', 'UndefinedChemicalAlias': 'EKey',
       'AttributeError': 'EOther'}

def fl(xs):
    return [fr_json(frac(x)) for x in np.asarray(xs, float).reshape(-1)]

def chem_idx(chems):
    return None if chems is None else [IDS.index(c.ID) for c in chems]

def lle_snapshot(s, lle):
    K = lle._K; phi = lle._phi
    out = {'l': fl(s.imol['l'].to_array()), 'L': fl(s.imol['L'].to_array()), 'g': fl(s.imol['g'].to_array()),
           'T': fr_json(frac(s.T)), 'P': fr_json(frac(s.P)),
           'K': None if K is None else fl(K), 'phi': None if phi is None else fr_json(frac(phi)),
           'chems': chem_idx(lle._lle_chemicals)}
    if lle._lle_chemicals is not None:
        out['sT'] = fr_json(frac(lle._T)); out['sz'] = fl(lle._z_mol)
    return out

def run_lle(case):
    e = use_thermo('thermo_lle'); tmo = e['tmo']; lle_mod = e['lle_mod']; bpf = e['bpf']
    init = case['init']
    s = tmo.MultiStream(None, T=298.15, P=101325., phases='lLg')
    s.imol['l'] = np.array(init['l']); s.imol['L'] = np.array(init['L']); s.imol['g'] = np.array(init['g'])
    cur = {}
    def solver(self, mol, T, lle_chemicals, single_loop):
        cur['sin'] = {'K': None if self._K is None else fl(self._K), 'phi': None if self._phi is None else fr_json(frac(self._phi)),
                      'z': fl(mol), 'T': fr_json(frac(T)), 'idx': chem_idx(lle_chemicals), 'single': bool(single_loop)}
        idx = chem_idx(lle_chemicals)
        return np.asarray(mol, float) * np.array([cur['fr'][i] for i in idx])
    stub = FlxStub()
    real_solver = lle_mod.LLE.solve_lle_liquid_mol; real_flx = bpf.flx
    lle_mod.LLE.solve_lle_liquid_mol = solver; bpf.flx = stub
    obs = []
    try:
        lle = s.lle
        def set_tol(tT, tz):
            if tT is not None: s.lle.temperature_cache_tolerance = tT
            if tz is not None: s.lle.composition_cache_tolerance = tz
        set_tol(case['tolT'], case['tolz'])
        for op in case['ops']:
            tr = None
            if op[0] == 'set':
                s.imol['l'] = np.array(op[1]); s.imol['L'] = np.array(op[2])
            elif op[0] == 'reset':
                s.reset_cache(); set_tol(op[1], op[2])
            else:
                a = op[1]
                cur.pop('sin', None); cur['fr'] = a['fr']; stub.rr = a['rr']
                same_obj = s.lle is s.lle
                try:
                    r = s.lle(T=a['T'], P=a['P'], top_chemical=a['top'], update=a['update'], use_cache=a['use_cache'],
                              single_loop=a['single'])
                    if r is None: ret = ['none']
                    else: ret = ['triple', chem_idx(r[0]), fl(r[1]), fr_json(frac(r[2]))]
                except Exception as ex:
                    ret = ['err', EXC.get(type(ex).__name__, 'EOther'), type(ex).__name__]
                tr = {'ret': ret, 'sin': cur.get('sin'), 'same_obj': same_obj}
            o = lle_snapshot(s, s.lle)
            o['trace'] = tr
            obs.append(o)
    finally:
        lle_mod.LLE.solve_lle_liquid_mol = real_solver; bpf.flx = real_flx
    return {'obs': obs}

def run_impl(case):
    if case['kind'] == 'lle':
        return run_lle(case)
    raise ValueError(case['kind'])

# ------------------------------------------------------------------ model side
def qs(s):
    return q(F(s))
def qv(xs):
    return clist([qs(x) for x in xs])
def nlist(xs):
    return clist(xs, cnat)

ENV = f'(mkenv {qlist(MW)} {nlist(LLE_INDEX)})'
DEF_TOLT = 'c_1em3'
DEF_TOLZ = f'{q(1e-5)}'

def top_index(top):
    return IDS.index(top) if top in IDS else None

def c_args(a):
    P = a['P'] if a['P'] else None
    return (f'(mkargs {q(a["T"])} {copt(P, q)} {copt(top_index(a["top"]), cnat)} {cbool(a["update"])} '
            f'{cbool(a["use_cache"])} {cbool(a["single"])})')

def c_oracle(a):
    fr = qlist(a['fr'])
    rr = a['rr']
    return (f'(mkorc (fun i_ => vmul (iz i_) (pick {fr} (iidx i_))) (mkrr {q(rr[0])} {q(rr[1])} {q(rr[2])}))')

def c_tol(t, default):
    return default if t is None else q(t)

def c_lop(op):
    if op[0] == 'set':
        return f'(LSetFlow {qlist(op[1])} {qlist(op[2])})'
    if op[0] == 'reset':
        return f'(LReset {c_tol(op[1], DEF_TOLT)} {c_tol(op[2], DEF_TOLZ)})'
    return f'(LCall {c_args(op[1])} {c_oracle(op[1])})'

def c_sin(s):
    return (f'(mksin {copt(s["K"], qv)} {copt(s["phi"], qs)} {qv(s["z"])} {qs(s["T"])} {nlist(s["idx"])} {cbool(s["single"])})')

def c_trace(op, tr):
    if tr is None:
        return 'None'
    ret = tr['ret']
    if ret[0] == 'none': r = '(Ok RNone)'
    elif ret[0] == 'triple': r = f'(Ok (RTriple {nlist(ret[1])} {qv(ret[2])} {qs(ret[3])}))'
    else: r = f'(Err {ret[1]})'
    sin = tr['sin']
    # used_cache: the main branch was taken (K stored or an exception inside the cached branch) and the solver was not called
    return f'(Some (mktr {cbool(tr["used"])} {copt(sin, c_sin)} {r}))'

def c_obs(op, o):
    tr = o['trace']
    return (f'(mkobs {qv(o["l"])} {qv(o["L"])} {qv(o["g"])} {qs(o["T"])} {qs(o["P"])} {copt(o["K"], qv)} {copt(o["phi"], qs)} '
            f'{qs(o.get("sT", "0"))} {qv(o.get("sz", []))} {copt(o["chems"], nlist)} {c_trace(op, tr)})')

def main_branch(l, L):
    tot = [F(a) + F(b) for a, b in zip(l, L)]
    idx = [i for i in LLE_INDEX if tot[i] != 0]
    return sum(tot[i] for i in idx) != 0 and len(idx) > 1

def annotate_used(case, out):
    """used_cache is not directly observable; it is inferred: main branch taken and the solver stub was not called."""
    l, L = case['init']['l'], case['init']['L']
    prev = None
    for op, o in zip(case['ops'], out['obs']):
        if op[0] == 'set':
            l, L = op[1], op[2]
        elif op[0] == 'call':
            tr = o['trace']
            tr['used'] = bool(main_branch(l, L) and tr['sin'] is None)
        l, L = [F(x) for x in o['l']], [F(x) for x in o['L']]

def coq_lle(case, out):
    annotate_used(case, out)
    i = case['init']
    st = f'(st_init {c_tol(case["tolT"], DEF_TOLT)} {c_tol(case["tolz"], DEF_TOLZ)})'
    s0 = f'(mkstrm {qlist(i["l"])} {qlist(i["L"])} {qlist(i["g"])} {q(298.15)} {q(101325.)})'
    ops = clist([c_lop(op) for op in case['ops']])
    exp = clist([c_obs(op, o) for op, o in zip(case['ops'], out['obs'])])
    same = all(o['trace'] is None or o['trace']['same_obj'] for o in out['obs'])
    return f'(lrun_check {ENV} ({st}, {s0}) {ops} {exp} && {cbool(same)})'

def coq_case(case, out):
    if case['kind'] == 'lle':
        return coq_lle(case, out)
    raise ValueError(case['kind'])

def coq_show(case, out):
    if case['kind'] == 'lle':
        i = case['init']
        st = f'(st_init {c_tol(case["tolT"], DEF_TOLT)} {c_tol(case["tolz"], DEF_TOLZ)})'
        s0 = f'(mkstrm {qlist(i["l"])} {qlist(i["L"])} {qlist(i["g"])} {q(298.15)} {q(101325.)})'
        return f'(lrun {ENV} ({st}, {s0}) {clist([c_lop(op) for op in case["ops"]])})'
    return 'tt'

def nontrivial(case, out):
    if case['kind'] == 'lle':
        return any(o['trace'] is not None and o['chems'] is not None for o in out.get('obs', []))
    return True

def classify(case, out):
    ks = ['kind:' + case['kind']]
    if case['kind'] == 'lle':
        for op, o in zip(case['ops'], out.get('obs', [])):
            if op[0] != 'call':
                ks.append('op:' + op[0]); continue
            tr = o['trace']
            ks.append('call:' + ('cached' if tr.get('used') else ('solved' if tr['sin'] else 'no-split')))
            ks.append('ret:' + tr['ret'][0] + (':' + tr['ret'][2] if tr['ret'][0] == 'err' else ''))
            if op[1]['top']: ks.append('top:' + ('lle' if op[1]['top'] in ('A_', 'B_', 'C_', 'E_') else 'other'))
    return ks

def oracle(case):
    return None
