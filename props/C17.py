"""C17 — reaction arithmetic.  Correspondence harness, generators and direct oracle."""
import numpy as np
from fractions import Fraction as F
from vf import q, qlist, clist, cbool, cnat, copt, frac, fr_json

ID = 'C17'
COQ_DIR = 'C17'
COQ_HEADER = 'From V Require Import Common.Num C17.Model.\nOpen Scope Q_scope.'
RULE = ('histories of 3-10 arithmetic operations (copy/re-base, +, -, +=, -=, *, /, *=, /=, neg, backwards, X=) over a store of '
        '2-4 Reaction objects sharing a reactant (phase-less and phase-tagged, mol and wt basis, dyadic coefficients), plus '
        'ReactionSet/ReactionItem conversion-sharing histories; executed on the real classes and on the Coq model, final '
        'store (stoichiometry, reactant, X, basis, phases), per-operation success flags, object identity of results and the '
        'conversion on a feed are compared (values to 1e-9 relative). non-trivial = at least one operation succeeded and '
        'the final store differs from the initial one; distinct = distinct case hash')
ASSUMPTIONS = ['float rounding is not modelled: values compared to 1e-9 relative, branch decisions are exact because inputs are dyadic',
               'Reaction construction/parsing is not part of this model (initial store is observed after construction; see C05)']
TRUSTED = ['model coq/C17/Model.v is hand-written from thermosteam/reaction/_reaction.py; tie = correspondence check']

_env = {}
def env():
    if not _env:
        import thermosteam as tmo
        chems = tmo.Chemicals([tmo.Chemical(n, search_db=False, MW=mw, Hf=0., Cn=64., phase='l', default=True)
                               for n, mw in [('A_', 16.), ('B_', 32.), ('C_', 8.), ('D_', 4.)]])
        tmo.settings.set_thermo(chems)
        _env['tmo'] = tmo
        _env['chems'] = tmo.settings.chemicals
        _env['IDs'] = ['A_', 'B_', 'C_', 'D_']
        _env['MW'] = [16., 32., 8., 4.]
    return _env

PH = {'g': 1, 'l': 2, 's': 3, 'L': 4, 'S': 5}
COEFS = [F(1, 2), F(1), F(2), F(3, 2), F(1, 4), F(3)]
XS = [F(1, 2), F(1, 4), F(1, 8), F(3, 4), F(1), F(0), F(3, 8)]
KS_MUL = [F(2), F(1, 2), F(1, 4), F(3), F(-1), F(3, 2)]
KS_DIV = [F(2), F(4), F(1, 2), F(8), F(1, 4), F(0)]   # 1./k exact, so conversions stay dyadic

def gen_rxn(rng, phases, reactant):
    e = env()
    ids = e['IDs']
    st = {}
    others = [i for i in ids if i != reactant]
    rng.shuffle(others)
    nprod = rng.randint(1, 2)
    if phases:
        st[f'{reactant},{rng.choice(phases)}'] = float(-rng.choice(COEFS))
        for o in others[:nprod]:
            st[f'{o},{rng.choice(phases)}'] = float(rng.choice(COEFS))
        if rng.random() < 0.2:
            st[f'{others[2]},{rng.choice(phases)}'] = float(-rng.choice(COEFS))
    else:
        st[reactant] = float(-rng.choice(COEFS))
        for o in others[:nprod]:
            st[o] = float(rng.choice(COEFS))
        if rng.random() < 0.2:
            st[others[2]] = float(-rng.choice(COEFS))
    return {'st': st, 'reactant': reactant, 'X': float(rng.choice(XS)), 'basis': rng.choice(['mol', 'mol', 'wt'])}

def gen_cases(rng, tier):
    n = 240 if tier == 'quick' else 4000
    cases = []
    for _ in range(n):
        kind = 'set' if rng.random() < 0.12 else 'arith'
        phases = rng.choice([[], [], ['g', 'l'], ['l', 's']])
        reactant = rng.choice(env()['IDs'])
        nr = rng.randint(2, 4)
        rxns = [gen_rxn(rng, phases, reactant if rng.random() < 0.9 else rng.choice(env()['IDs'])) for _ in range(nr)]
        if kind == 'set':
            for r in rxns:
                r['basis'] = rxns[0]['basis']
            if rng.random() < 0.25:      # every member created with a Python int conversion (numpy infers an int array)
                for r in rxns:
                    r['X'] = rng.choice([0, 1, 1])
            ops = []
            for _ in range(rng.randint(2, 7)):
                o = rng.choice(['item_set', 'set_elem', 'set_all', 'set_all', 'sub_all', 'sub_elem', 'item_mul', 'item_div', 'reduce'])
                lo = rng.randrange(nr); ln = rng.randint(1, nr - lo)
                if o in ('item_set', 'set_elem'):
                    ops.append([o, rng.randrange(nr), float(rng.choice(XS))])
                elif o == 'reduce':
                    ops.append([o])
                elif o == 'item_mul':
                    ops.append([o, rng.randrange(nr), float(rng.choice(KS_MUL))])
                elif o == 'item_div':
                    ops.append([o, rng.randrange(nr), float(rng.choice(KS_DIV))])
                elif o == 'set_all':
                    m = rng.choice([nr, nr, 1, 0, nr + 1])    # 0 = python scalar; wrong lengths must be rejected
                    ops.append([o, float(rng.choice(XS)) if m == 0 else [float(rng.choice(XS)) for _ in range(m)]])
                elif o == 'sub_all':
                    m = rng.choice([ln, ln, 1, 0])
                    ops.append([o, lo, ln, float(rng.choice(XS)) if m == 0 else [float(rng.choice(XS)) for _ in range(m)]])
                else:
                    ops.append([o, lo, ln, rng.randrange(ln), float(rng.choice(XS))])
        else:
            ops = []
            for _ in range(rng.randint(3, 10)):
                o = rng.choice(['copy', 'add', 'add', 'sub', 'sub', 'iadd', 'isub', 'isub', 'mul', 'div', 'imul', 'idiv',
                                'neg', 'backwards', 'backwards', 'setx', 'copy_item', 'add_item', 'sub_item'])
                i, j = rng.randrange(64), rng.randrange(64)
                if o in ('copy', 'copy_item'):
                    ops.append([o, i, rng.choice([None, 'mol', 'wt'])])
                elif o in ('add', 'sub', 'iadd', 'isub', 'add_item', 'sub_item'):
                    ops.append([o, i, j])
                elif o in ('mul', 'imul'):
                    ops.append([o, i, float(rng.choice(KS_MUL))])
                elif o in ('div', 'idiv'):
                    ops.append([o, i, float(rng.choice(KS_DIV))])
                elif o == 'neg':
                    ops.append([o, i])
                elif o == 'backwards':
                    ops.append([o, i, rng.choice([None, None] + env()['IDs']), rng.choice([None, None, float(rng.choice(XS))])])
                else:
                    ops.append([o, i, float(rng.choice(XS))])
        feed = [float(rng.choice([0, 1, 2, 4, F(1, 2), 8, 3])) for _ in range(4 * max(1, len(phases)))]
        cases.append({'kind': kind, 'phases': phases, 'rxns': rxns, 'ops': ops, 'feed': feed})
    return cases

# ------------------------------------------------------------------ implementation side
def build(case):
    e = env()
    tmo = e['tmo']
    objs = []
    for r in case['rxns']:
        lhs = ' + '.join(f'{-v!r} {k}' for k, v in r['st'].items() if v < 0)
        rhs = ' + '.join(f'{v!r} {k}' for k, v in r['st'].items() if v > 0)
        objs.append(tmo.Reaction(f'{lhs} -> {rhs}', reactant=r['reactant'], X=r['X'], basis=r['basis'],
                                 phases=''.join(case['phases']) if case['phases'] else None))
    return objs

def flat_ridx(r):
    if r._phases:
        p, j = r._reactant_index
        return int(p) * 4 + int(j)
    return int(r._reactant_index)

def snap(r):
    st = np.asarray(r._stoichiometry.to_array(), float).reshape(-1)
    return {'st': [fr_json(frac(x)) for x in st], 'ridx': flat_ridx(r), 'X': fr_json(frac(r._X if not hasattr(r, '_index') else r.X)),
            'wt': r._basis == 'wt', 'phases': [PH[p] for p in r._phases]}

def feed_array(case):
    f = np.array(case['feed'], float)
    if case['phases']:
        f = f.reshape(len(case['phases']), 4)
    return f

def conv(r, case):
    c = r.conversion(feed_array(case))
    return [frac(x) for x in np.asarray(c.to_array() if hasattr(c, 'to_array') else c, float).reshape(-1)]

def resolve_reactant(r, ident):
    """flat index the (repaired) source gives to backwards(reactant=ident)"""
    e = env()
    j = e['IDs'].index(ident)
    if r._phases:
        col = np.asarray(r._stoichiometry.to_array(), float)[:, j]
        p = len(col) - 1
        for k, x in enumerate(col):
            if x:
                p = k
                break
        return p * 4 + j
    return j

def apply_op(store, op):
    """returns (resolved op, result object or None).  Raises what the implementation raises."""
    name = op[0]
    n = len(store)
    i = op[1] % n
    if name == 'copy':
        return ['copy', i, op[2]], store[i].copy(op[2])
    if name == 'copy_item':      # the same reaction seen as an item of a one-member reaction set
        return ['copy', i, op[2]], item_of(store[i]).copy(op[2])
    if name in ('add_item', 'sub_item'):
        j = op[2] % n
        a, b = store[i], item_of(store[j])
        return [name[:3], i, j], (a + b if name == 'add_item' else a - b)
    if name in ('add', 'sub', 'iadd', 'isub'):
        j = op[2] % n
        a, b = store[i], store[j]
        if name == 'add': return [name, i, j], a + b
        if name == 'sub': return [name, i, j], a - b
        if name == 'iadd':
            a += b
            assert a is store[i]
            return [name, i, j], None
        a -= b
        assert a is store[i]
        return [name, i, j], None
    if name == 'mul': return [name, i, op[2]], store[i] * op[2]
    if name == 'div': return [name, i, op[2]], store[i] / op[2]
    if name == 'imul':
        a = store[i]; a *= op[2]; return [name, i, op[2]], None
    if name == 'idiv':
        a = store[i]; a /= op[2]; return [name, i, op[2]], None
    if name == 'neg': return [name, i], -store[i]
    if name == 'backwards':
        r = None if op[2] is None else resolve_reactant(store[i], op[2])
        return [name, i, r, op[3]], store[i].backwards(reactant=op[2], X=op[3])
    if name == 'setx':
        store[i].X = op[2]; return [name, i, op[2]], None
    raise ValueError(name)

def item_of(r):
    return env()['tmo'].ParallelReaction([r])[0]

def resolved_only(store, op):
    name = op[0]; n = len(store); i = op[1] % n
    if name == 'copy_item': return ['copy', i, op[2]]
    if name in ('add_item', 'sub_item'): return [name[:3], i, op[2] % n]
    if name in ('add', 'sub', 'iadd', 'isub'): return [name, i, op[2] % n]
    if name == 'backwards':
        return [name, i, None if op[2] is None else resolve_reactant(store[i], op[2]), op[3]]
    return [name, i] + list(op[2:])

def set_handles(tmo, objs):
    """the set, one item per reaction and every slice sub-set, all obtained BEFORE any write"""
    pr = tmo.ParallelReaction(objs)
    n = len(objs)
    handles, desc = [pr], [['set']]
    for k in range(n):
        handles.append(pr[k]); desc.append(['item', k])
    for lo in range(n):
        for ln in range(1, n - lo + 1):
            handles.append(pr[lo:lo + ln]); desc.append(['sub', lo, ln])
    return pr, handles, desc

def set_apply(pr, handles, op):
    name = op[0]
    if name == 'item_set':
        handles[1 + op[1]].X = op[2]
    elif name == 'reduce':
        red = pr.reduce()
        assert red is not pr
        return red
    elif name == 'item_mul':
        it = handles[1 + op[1]]; it *= op[2]
    elif name == 'item_div':
        it = handles[1 + op[1]]; it /= op[2]
    elif name == 'set_elem':
        pr.X[op[1]] = op[2]
    elif name == 'set_all':
        pr.X = op[1]
    elif name == 'sub_all':
        pr[op[1]:op[1] + op[2]].X = op[3]
    elif name == 'sub_elem':
        pr[op[1]:op[1] + op[2]].X[op[3]] = op[4]

def set_conv(pr, case):
    from thermosteam.base import SparseVector, SparseArray
    f = feed_array(case)
    m = SparseArray(f) if case['phases'] else SparseVector(f)
    c = pr._conversion(m)
    return [frac(x) for x in np.asarray(c.to_array(), float).reshape(-1)]

def degenerate(store, rop):
    """a (+/-) b with X_a (+/-) X_b == 0: the result (0/0 stoichiometry) depends on float rounding of the operands'
    stoichiometry, which the exact model does not represent; such operations are left out on both sides."""
    if rop[0] in ('add', 'sub', 'iadd', 'isub'):
        a, b = store[rop[1]], store[rop[2]]
        sgn = 1 if rop[0] in ('add', 'iadd') else -1
        return has_rxn(b) and a.X + sgn * b.X == 0
    return False

def reduce_degenerate(pr):
    """reduce() folds the members that share a reactant with `+=`; a partial sum of conversions that cancels exactly is the
    same 0/0 case as `degenerate` above (ZeroDivisionError or a rounding-dependent stoichiometry): left out on both sides."""
    groups = {}
    for it in pr:
        groups.setdefault(it._reactant_index, []).append(it)
    for members in groups.values():
        acc = float(members[0].X)
        for it in members[1:]:
            if has_rxn(it):
                if acc + float(it.X) == 0: return True
                acc += float(it.X)
    return False

def has_rxn(r):
    """has_reaction as the property means it (independent of the implementation's own predicate)"""
    return float(r.X) != 0 and any(x != 0 for x in np.asarray(r._stoichiometry.to_array(), float).reshape(-1))

def normalised(r):
    return abs(float(np.asarray(r._stoichiometry.to_array(), float).reshape(-1)[flat_ridx(r)]) + 1) < 1e-12

def run_impl(case):
    e = env()
    objs = build(case)
    out = {'init': [snap(r) for r in objs]}
    if case['kind'] == 'set':
        pr, handles, hdesc = set_handles(e['tmo'], objs)
        oks, used = [], []
        for op in case['ops']:
            if op[0] == 'reduce' and reduce_degenerate(pr):
                out.setdefault('skipped', []).append(['reduce'])
                continue
            used.append(op)
            try:
                red = set_apply(pr, handles, op)
                oks.append(True)
                if op[0] == 'reduce':
                    # the reduced set, the conversions it was made from and the grouping the implementation used
                    members = list(pr)
                    out['reduce'] = {'xs': [fr_json(frac(it.X)) for it in members],
                                     'groups': [[k for k, it in enumerate(members) if flat_ridx(it) == flat_ridx(r)] for r in red],
                                     'result': [snap(r) for r in red]}
            except Exception as ex:
                oks.append(False)
                out.setdefault('errors', []).append(type(ex).__name__)
        out['oks'] = oks
        out['set_ops'] = used
        out['handles'] = hdesc
        out['reads'] = [[fr_json(frac(x)) for x in np.atleast_1d(h.X)] for h in handles]
        out['fresh_items'] = [fr_json(frac(it.X)) for it in pr]
        out['acts'] = [fr_json(x) for x in set_conv(pr, case)]
        return out
    store = list(objs)
    oks, resolved, all_new = [], [], True
    for op in case['ops']:
        res_op = resolved_only(store, op)
        if degenerate(store, res_op):
            out.setdefault('skipped', []).append(res_op)
            continue
        try:
            _, r = apply_op(store, op)
            oks.append(True)
            if r is not None:
                if any(r is x for x in store):
                    all_new = False
                store.append(r)
        except Exception as ex:
            oks.append(False)
            out.setdefault('errors', []).append(type(ex).__name__)
        resolved.append(res_op)
    out['ops'] = resolved
    out['oks'] = oks
    out['all_new'] = all_new
    out['final'] = [snap(r) for r in store]
    out['reacted'] = [[fr_json(a + frac(b)) for a, b in zip(conv(r, case), case['feed'])] for r in store]
    return out

# ------------------------------------------------------------------ model side
def crxn(s):
    return (f'(mkrxn {qlist(s["st"])} {cnat(s["ridx"])} {q(F(s["X"]))} {cbool(s["wt"])} '
            f'{clist(s["phases"], cnat)})')

def cop(o):
    n = o[0]
    if n == 'copy':
        return f'(OCopy {cnat(o[1])} {copt(None if o[2] is None else cbool(o[2] == "wt"))})'
    if n == 'add': return f'(OAdd {cnat(o[1])} {cnat(o[2])})'
    if n == 'sub': return f'(OSub {cnat(o[1])} {cnat(o[2])})'
    if n == 'iadd': return f'(OIAdd {cnat(o[1])} {cnat(o[2])})'
    if n == 'isub': return f'(OISub {cnat(o[1])} {cnat(o[2])})'
    if n == 'mul': return f'(OMul {cnat(o[1])} {q(o[2])})'
    if n == 'div': return f'(ODiv {cnat(o[1])} {q(o[2])})'
    if n == 'imul': return f'(OIMul {cnat(o[1])} {q(o[2])})'
    if n == 'idiv': return f'(OIDiv {cnat(o[1])} {q(o[2])})'
    if n == 'neg': return f'(ONeg {cnat(o[1])})'
    if n == 'backwards':
        return f'(OBackwards {cnat(o[1])} {copt(o[2], cnat)} {copt(o[3], q)})'
    if n == 'setx': return f'(OSetX {cnat(o[1])} {q(o[2])})'
    raise ValueError(n)

def coq_case(case, out):
    e = env()
    nph = max(1, len(case['phases']))
    mws = qlist(e['MW'] * nph)
    if case['kind'] == 'set':
        init = out['init']
        xs = qlist([F(s['X']) for s in init])
        def vec_of(v, n):
            return qlist([v] if not isinstance(v, list) else v)
        sops = []
        for op in out.get('set_ops', case['ops']):
            nm = op[0]
            if nm == 'item_set': sops.append(f'(SItemSet {cnat(op[1])} {q(op[2])})')
            elif nm == 'set_elem': sops.append(f'(SSetElem {cnat(op[1])} {q(op[2])})')
            elif nm == 'reduce': sops.append('SReduce')
            elif nm == 'item_mul': sops.append(f'(SItemMul {cnat(op[1])} {q(op[2])})')
            elif nm == 'item_div': sops.append(f'(SItemDiv {cnat(op[1])} {q(op[2])})')
            elif nm == 'set_all': sops.append(f'(SSetAll {vec_of(op[1], 0)})')
            elif nm == 'sub_all': sops.append(f'(SSubAll {cnat(op[1])} {cnat(op[2])} {vec_of(op[3], 0)})')
            else: sops.append(f'(SSubElem {cnat(op[1])} {cnat(op[2])} {cnat(op[3])} {q(op[4])})')
        hs = []
        for h in out['handles']:
            hs.append('HSet' if h[0] == 'set' else (f'(HItem {cnat(h[1])})' if h[0] == 'item' else f'(HSub {cnat(h[1])} {cnat(h[2])})'))
        reads = clist([qlist([F(x) for x in r]) for r in out['reads']])
        # the set must act with the conversions every handle shows: compare conversion on the feed as well
        n = len(init)
        fresh = out['fresh_items'] == out['reads'][0]
        mws = qlist(e['MW'] * nph)
        rs = clist([crxn(s) for s in init])
        acts = qlist([F(x) for x in out['acts']])
        red = 'true'
        if 'reduce' in out:
            rd = out['reduce']
            red = (f'reduce_eqb {mws} {rs} {qlist([F(x) for x in rd["xs"]])} '
                   f'{clist([clist(g, cnat) for g in rd["groups"]])} {clist([crxn(x) for x in rd["result"]])}')
        return (f'(srun_eqb {xs} {clist(sops)} {clist(hs)} {reads} {clist(out["oks"], cbool)} && {cbool(fresh)} && '
                f'set_acts_eqb {rs} (fst (srun {xs} {clist(sops)})) {qlist(case["feed"])} {acts} && {red})')
    store = clist([crxn(s) for s in out['init']])
    ops = clist([cop(o) for o in out['ops']])
    expect = clist([crxn(s) for s in out['final']])
    oks = clist(out['oks'], cbool)
    reacted = clist([qlist([F(x) for x in r]) for r in out['reacted']])
    return (f'(run_eqb {mws} {store} {ops} {expect} {oks} {qlist(case["feed"])} {reacted} && {cbool(out["all_new"])})')

def coq_show(case, out):
    e = env()
    mws = qlist(e['MW'] * max(1, len(case['phases'])))
    if case['kind'] == 'set':
        return 'tt'
    return f'(run {mws} {clist([crxn(s) for s in out["init"]])} {clist([cop(o) for o in out["ops"]])})'

def nontrivial(case, out):
    if case['kind'] == 'set':
        return any(out.get('oks', [])) and out.get('reads', [[]])[0] != [s['X'] for s in out['init']]
    return any(out.get('oks', [])) and out.get('final') != out.get('init')

def classify(case, out):
    ks = ['kind:' + case['kind'], 'phases:' + (''.join(case['phases']) or 'none')]
    for o, ok in zip(out.get('ops', []), out.get('oks', [])):
        ks.append(f'op:{o[0]}:{"ok" if ok else "raise"}')
    for e in out.get('errors', []):
        ks.append('error:' + e)
    for o in out.get('skipped', []):
        ks.append('skipped-degenerate:' + o[0])
    return ks

# ------------------------------------------------------------------ direct oracle (search step)
def close(a, b, tol=1e-9):
    return all(abs(x - y) <= tol * max(1, abs(x), abs(y)) for x, y in zip(a, b)) and len(a) == len(b)

def state(r):
    return (tuple(np.asarray(r._stoichiometry.to_array(), float).reshape(-1)), flat_ridx(r), float(r.X), r._basis, tuple(r._phases))

def state_close(a, b):
    return close(a[0], b[0]) and a[1] == b[1] and close([a[2]], [b[2]]) and a[3:] == b[3:]

def oracle(case):
    """The property evaluated directly on the implementation.  Returns a message or None."""
    e = env(); tmo = e['tmo']
    objs = build(case)
    if case['kind'] == 'set':
        pr, handles, hdesc = set_handles(tmo, objs)
        n = len(objs)
        for op in case['ops']:
            before = [float(x) for x in pr.X]
            try:
                set_apply(pr, handles, op)
            except Exception:
                continue
            cur = [float(x) for x in pr.X]
            if op[0] == 'reduce' and all(float(r.X) > 0 for r in objs) and all(x > 0 for x in cur):
                red = pr.reduce()
                if not close(set_conv(red, case), set_conv(pr, case)):
                    return 'set: reduce() does not act like the set it combines'
            if op[0] == 'reduce':
                if cur != before: return f'set: reduce() changed the conversions of the set it was called on ({before} -> {cur})'
            if op[0] in ('item_set', 'set_elem') and abs(cur[op[1]] - op[2]) > 1e-12:
                return f'set: conversion {op[2]} assigned through {op[0]} reads back as {cur[op[1]]}'
            if op[0] == 'set_all' and len(cur) == (len(op[1]) if isinstance(op[1], list) else len(cur)):
                want_all = op[1] if isinstance(op[1], list) else [op[1]] * len(cur)
                if len(want_all) == len(cur) and any(abs(a - b) > 1e-12 for a, b in zip(cur, want_all)):
                    return f'set: conversions {want_all} assigned to the set read back as {cur}'
            if op[0] in ('item_mul', 'item_div'):
                k = op[2] if op[0] == 'item_mul' else 1. / op[2]
                for j, (b, c) in enumerate(zip(before, cur)):
                    if j == op[1] and abs(c - b * k) > 1e-12 * max(1, abs(c)):
                        return f'set: item {j} scaled in place by {k} has X={c}, expected {b * k}'
                    if j != op[1] and c != b:
                        return f'set: scaling item {op[1]} in place changed the conversion of its sibling {j} ({b} -> {c})'
            for h, d in zip(handles, hdesc):
                got = [float(x) for x in np.atleast_1d(h.X)]
                want = cur if d[0] == 'set' else ([cur[d[1]]] if d[0] == 'item' else cur[d[1]:d[1] + d[2]])
                if got != want:
                    return f'set: after {op} the handle {d} obtained earlier reads {got}, the set holds {want}'
            fresh = [float(it.X) for it in pr]
            if fresh != cur: return f'set: fresh items read {fresh}, the set holds {cur}'
        # the set reacts with the conversions it shows
        want = [F(0)] * len(case['feed'])
        for r, x in zip(objs, pr.X):
            c = conv(r, case)
            want = [w + (ci / frac(r.X) * frac(x) if r.X else F(0)) for w, ci in zip(want, c)]
        if all(r.X for r in objs):
            got = set_conv(pr, case)
            if not close(got, want): return f'set: the set does not react with the conversions it reports'
        return None
    store = list(objs)
    for op in case['ops']:
        name = op[0]; n = len(store); i = op[1] % n
        if degenerate(store, resolved_only(store, op)): continue
        before = [state(r) for r in store]
        a = store[i]
        try:
            if name in ('iadd', 'isub', 'imul', 'idiv'):
                bin_name = name[1:]
                ref_store = [r.copy() for r in store]
                try:
                    _, expected = apply_op(ref_store, [bin_name] + list(op[1:]))
                    exp_state = state(expected)
                except Exception as ex:
                    exp_state = type(ex).__name__
                try:
                    apply_op(store, op)
                    got = state(a)
                except Exception as ex:
                    got = type(ex).__name__
                if isinstance(exp_state, str) or isinstance(got, str):
                    if exp_state != got: return f'{name}: in-place gives {got}, binary form gives {exp_state}'
                elif not state_close(exp_state, got):
                    return f'{name}: in-place result differs from the binary form: {got} vs {exp_state}'
                for k, r in enumerate(store):
                    if k != i and state(r) != before[k]: return f'{name}: operand {k} was modified'
                continue
            if name == 'setx':
                apply_op(store, op); continue
            _, r = apply_op(store, op)
        except Exception as ex:
            # documented rejections (incompatible operands, k = 0, reactant not in the stoichiometry) are fine;
            # anything else means the operation that must return a new reaction did not
            if not isinstance(ex, (ValueError, ZeroDivisionError, RuntimeError)):
                return f'{name}: raised {type(ex).__name__}: {ex}'
            # a raise must leave every operand untouched
            for k, x in enumerate(store):
                if state(x) != before[k]: return f'{name}: raised and modified object {k}'
            continue
        for k, x in enumerate(store):
            if state(x) != before[k]: return f'{name}: operand {k} was modified ({before[k]} -> {state(x)})'
        if any(r is x for x in store): return f'{name}: did not return a new object'
        if name in ('add', 'sub'):
            b = store[op[2] % n]
            if has_rxn(b) and normalised(a) and normalised(b):
                bb = b.copy(a.basis)
                sgn = 1 if name == 'add' else -1
                if a.X + sgn * bb.X != 0:
                    lhs = conv(r, case)
                    rhs = [x + sgn * y for x, y in zip(conv(a, case), conv(bb, case))]
                    if not close(lhs, rhs): return f'{name}: (a{"+" if sgn > 0 else "-"}b)(feed) != a(feed){"+" if sgn > 0 else "-"}b(feed): {lhs} vs {rhs}'
                    if name == 'add' and a.X != 0:
                        back = r - b
                        if not close(conv(back, case), conv(a, case)): return '(a+b)-b does not act like a'
        if name in ('mul', 'div'):
            k = op[2] if name == 'mul' else 1 / op[2]
            if not close(conv(r, case), [k * x for x in conv(a, case)]): return f'{name}: k*a does not act like a with X*k'
        if name == 'neg':
            if not close(conv(r, case), [-x for x in conv(a, case)]): return 'neg: -a does not act like a with -X'
        if name == 'backwards':
            if r._reactant_index == a._reactant_index and op[2] is None:
                return 'backwards(): the reversed reaction kept the original reactant'
        store.append(r)
    return None

def shrink(case):
    import vf
    return vf.shrink_list(case, 'ops', oracle)

def finding_key(case, msg):
    return 'C17:' + msg.split(':')[0]
