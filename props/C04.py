"""C04 — a vapour-liquid flash honours its specifications and the equilibrium conditions.
Reuses the C03 harness (stubbed + replayed VLE calls) with the FULL comparison (flows, T, P, exception,
state at the raise, number of oracle calls) and adds the compute_phase_fraction_2N kernel (py_func)."""
import os
import numpy as np
os.environ.setdefault('NUMBA_CACHE_DIR', os.path.join(os.path.dirname(os.path.dirname(os.path.abspath(__file__))), '.cache', 'numba_C04'))   # see props/C08.py
from fractions import Fraction as F
from vf import q, qlist, clist, cbool, cnat, copt, frac, fr_json, VERIF, REPO
import C03

ID = 'C04'
COQ_DIR = 'C04'
EXTRA_COQ_DIRS = ('C03', 'C08')
COQ_HEADER = 'From V Require Import Common.Num C03.Model C04.KBase C04.Model C04.Flx.\nFrom V Require C04.Setup.\nOpen Scope Q_scope.'
MODEL_FILES = ('KBase.v', 'Model.v', 'Flx.v', 'Setup.v')

def translate():
    """tie T: regenerate coq/C04/Gen_kernels.v from the current source; Proofs.v proves generated = hand-written by reflexivity"""
    import importlib.util
    spec = importlib.util.spec_from_file_location('C04_kernels', os.path.join(VERIF, 'tr', 'C04_kernels.py'))
    m = importlib.util.module_from_spec(spec)
    spec.loader.exec_module(m)
    return m.generate(REPO)
CASE_TIMEOUT = 60
RULE = ('the VLE cases of C03 (every specification pair; stubbed solvers with adversarial outputs and real solvers replayed) compared on flows AND T, P; '
        'plus compute_phase_fraction_2N.py_func on dyadic (z1, z2, K1, K2) incl. K = 1 (zero denominator) against the Gallina closed form; '
        'plus one application of xVlogK_iter_2n / xVlogK_iter (with xy.py_func) with np.exp / np.log replaced in the module namespace by seeded rational stand-ins, '
        'rational gamma / phi models and (n != 2) a table Rachford-Rice solver, against the Gallina iteration maps instantiated with the same stand-ins. '
        'non-trivial = the call changed the stream or the kernel returned a value; distinct = distinct case hash')
ASSUMPTIONS = C03.ASSUMPTIONS[:3] + [
    'vapour fraction met within solver resolution: flexsolve.IQ_interpolation contract, not proved (measured by oracle()); the flows written belong to '
    'the returned T (P) when the solver returns its last evaluation point (C04_PV_flows_at_returned_point); the lucky-guess return of a bound '
    '(|V_bubble - V| < 1e-6) is outside the quantifier V in (0.02, 0.98) (Example C04_PV_lucky_guess_excluded)',
    'enthalpy / entropy clause: at least one volatile chemical present (the quantifier); without one VLE.__call__ stores P only (C04_PH_no_volatile)',
    'scaling clause: the solver oracles depend on the normalised composition only (orc_scaled)',
    'iso-fugacity at the solver tolerance rather than at an exact fixed point: flexsolve.aitken contract, not proved here',
    'kernel stand-in cases: where the rational model divides by an exact 0 and the float run (rounding residue) returns a value that is stable '
    'under a 2^-30 perturbation of the input, the case is not compared (float rounding is not modelled)']
TRUSTED = ['wrapper model coq/C03/Model.v hand-written from vle.py (as repaired by pending_fixes/C04_1..3)',
           'kernels: tr/C04_kernels.py (python ast -> Gallina, fail-closed subset) regenerates coq/C04/Gen_kernels.v from binary_phase_fraction.py / vle.py on every run; '
           'generated = hand-written is proved by reflexivity (C04_generated_kernels_agree); the stand-in correspondence runs the same functions against the code']

KS = [0.5, 2., 1., 0.25, 4., 1.5, 0.75, 2. ** -40, 3.]
ZS = [0.5, 0.25, 0.75, 0., 1., 0.125, 2.]

def gen_cases(rng, tier):
    n_stub, n_real, n_k = (170, 24, 60) if tier == 'quick' else (2500, 250, 600)
    cases = [C03.gen_vle_case(rng) for _ in range(n_stub)]
    cases += [C03.gen_real_case(rng) for _ in range(n_real)]
    cases += [gen_inert_hs_case(rng) for _ in range(10 if tier == 'quick' else 120)]
    cases += [{'kind': 'rr2', 'z': [rng.choice(ZS), rng.choice(ZS)], 'K': [rng.choice(KS), rng.choice(KS)]} for _ in range(n_k)]
    cases += [gen_xpkg_case(rng) for _ in range(16 if tier == 'quick' else 120)]
    nh = (24, 16) if tier == 'quick' else (300, 100)
    cases += [C03.gen_vleh_case(rng, 'stub') for _ in range(nh[0])] + [C03.gen_vleh_case(rng, 'real') for _ in range(nh[1])]
    cases += [gen_dom_case(rng) for _ in range(30 if tier == 'quick' else 150)]
    if os.environ.get('VERIF_PENDING'):
        cases += PENDING      # witnesses of defects whose fix (pending_fixes/) is not in /repo yet
    cases += [gen_iter_case(rng, 2) for _ in range(n_k)]
    cases += [gen_iter_case(rng, rng.choice([1, 3, 4])) for _ in range(n_k)]
    cases += [gen_flx_case(rng) for _ in range(80 if tier == 'quick' else 1200)]
    cases += [gen_iqsite_case(rng) for _ in range(24 if tier == 'quick' else 200)]
    cases += [gen_kbh_case(rng) for _ in range(40 if tier == 'quick' else 400)]
    return cases

# ---- the temperature domain of the bubble / dew point objects (equilibrium/domain.py) and what it does to a T,P flash
DOM_IDS = ['Propane', 'Butane', 'Hexane', 'Octane', 'Ethanol', 'Water']
DOM_MIX = [['Butane', 'Hexane', 'Octane'], ['Butane', 'Octane'], ['Propane', 'Hexane'], ['Propane', 'Butane', 'Octane'], ['Butane', 'Hexane'],
           ['Propane', 'Ethanol', 'Water'], ['Hexane', 'Octane'], ['Butane', 'Water'], ['Butane'], ['Propane', 'Butane', 'Hexane', 'Octane', 'Ethanol']]
_dom = {}
def dom_env():
    """a second chemical set with light members whose critical temperature (upper Psat limit) lies inside the property's
    T range (propane 369.8 K, butane 425.1 K); ideal package; never installed as the session default"""
    if not _dom:
        e = C03.env(); tmo = e['tmo']
        chems = tmo.Chemicals(DOM_IDS, cache=True)
        _dom['chems'] = chems
        _dom['ideal'] = tmo.Thermo(chems).ideal()
    return _dom

def gen_dom_case(rng, real=None):
    if (rng.random() < 0.35) if real is None else not real:
        # stand-in chemicals: only the Psat limits matter to vle_domain
        n = rng.randint(1, 5)
        tmins = [rng.choice([20., 85.5, 135.25, 178., 216.5, 273.125, 49.5, 50.]) for _ in range(n)]
        tmaxs = [rng.choice([369.75, 425.125, 507.5, 568.75, 647., 1000., 1200.5, 999.5]) for _ in range(n)]
        return {'kind': 'dom', 'real': False, 'tmins': tmins, 'tmaxs': tmaxs}
    ids = rng.choice(DOM_MIX)
    # little of the light members (keeps the bubble pressure below 1e6 Pa at 430-449 K), pressures mostly just below the bubble pressure
    z = [rng.choice([0.125, 0.25, 0.5]) if i in ('Propane', 'Butane') else rng.choice([1., 2., 4.]) for i in ids]
    return {'kind': 'dom', 'real': True, 'ids': ids, 'z': z, 'T': rng.choice([400., 430., 440., 445., 375., 390., 449.]),
            'fP': rng.choice([0.75, 0.8125, 0.875, 0.9375, 0.96875, 0.5, 0.25, 1.0625, -0.0625])}

def run_dom(case):
    import types
    from thermosteam.equilibrium.domain import vle_domain
    if not case['real']:
        chems = [types.SimpleNamespace(Psat=types.SimpleNamespace(Tmin=a, Tmax=b)) for a, b in zip(case['tmins'], case['tmaxs'])]
        lo, hi = vle_domain(chems)
        return {'tmins': case['tmins'], 'tmaxs': case['tmaxs'], 'dom': [float(lo), float(hi)]}
    d = dom_env()
    from thermosteam.equilibrium.bubble_point import BubblePoint
    chems = [d['chems'][i] for i in case['ids']]
    bp = BubblePoint(chems, d['ideal'])          # the object a VLE on these chemicals uses (memoised per chemicals / package)
    lo, hi = vle_domain(chems)
    return {'tmins': [float(c.Psat.Tmin) for c in chems], 'tmaxs': [float(c.Psat.Tmax) for c in chems], 'dom': [float(lo), float(hi)],
            'bp': [float(bp.Tmin), float(bp.Tmax)]}

def coq_dom(case, out):
    ts = [f'(dom_check {qlist(out["tmins"])} {qlist(out["tmaxs"])} {q(out["dom"][0])} {q(out["dom"][1])})']
    if 'bp' in out: ts.append(f'(dom_check {qlist(out["tmins"])} {qlist(out["tmaxs"])} {q(out["bp"][0])} {q(out["bp"][1])})')
    return '(' + ' && '.join(ts) + ')'

def oracle_dom(case):
    """ideal package, T,P flash of light + heavy hydrocarbons (T possibly above the critical temperature of the lightest) against an
    independent Raoult's-law Rachford-Rice solution with the same Psat(T)"""
    if not case['real'] or len(case['ids']) < 2: return None
    d = dom_env(); tmo = C03.env()['tmo']
    chems = [d['chems'][i] for i in case['ids']]
    T = case['T']
    z = np.array(case['z'], float); F = z.sum(); zn = z / F
    Ps = np.array([float(c.Psat(T)) for c in chems])
    Pb = float((zn * Ps).sum()); Pd = 1. / float((zn / Ps).sum())
    P = Pd + case['fP'] * (Pb - Pd)
    if not 2e4 <= P <= 1e6: return None
    s = tmo.Stream(None, T=300., P=101325., thermo=d['ideal'], **{i: float(x) for i, x in zip(case['ids'], z)})
    try:
        s.vle(T=T, P=P)
    except Exception as ex:
        return f'vle(TP) ideal package {case["ids"]} z={case["z"]} T={T} P={P:.1f}: raised {type(ex).__name__}: {ex}'
    if s.T != T or s.P != P: return f'vle(TP) ideal package {case["ids"]}: specified T={T}, P={P} but the stream has T={s.T}, P={s.P}'
    K = Ps / P
    V = raoult_rr(zn, K)
    v = F * zn * K * V / (1. + V * (K - 1.)) if 0. < V < 1. else (z * V)
    got = np.array([float(s.imol['g', i]) for i in case['ids']])
    if np.abs(got - v).max() > 1e-4 * max(1., F):
        return (f'vle(TP) ideal package {case["ids"]} z={case["z"]} T={T} P={P:.1f} (Raoult bubble {Pb:.1f}, dew {Pd:.1f}; upper Psat limits '
                f'{[round(float(c.Psat.Tmax), 1) for c in chems]}): vapour flows {got.round(6).tolist()} differ from the Raoult Rachford-Rice solution {np.round(v, 6).tolist()}')
    return None

def search_cases(rng, tier):
    """extra inputs for the oracle when an obligation or the correspondence broke (not part of the correspondence)"""
    return [gen_kbh_case(rng) for _ in range(80)] + [gen_dom_case(rng, True) for _ in range(150)] + [gen_inert_hs_case(rng) for _ in range(60)]

HS_MIX = [{'Water': 10., 'Ethanol': 5., 'Methanol': 3.}, {'Water': 30., 'Ethanol': 10.}, {'Ethanol': 8., 'Methanol': 8.}, {'Water': 20., 'Methanol': 5.}]
def gen_inert_hs_case(rng):
    """real solvers: an enthalpy / entropy specification on volatile chemicals WITH a small amount of non-condensable gas and / or
    non-volatile solute, target values over the whole range incl. low and high vapour fractions -- the brackets of the T,H / T,S /
    P,H / P,S searches are widened for such feeds (the gas keeps a vapour phase alive above the bubble pressure of the rest)"""
    mix = dict(rng.choice(HS_MIX))
    Fv = sum(mix.values())
    w = rng.choice(['gas', 'gas', 'gas', 'solute', 'both'])
    if w in ('gas', 'both'): mix[rng.choice(['N2', 'CO2'])] = Fv * rng.choice([0.0078125, 0.03125, 0.0625])
    if w in ('solute', 'both'): mix[rng.choice(['Glucose', 'Salt_'])] = Fv * rng.choice([0.015625, 0.0625])
    n = len(C03.IDS)
    l = [0.] * n; g = [0.] * n
    for k, v in mix.items():
        (g if k in ('N2', 'CO2') and rng.random() < 0.7 else l)[C03.IDS.index(k)] = v
    sk = rng.choice(['TS', 'TS', 'TH', 'TH', 'PH', 'PS'])
    spec = {'T': rng.choice([345., 350., 360.])} if sk[0] == 'T' else {'P': rng.choice([101325., 60000., 202650.])}
    fr = rng.choice([0.03125, 0.0625, 0.125, 0.25, 0.375, 0.5, 0.75, 0.9375])
    gas = sum(v for k, v in mix.items() if k in ('N2', 'CO2')) / Fv
    if sk[0] == 'T' and gas * 0.5 >= fr: fr = 0.125      # (root above twice the bubble pressure of the rest: witnesses C04:vle(TH/TS)-root-above-2Pbubble)
    spec[sk[1]] = ['frac', fr]
    return {'kind': 'vle', 'mode': 'real', 'phases': 'lg', 'l': l, 'g': g, 's': [0.] * n, 'spec': spec, 'sk': sk,
            'T0': 298.15, 'P0': 101325., 'co': None, 'draws': []}

CLS = {'DortmundActivityCoefficients': 1, 'IdealActivityCoefficients': 2, 'IdealFugacityCoefficients': 1,
       'MockPoyintingCorrectionFactors': 1}
XMIX = [{'Water': 60., 'Ethanol': 40.}, {'Water': 55., 'Ethanol': 25., 'Methanol': 20.}, {'Ethanol': 8., 'Methanol': 8.},
        {'Water': 30., 'Methanol': 10.}, {'Water': 5., 'Ethanol': 10., 'Methanol': 4.}]
def gen_xpkg_case(rng):
    """flashes with TWO property packages (default = Dortmund activity coefficients, and its .ideal()) over the SAME Chemical
    objects, in sequence in one process, both orders: the memoised BubblePoint / DewPoint objects of VLE._setup"""
    mix = rng.choice(XMIX)
    first = rng.choice('DI'); other = 'I' if first == 'D' else 'D'
    steps = [{'pkg': first, 'mix': mix}, {'pkg': other, 'mix': mix}]
    for _ in range(rng.randint(0, 3)):
        steps.append({'pkg': rng.choice('DI'), 'mix': rng.choice([mix, mix, rng.choice(XMIX)])})
    for st in steps:
        st['T'] = rng.choice([345., 355., 360., 350.]); st['P'] = rng.choice([101325., 101325., 80000.])
    return {'kind': 'xpkg', 'steps': steps}

# Witnesses of defects for which a fix is proposed in pending_fixes/ and not yet in /repo (run with VERIF_PENDING=1).
PENDING = []
# Stream.link_with(other, TP=True) replaced the thermal condition but kept the equilibrium caches built with the old one
# (repaired by /repo 3de5c56): regression cases
LINK_CORPUS = [
    {'kind': 'vleh', 'mode': 'real', 'phases': 'lg', 'l': [30., 10., 0., 0., 0., 0., 0.], 'g': [0.] * 7, 's': [0.] * 7, 'T0': 300., 'P0': 101325.,
     'co': None, 'draws': [0.5], 'spec': {}, 'sk': 'TP',
     'ops': [['vle', 'TP', {'T': 360., 'P': 101325.}], ['link', [10., 30., 0., 0., 0., 0., 0.], [0.] * 7, 310., 90000., True],
             ['vle', 'TP', {'T': 365., 'P': 101325.}]]},
    {'kind': 'vleh', 'mode': 'real', 'phases': 'lg', 'l': [0.] * 7, 'g': [0.] * 7, 's': [0.] * 7, 'T0': 300., 'P0': 101325.,
     'co': None, 'draws': [0.5], 'spec': {}, 'sk': 'PV',
     'ops': [['link', [10., 30., 5., 0., 0., 0., 0.], [0.] * 7, 310., 90000., True], ['vle', 'PV', {'P': 101325., 'V': 0.5}]]},
]

def xpkg_env():
    e = C03.env()
    if 'ideal' not in e: e['ideal'] = e['thermo'].ideal()
    return e

def run_xpkg(case, observe=True):
    e = xpkg_env(); tmo = e['tmo']
    from thermosteam.equilibrium.bubble_point import BubblePoint
    from thermosteam.equilibrium.dew_point import DewPoint
    BubblePoint._cached.clear(); DewPoint._cached.clear()      # a process that has flashed nothing yet
    out = []; keep = []
    for st in case['steps']:
        thermo = e['thermo'] if st['pkg'] == 'D' else e['ideal']
        s = tmo.MultiStream(None, T=300., P=101325., phases='lg', thermo=thermo)
        for k, v in st['mix'].items(): s.imol['l', k] = v
        s.vle(T=st['T'], P=st['P'])
        v = s.vle; bp = v._bubble_point; dp = v._dew_point; keep += [bp, dp, s]
        cname = lambda o: type(o).__name__
        out.append({'index': [int(i) for i in v._index],
                    'key': [cname(thermo.Gamma(())) if False else thermo.Gamma.__name__, thermo.Phi.__name__, thermo.PCF.__name__],
                    'bubble': [id(bp), cname(bp.gamma), cname(bp.phi), cname(bp.pcf)],
                    'dew': [id(dp), cname(dp.gamma), cname(dp.phi), cname(dp.pcf)],
                    'used_gamma': cname(v._gamma),
                    'g': C03.fl(s.imol['g'].to_array()), 'l': C03.fl(s.imol['l'].to_array())})
    for which in ('bubble', 'dew'):
        seen = {}
        for o in out:
            o[which][0] = seen.setdefault(o[which][0], len(seen))
    return {'steps': out}

def coq_xpkg(case, out):
    keys = clist([f'({clist(o["index"], cnat)}, {cnat(CLS[o["key"][0]])}, {cnat(CLS[o["key"][1]])}, {cnat(CLS[o["key"][2]])})' for o in out['steps']])
    def exp(which):
        return clist([f'(Ok ({cnat(o[which][0])}, ({cnat(CLS[o[which][1]])}, {cnat(CLS[o[which][2]])}, {cnat(CLS[o[which][3]])})))' for o in out['steps']])
    used = all(o['used_gamma'] == o['bubble'][1] for o in out['steps'])      # VLE._gamma is the BubblePoint's gamma
    return f'(setup_objects_check {keys} {exp("bubble")} && setup_objects_check {keys} {exp("dew")} && {cbool(used)})'

def oracle_xpkg(case):
    e = xpkg_env(); tmo = e['tmo']
    out = run_xpkg(case)['steps']
    ch = e['thermo'].chemicals
    for st, o in zip(case['steps'], out):
        idx = o['index']; T, P = st['T'], st['P']
        tot = np.array(o['g']) + np.array(o['l']); F = tot.sum()
        Psat = np.array([float(ch.tuple[i].Psat(T)) for i in idx])
        g = np.array([o['g'][i] for i in idx]); l = np.array([o['l'][i] for i in idx])
        if st['pkg'] == 'I':
            z = np.array([tot[i] for i in idx]) / F; K = Psat / P
            V = raoult_rr(z, K)
            v = F * z * K * V / (1. + V * (K - 1.))
            if np.abs(g - v).max() > 1e-4 * max(1., F):
                return (f'ideal package after {[s_["pkg"] for s_ in case["steps"]]}: vapour flows {g.tolist()} differ from the Raoult '
                        f'Rachford-Rice solution {v.tolist()} (T={T}, P={P}, mix={st["mix"]})')
        elif g.sum() > 1e-9 * F and l.sum() > 1e-9 * F:
            x = l / l.sum(); y = g / g.sum()
            gamma = tmo.equilibrium.DortmundActivityCoefficients([ch.tuple[i] for i in idx])
            fl_ = x * np.asarray(gamma(x, T)) * Psat; fg = y * P
            if np.abs(fl_ - fg).max() > 2e-3 * P:
                return (f'activity-coefficient package after {[s_["pkg"] for s_ in case["steps"]]}: liquid fugacities {fl_.tolist()} differ from '
                        f'vapour fugacities {fg.tolist()} (T={T}, P={P}, mix={st["mix"]})')
    return None

XS = [0.5, 0.25, 0.75, 0.125, 1., 0., -0.25, 2.]
LS = [0., 0.5, -0.5, 1., -1., 2., 0.25]
def gen_iter_case(rng, n):
    """one application of xVlogK_iter_2n (n = 2) or xVlogK_iter with rational stand-ins for exp / log / gamma / phi"""
    z = [rng.choice([0.5, 0.25, 0.125, 0.375, 1.]) for _ in range(n)]
    if rng.random() < 0.6:
        tot = sum(z); z = [v / tot for v in z] if tot in (1., 2., 0.5, 4.) else z
    x = [rng.choice(XS) for _ in range(n)]
    Vret = rng.choice([0.5, 0.25, 0., 1., 0.75, 0.125])
    # The clips at 1e-16 leave the dyadic grid; the cases that reach them are kept well conditioned (no denominator or
    # 1 + V (K - 1) whose sign / zero is decided by rounding), everything else stays exact.
    if n == 2:
        gam = [rng.choice([1., 0.5, 2.]), rng.choice([0., 0.5, 1.])]
        phi = list(rng.choice([(1., 0.), (0.5, 0.), (2., 0.5), (1., -0.5), (2., -0.5), (0.5, -0.5), (1., -2.), (0.5, -1.)]))
        if phi[1] < -0.5: x = [abs(v) for v in x]   # exact zero denominators only from exactly representable y
    else:
        gam = [rng.choice([1., 0.5, 2.]), rng.choice([0., 0.5, -0.5, 1.])]
        phi = [rng.choice([1., 0.5, 2.]), rng.choice([0., 0.5, -1., -2.])]
        if phi[1] < 0 or gam[1] < 0: Vret = rng.choice([0.25, 0.5, 0.75])
    if any(v < 0 for v in x):
        gam[1] = 0.; phi[1] = 0.
    return {'kind': 'it2' if n == 2 else 'itn', 'n': n, 'z': z,
            'x': x, 'V': rng.choice([0.5, 0.25, 0., 1., 1.5, -0.5, 0.75]),
            'l': [rng.choice(LS) for _ in range(n)], 'pcf': [rng.choice([0.5, 1., 2., 4., 0.25]) for _ in range(n)],
            'E': [rng.choice([1., 2., 0.5, 1.5]), rng.choice([1., 2., 4.])],      # exp l := (a + l) / b
            'L': [rng.choice([0., 1., 0.5]), rng.choice([1., 2., 0.5])],            # log k := (k - c) / d
            'gam': gam,                                                              # gamma_i := g0 + g1 x_i
            'phi': phi,                                                              # phi_i := p0 + p1 y_i
            'Vret': Vret}                   # what the Rachford-Rice solver returns (n != 2)

class NpProxy:
    def __init__(self, exp, log):
        self.exp = exp; self.log = log
    def __getattr__(self, name):
        return getattr(np, name)

def run_iter(case):
    C03.env()
    import types
    import thermosteam.equilibrium.vle as vm
    a, b = case['E']; c, d = case['L']; g0, g1 = case['gam']; p0, p1 = case['phi']
    n = case['n']
    saved = (vm.np, vm.xy, vm.binary)
    real_binary = vm.binary
    vm.np = NpProxy(lambda v: (a + v) / b, lambda v: (v - c) / d)
    vm.xy = saved[1].py_func if hasattr(saved[1], 'py_func') else saved[1]
    vm.binary = types.SimpleNamespace(
        compute_phase_fraction_2N=real_binary.compute_phase_fraction_2N.py_func,
        solve_phase_fraction_Rashford_Rice=lambda z, Ks, V, za, zb: case['Vret'])
    f_gamma = lambda x, T: g0 + g1 * x
    f_phi = lambda y, T, P: p0 + p1 * y
    w = np.array(case['x'] + [case['V']] + case['l'], float)
    try:
        try:
            if n == 2:
                r = vm.xVlogK_iter_2n(w, np.array(case['pcf'], float), 350., 101325., np.array(case['z'], float),
                                      f_gamma, (), f_phi, 2, None, None)
            else:
                r = vm.xVlogK_iter(w, np.array(case['pcf'], float), 350., 101325., np.array(case['z'], float), 0., 0.,
                                   f_gamma, (), f_phi, n, None, None)
            return {'w': [float(v) for v in r]}
        except (FloatingPointError, ZeroDivisionError):
            return {'w': None}
    finally:
        vm.np, vm.xy, vm.binary = saved

def run_iter_checked(case):
    """run_iter, plus an ill-conditioning probe: the same call with the composition guess moved by 2^-30 relative; a result that
    moves by more than 1e-3 relative came out of a cancellation (an exact zero in rationals, a rounding residue in floats)"""
    out = run_iter(case)
    if out.get('w') is not None:
        try:
            o2 = run_iter(dict(case, x=[v * (1. + 2. ** -30) for v in case['x']]))
        except Exception:
            o2 = {'w': None}
        if o2.get('w') is None or any(abs(a - b) > 1e-3 * max(1., abs(a)) for a, b in zip(out['w'], o2['w'])):
            out['ill'] = True
        else:
            out['stable'] = True
    return out

def ill_conditioned(out):
    if out.get('ill'): return True
    """a denominator that is an exact zero in rational arithmetic but a rounding residue in floats (result ~ 1e15):
    float rounding is not modelled, such cases are counted and not compared"""
    return out['w'] is not None and max(abs(v) for v in out['w']) > 1e9

def coq_iter(case, out):
    if ill_conditioned(out): return 'true'
    a, b = case['E']; c, d = case['L']; g0, g1 = case['gam']; p0, p1 = case['phi']
    n = case['n']
    E = f'(std_E {q(a)} {q(b)})'; L = f'(std_L {q(c)} {q(d)})'
    fns = f'{E} {L} (std_gamma {q(g0)} {q(g1)}) (std_phi {q(p0)} {q(p1)})'
    w = f'(mkwn {qlist(case["x"])} {q(case["V"])} {qlist(case["l"])})'
    exp = 'None' if out['w'] is None else f'(Some (mkwn {qlist(out["w"][:n])} {q(out["w"][n])} {qlist(out["w"][n + 1:])}))'
    tail = f'{w} {qlist(case["pcf"])} {q(350.)} {q(101325.)} {qlist(case["z"])}'
    run = f'(iter2n {fns} {tail})' if n == 2 else f'(itern {fns} (fun _ _ _ _ _ => {q(case["Vret"])}) {tail} 0 0)'
    if out['w'] is not None and out.get('stable'):
        return f'(res_zdiv {run} || itern_check {run} {exp})'
    return f'(itern_check {run} {exp})'


# ---- flexsolve.IQ_interpolation (the bracketing solver behind every V / H / S specification) against coq/C04/Flx.v
FLX_C = [0., 1., -1., 0.5, -0.5, 2., -2., 0.25, 3., -3., 0.125]
FLX_X = [0., 1., -1., 2., -2., 0.5, 1.5, -1.5, 3., 4., 0.25, 8., -4., 300., 350., 400.]
FLX_TOL = [2. ** -10, 2. ** -14, 2. ** -20, 2. ** -24, 2. ** -30, 0., 1., -1.]
def _cubic(c, x):
    return c[0] + x * (c[1] + x * (c[2] + x * c[3]))
def gen_flx_case(rng):
    """cubic residuals with dyadic coefficients; brackets with and without a sign change, in both orientations; the
    end values given (exactly f's) or left to the solver; a guess inside, outside or absent; tolerances incl. 0 and
    negative; maxiter incl. 0; the three optional checks mostly off (the way vle.py calls it)"""
    while True:
        c = [rng.choice(FLX_C) for _ in range(4)]
        if rng.random() < 0.3: c[3] = 0.
        if rng.random() < 0.15: c[2] = c[3] = 0.
        if any(c[1:]): break
    x0, x1 = rng.choice(FLX_X), rng.choice(FLX_X)
    if rng.random() < 0.7:      # look for a sign change (mostly-valid stream)
        for _ in range(20):
            if _cubic(c, x0) * _cubic(c, x1) < 0: break
            x0, x1 = rng.choice(FLX_X), rng.choice(FLX_X)
    g = rng.random()
    guess = None if g < 0.4 else (x0 + (x1 - x0) * rng.choice([0.5, 0.25, 0.75, 0.125])) if g < 0.8 else rng.choice(FLX_X)
    return {'kind': 'flx', 'c': c, 'x0': x0, 'x1': x1,
            'y0': rng.random() < 0.6, 'y1': rng.random() < 0.6, 'guess': guess,
            'xtol': rng.choice(FLX_TOL), 'ytol': rng.choice(FLX_TOL[:6] if rng.random() < 0.85 else FLX_TOL),
            'maxiter': rng.choice([0, 1, 2, 3, 5, 8, 20, 20, 50]),
            'checkroot': rng.random() < 0.15, 'checkiter': rng.random() < 0.25, 'checkbounds': rng.random() < 0.25}

def run_flx(case):
    import flexsolve as flx
    c = case['c']; ys = []
    def f(x):
        y = _cubic(c, x); ys.append(y); return y
    y0 = _cubic(c, case['x0']) if case['y0'] else None
    y1 = _cubic(c, case['x1']) if case['y1'] else None
    try:
        x = flx.IQ_interpolation(f, case['x0'], case['x1'], y0, y1, case['guess'], case['xtol'], case['ytol'], (),
                                 case['maxiter'], case['checkroot'], case['checkiter'], case['checkbounds'])
        out = {'x': float(x), 'err': None}
    except ValueError: out = {'x': None, 'err': 'EValue'}
    except RuntimeError: out = {'x': None, 'err': 'ERuntime'}
    except (ZeroDivisionError, FloatingPointError): out = {'x': None, 'err': 'EZeroDiv'}
    out['calls'] = len(ys)
    # exact rationals decide signs and tolerance tests in the model; a residual at rounding level (or within rounding of a
    # tolerance) is decided by rounding in the implementation: those runs are counted, not compared
    tols = [abs(case['ytol'])]
    scale = max(1., max(abs(v) for v in c)) * max(1., abs(case['x0']), abs(case['x1'])) ** 3
    out['ill'] = any(abs(y) < 1e-9 * scale or any(abs(abs(y) - t) < 1e-9 * scale for t in tols) for y in ys[:-1]) or \
                 (bool(ys) and abs(ys[-1]) < 1e-13 * scale and ys[-1] != 0.)
    return out

def coq_flx(case, out):
    if out['ill']: return 'true'
    c = case['c']
    cfg = f'(mkiqcfg {q(case["xtol"])} {q(case["ytol"])} {cbool(case["checkroot"])} {cbool(case["checkiter"])} {cbool(case["checkbounds"])})'
    oy0 = copt(_cubic(c, case['x0']) if case['y0'] else None, q)
    oy1 = copt(_cubic(c, case['x1']) if case['y1'] else None, q)
    exp = f'(Err {out["err"]})' if out['err'] else f'(Ok ({q(out["x"])}, {cnat(out["calls"])}))'
    return (f'(C04.Flx.flx_check {q(c[0])} {q(c[1])} {q(c[2])} {q(c[3])} {cfg} {cnat(case["maxiter"])} {q(case["x0"])} {q(case["x1"])} '
            f'{oy0} {oy1} {copt(case["guess"], q)} {exp})')

# ---- the real IQ_interpolation calls made by vle.py (V / H / S specifications on database chemicals): arguments against the
#      model's call-site table, the recorded residual against the Flx model
SITE_MIX = [{'Water': 30., 'Ethanol': 10.}, {'Water': 5., 'Ethanol': 10., 'Methanol': 4.}, {'Ethanol': 8., 'Methanol': 8.},
            {'Water': 20., 'Methanol': 5.}, {'Water': 12., 'Ethanol': 3., 'Methanol': 9.}]
def gen_iqsite_case(rng):
    mix = rng.choice(SITE_MIX); n = len(C03.IDS)
    l = [0.] * n; g = [0.] * n
    scale = rng.choice([1., 0.5, 4.])
    for k, v in mix.items():
        fr = rng.choice([0., 0.25, 1., 0.5]); i = C03.IDS.index(k)
        l[i] = v * scale * (1 - fr); g[i] = v * scale * fr
    sk = rng.choice(['TV', 'PV', 'PV', 'TH', 'TS', 'PH', 'PS'])
    spec = {'T': rng.choice([340., 350., 355., 360.])} if sk[0] == 'T' else {'P': rng.choice([101325., 50000., 202650.])}
    spec[sk[1]] = rng.choice([0.5, 0.25, 0.75, 0.125, 0.875]) if sk[1] == 'V' else ['frac', rng.choice([0.25, 0.5, 0.75, 0.375])]
    return {'kind': 'iqsite', 'mode': 'real', 'phases': 'lg', 'l': l, 'g': g, 's': [0.] * n, 'spec': spec, 'sk': sk,
            'T0': 298.15, 'P0': 101325., 'co': None, 'draws': []}

def run_iqsite(case):
    import types, flexsolve
    e = C03.env(); vm = e['vm']
    s = C03.build_stream(case); spec = C03.resolve_spec(case, s)
    calls = []
    def IQ(f, x0, x1, y0=None, y1=None, x=None, xtol=0., ytol=5e-8, args=(), maxiter=50, checkroot=False, checkiter=True, checkbounds=True):
        rec = {'x0': float(x0), 'x1': float(x1), 'y0': None if y0 is None else float(y0), 'y1': None if y1 is None else float(y1),
               'guess': None if x is None else float(x), 'xtol': float(xtol), 'ytol': float(ytol), 'maxiter': int(maxiter),
               'checkroot': bool(checkroot), 'checkiter': bool(checkiter), 'checkbounds': bool(checkbounds), 'pts': []}
        def g(pt, *a):
            y = f(pt, *a); rec['pts'].append([float(pt), float(y)]); return y
        ret = flexsolve.IQ_interpolation(g, x0, x1, y0, y1, x, xtol, ytol, args, maxiter=maxiter, checkroot=checkroot, checkiter=checkiter, checkbounds=checkbounds)
        rec['ret'] = float(ret); calls.append(rec)
        return ret
    p = C03.Patches()
    p.set(vm, 'flx', types.SimpleNamespace(IQ_interpolation=IQ, aitken=flexsolve.aitken))
    try:
        kw = {k: (np.array(v) if isinstance(v, list) else v) for k, v in spec.items()}
        try: s.vle(**kw); err = None
        except Exception as ex: err = type(ex).__name__
    finally:
        p.undo()
    out = {'calls': calls, 'err': err}
    ill = False
    for r in calls:
        ys = [y for _, y in r['pts']]
        sc_ = max(1., abs(r['y0'] or 0.), abs(r['y1'] or 0.))
        ill = ill or r['y0'] is None or r['y1'] is None or any(abs(y) < 1e-9 * sc_ or abs(abs(y) - r['ytol']) < 1e-9 * sc_ for y in ys[:-1])
        # the recorded residual must be a function of its argument for the table to stand for it
        seen = {}
        for x_, y_ in r['pts']:
            if x_ in seen and abs(seen[x_] - y_) > 1e-9 * sc_: ill = True
            seen[x_] = y_
    out['ill'] = ill
    return out

def coq_iqsite(case, out):
    if out['ill'] or not out['calls']: return 'true'
    terms = []
    for r in out['calls']:
        cfg = f'(mkiqcfg {q(r["xtol"])} {q(r["ytol"])} {cbool(r["checkroot"])} {cbool(r["checkiter"])} {cbool(r["checkbounds"])})'
        tab = clist(r['pts'], lambda pv: f'({q(pv[0])}, {q(pv[1])})')
        terms.append(f'(C04.Flx.iqsite_check Site{case["sk"]} {cfg} {cnat(r["maxiter"])} {q(r["x0"])} {q(r["x1"])} {q(r["y0"])} {q(r["y1"])} '
                     f'{copt(r["guess"], q)} {tab} {q(r["ret"])} {cnat(len(r["pts"]))})')
    return '(' + ' && '.join(terms) + ')'


# ---- histories of flashes over several streams / property packages that list the SAME chemical objects in different orders, the
#      material of a stream changing between calls: VLE._setup, the BubblePoint / DewPoint constructor caches and the K-value base
#      handed to _solve_v_fixed_point, against coq/C04/Setup.v
KB_T = [350., 355., 360.]
KB_FLOW = [10., 15., 20., 30., 40., 55., 60., 70., 5.]
KB_F = [0.5, 0.25, 0.75, 0.0625, 0.9375, 0.375, 0.625, 1.25, -0.25]
_kb = {}
def kb_thermo(perm, pkg):
    """a package over the chemical OBJECTS of the C03 environment listed in the order perm; 'D' = activity coefficients, 'I' = .ideal()"""
    e = C03.env(); tmo = e['tmo']
    key = tuple(perm)
    if key not in _kb:
        if list(perm) == list(range(len(C03.IDS))):
            th = e['thermo']
        else:
            objs = e['thermo'].chemicals.tuple
            th = tmo.Thermo(tmo.Chemicals([objs[i] for i in perm]))
        _kb[key] = {'D': th, 'I': th.ideal()}
    return _kb[key][pkg]

def gen_kbh_case(rng):
    n = len(C03.IDS)
    streams = []
    for _ in range(rng.randint(1, 3)):
        perm = list(range(n))
        r = rng.random()
        if r < 0.35: pass
        elif r < 0.6: perm[:3] = rng.sample(perm[:3], 3)          # the volatile chemicals permuted, the rest in place
        else: rng.shuffle(perm)
        streams.append({'perm': perm, 'pkg': rng.choice('DI')})
    if len(streams) >= 2 and rng.random() < 0.6: streams[1]['pkg'] = streams[0]['pkg']      # same classes, (mostly) another order
    ops = []; last = {}
    for _ in range(rng.randint(2, 5)):
        si = rng.randrange(len(streams)) if not ops or rng.random() < 0.5 else ops[-1]['s']
        r = rng.random()
        if r < 0.6: ids = rng.sample([0, 1, 2], 2)
        elif r < 0.9: ids = [0, 1, 2]
        else: ids = [rng.choice([0, 1, 2])]
        if ops and rng.random() < 0.3: mix = dict(ops[-1]['mix'])          # the same material again (possibly on another stream)
        else:
            mix = {str(i): rng.choice(KB_FLOW) for i in sorted(ids)}
            if rng.random() < 0.2: mix[str(rng.choice([3, 4]))] = rng.choice([0.125, 0.5])        # a little non-condensable gas
            if rng.random() < 0.15: mix[str(rng.choice([5, 6]))] = rng.choice([0.25, 1.])         # a little non-volatile solute
        T = last[si] if si in last and rng.random() < 0.65 else rng.choice(KB_T)     # a unit re-fed at an unchanged operating temperature
        last[si] = T
        op = {'s': si, 'mix': mix, 'T': T}
        if rng.random() < 0.8: op['sk'] = 'TP'; op['f'] = rng.choice(KB_F)
        else: op['sk'] = 'TV'; op['V'] = rng.choice([0.25, 0.5, 0.75])
        ops.append(op)
    return {'kind': 'kbh', 'streams': streams, 'ops': ops}

def kb_ref(pkg, gids, z, T):
    """bubble and dew pressure of the volatile part by an independent (modified) Raoult calculation; gids = chemical numbers"""
    e = C03.env(); tmo = e['tmo']
    objs = [e['thermo'].chemicals.tuple[i] for i in gids]
    Ps = np.array([float(c.Psat(T)) for c in objs])
    if pkg == 'I' or len(gids) < 2:
        return float((z * Ps).sum()), 1. / float((z / Ps).sum()), Ps, None
    gamma = tmo.equilibrium.DortmundActivityCoefficients(objs)
    Pb = float((z * np.asarray(gamma(z, T)) * Ps).sum())
    x = z.copy(); Pd = Pb
    for _ in range(500):
        g = np.asarray(gamma(x, T))
        Pd = 1. / float((z / (g * Ps)).sum())
        xn = z * Pd / (g * Ps); xn = xn / xn.sum()
        if np.abs(xn - x).max() < 1e-13: break
        x = xn
    return Pb, Pd, Ps, gamma

def kb_play(case, on_call=None):
    """run the history on the real code; yields per op (stream, VLE object, spec, reference data, exception name)"""
    e = C03.env(); tmo = e['tmo']
    from thermosteam.equilibrium.bubble_point import BubblePoint
    from thermosteam.equilibrium.dew_point import DewPoint
    BubblePoint._cached.clear(); DewPoint._cached.clear()      # a process that has flashed nothing yet
    n = len(C03.IDS)
    ss = [tmo.MultiStream(None, T=300., P=101325., phases='lg', thermo=kb_thermo(st['perm'], st['pkg'])) for st in case['streams']]
    for op in case['ops']:
        st = case['streams'][op['s']]; s = ss[op['s']]; perm = st['perm']
        arr = np.zeros(n)
        for k, v in op['mix'].items(): arr[perm.index(int(k))] = v
        s.imol['g'] = np.zeros(n); s.imol['l'] = arr
        vol = sorted(int(k) for k in op['mix'] if int(k) < 3)
        zv = np.array([op['mix'][str(i)] for i in vol], float); zv = zv / zv.sum()
        Pb, Pd, Ps, gamma = kb_ref(st['pkg'], vol, zv, op['T'])
        spec = {'T': op['T'], 'P': Pd + op['f'] * (Pb - Pd)} if op['sk'] == 'TP' else {'T': op['T'], 'V': op['V']}
        try: s.vle(**spec); err = None
        except Exception as ex: err = type(ex).__name__
        yield op, st, s, spec, (vol, zv, Pb, Pd, Ps, gamma), err

def run_kbh(case):
    e = C03.env(); vm = e['vm']
    calls = []
    orig_fp = vm.VLE.__dict__['_solve_v_fixed_point']
    def fixed_point(self, pcf_Psat_over_P, T, P, *a):
        calls.append([float(T), float(P), [float(x) for x in np.asarray(pcf_Psat_over_P, float).ravel()]])
        return orig_fp(self, pcf_Psat_over_P, T, P, *a)
    p = C03.Patches(); p.set(vm.VLE, '_solve_v_fixed_point', fixed_point)
    out = []; keep = []; objs = e['thermo'].chemicals.tuple
    gid = {id(c): i for i, c in enumerate(objs)}
    try:
        for op, st, s, spec, ref, err in kb_play(case):
            v = s.vle; perm = st['perm']
            def inst(o):
                if o is None: return None
                keep.append(o)
                gname = type(o.gamma).__name__
                # an instance is represented by its constructor arguments; thermo.Gamma(chemicals) degenerates to an IdealActivityCoefficients
                # object when at most one chemical carries groups (GroupActivityCoefficients.__new__): reported as the package's class
                if len(o.chemicals) <= 1 and gname == 'IdealActivityCoefficients': gname = kb_thermo(st['perm'], st['pkg']).Gamma.__name__
                return [id(o), [gid[id(c)] for c in o.chemicals], gname, type(o.phi).__name__, type(o.pcf).__name__]
            mix = op['mix']
            out.append({'nz': sorted(perm.index(int(k)) for k in mix), 'zl': any(int(k) in (3, 4) for k in mix), 'zh': any(int(k) == 6 for k in mix),
                        'N': None if err == 'NoEquilibrium' else int(v._N), 'err': err, 'index': [int(i) for i in v._index],
                        'bp': inst(getattr(v, '_bubble_point', None)), 'dp': inst(getattr(v, '_dew_point', None)),
                        'calls': calls[:]})
            del calls[:]
    finally:
        p.undo()
    for which in ('bp', 'dp'):
        seen = {}
        for o in out:
            if o[which]: o[which][0] = seen.setdefault(o[which][0], len(seen))
    # the vapour pressures, evaluated directly on the chemical objects at the temperatures the solver was called with
    tab = {}
    for o in out:
        for T, P, kb in o['calls']:
            for i in range(3): tab.setdefault((i, T), float(objs[i].Psat(T)))
    pk = []
    for st in case['streams']:
        th = kb_thermo(st['perm'], st['pkg']); ch = th.chemicals
        pk.append({'vle': [int(i) for i in ch._vle_index], 'cls': [th.Gamma.__name__, th.Phi.__name__, th.PCF.__name__]})
    return {'steps': out, 'tab': [[i, T, v] for (i, T), v in sorted(tab.items())], 'pkgs': pk}

def coq_kbh(case, out):
    tab = clist(out['tab'], lambda r: f'({cnat(r[0])}, {q(r[1])}, {q(r[2])})')
    pkgs = clist([f'({clist([f"({cnat(c)}, {cbool(k in pk["vle"])})" for k, c in enumerate(st["perm"])])}, '
                  f'({cnat(CLS[pk["cls"][0]])}, {cnat(CLS[pk["cls"][1]])}, {cnat(CLS[pk["cls"][2]])}))' for st, pk in zip(case['streams'], out['pkgs'])])
    ops = clist([f'(C04.Setup.mkfop {cnat(op["s"])} {clist(o["nz"], cnat)} {cbool(o["zl"])} {cbool(o["zh"])} '
                 f'{clist(o["calls"], lambda c: f"({q(c[0])}, {q(c[1])})")})' for op, o in zip(case['ops'], out['steps'])])
    def inst(x):
        return 'None' if x is None else f'(Some ({cnat(x[0])}, ({clist(x[1], cnat)}, {cnat(CLS[x[2]])}, {cnat(CLS[x[3]])}, {cnat(CLS[x[4]])})))'
    exp = clist([f'({copt(o["N"], cnat)}, {clist(o["index"], cnat)}, {inst(o["bp"])}, {inst(o["dp"])}, {clist([c[2] for c in o["calls"]], qlist)})'
                 for o in out['steps']])
    return f'(C04.Setup.setup_hist_check {tab} {pkgs} {ops} {exp})'

def oracle_kbh(case):
    """the equilibrium clauses after every call of the history, against independent Raoult / modified-Raoult calculations"""
    k = -1
    for op, st, s, spec, (vol, zv, Pb, Pd, Ps, gamma), err in kb_play(case):
        k += 1
        where = (f'call {k} of a history over {len(case["streams"])} stream(s) (package {st["pkg"]}, chemical order {[C03.IDS[i] for i in st["perm"]]}, '
                 f'material {dict((C03.IDS[int(a)], b) for a, b in op["mix"].items())})')
        if err: continue
        if s.T != spec['T']: return f'vle({op["sk"]}) history: specified T={spec["T"]} but the stream has T={s.T}; {where}'
        if 'P' in spec and s.P != spec['P']: return f'vle(TP) history: specified P={spec["P"]} but the stream has P={s.P}; {where}'
        if len(vol) < 2 or len(vol) != len(op['mix']): continue                 # volatile chemicals only
        perm = st['perm']
        g = np.array([float(s.imol['g'].to_array()[perm.index(i)]) for i in vol]); l = np.array([float(s.imol['l'].to_array()[perm.index(i)]) for i in vol])
        F = float(g.sum() + l.sum()); P = float(s.P); T = float(s.T)
        if st['pkg'] == 'I':
            K = Ps / P; V = raoult_rr(zv, K)
            if op['sk'] == 'TV':
                if abs(V - spec['V']) > 1e-3:
                    return (f'vle(TV) history: ideal package, specified V={spec["V"]} met at P={P:.1f} where the Raoult Rachford-Rice vapour fraction is {V:.6f}; {where}')
                continue
            v = F * zv * K * V / (1. + V * (K - 1.)) if 0. < V < 1. else F * zv * V
            if np.abs(g - v).max() > 1e-4 * max(1., F):
                return (f'vle(TP) history: ideal package, T={T} P={P:.1f} (Raoult dew {Pd:.1f}, bubble {Pb:.1f}): vapour flows {g.round(6).tolist()} differ from the '
                        f'Raoult Rachford-Rice solution {np.round(v, 6).tolist()}; {where}')
        elif all(i in (1, 2) for i in vol):       # activity coefficients: one homologous family (methanol / ethanol)
            if op['sk'] == 'TP':
                if Pd * 1.002 < P < Pb * 0.998 and (g.sum() <= 1e-9 * F or l.sum() <= 1e-9 * F):
                    return f'vle(TP) history: P_dew={Pd:.1f} < P={P:.1f} < P_bubble={Pb:.1f} (T={T}) but the result is single phase (V={g.sum() / F:.6f}); {where}'
                if P > Pb * 1.002 and g.sum() > 1e-9 * F: return f'vle(TP) history: P={P:.1f} above the bubble pressure {Pb:.1f} (T={T}) but vapour is present (V={g.sum() / F:.6f}); {where}'
                if P < Pd * 0.998 and l.sum() > 1e-9 * F: return f'vle(TP) history: P={P:.1f} below the dew pressure {Pd:.1f} (T={T}) but liquid is present (V={g.sum() / F:.6f}); {where}'
            if g.sum() > 1e-9 * F and l.sum() > 1e-9 * F:
                x = l / l.sum(); y = g / g.sum()
                fl_ = x * np.asarray(gamma(x, T)) * Ps; fg = y * P
                if np.abs(fl_ - fg).max() > 2e-3 * P:
                    return f'vle({op["sk"]}) history: liquid fugacities {fl_.tolist()} differ from vapour fugacities {fg.tolist()} (T={T}, P={P:.1f}); {where}'
    return None

def run_impl(case):
    if case['kind'] == 'kbh': return run_kbh(case)
    if case['kind'] == 'iqsite': return run_iqsite(case)
    if case['kind'] == 'flx': return run_flx(case)
    if case['kind'] == 'dom': return run_dom(case)
    if case['kind'] == 'rr2':
        C03.env()
        from thermosteam.equilibrium import binary_phase_fraction as b
        try:
            v = b.compute_phase_fraction_2N.py_func(np.array(case['z'], float), np.array(case['K'], float))
            return {'V': float(v)}
        except (ZeroDivisionError, FloatingPointError):
            return {'V': None}
    if case['kind'] in ('it2', 'itn'):
        return run_iter_checked(case)
    if case['kind'] == 'xpkg':
        return run_xpkg(case)
    if case['kind'] == 'vleh':
        return C03.run_vleh(case)
    return C03.run_vle(case)

def coq_case(case, out):
    if case['kind'] == 'kbh': return coq_kbh(case, out)
    if case['kind'] == 'dom': return coq_dom(case, out)
    if case['kind'] == 'flx': return coq_flx(case, out)
    if case['kind'] == 'iqsite': return coq_iqsite(case, out)
    if case['kind'] == 'xpkg':
        return coq_xpkg(case, out)
    if case['kind'] in ('it2', 'itn'):
        return coq_iter(case, out)
    if case['kind'] == 'rr2':
        z, K = case['z'], case['K']
        return f'(rr2_check {q(z[0])} {q(z[1])} {q(K[0])} {q(K[1])} {copt(out["V"], q)})'
    old = C03.CHECK_FN
    C03.CHECK_FN = 'vle_check'
    try:
        if case['kind'] == 'vleh': return C03.coq_vleh(case, out)
        return C03.coq_vle(case, out)
    finally:
        C03.CHECK_FN = old

def coq_show(case, out):
    return C03.coq_show(case, out) if case['kind'] == 'vle' else 'tt'

def nontrivial(case, out):
    if case['kind'] == 'kbh': return sum(1 for o in out['steps'] if o['calls']) >= 2
    if case['kind'] == 'iqsite': return bool(out['calls']) and not out['ill']
    if case['kind'] == 'flx': return not out['ill'] and out['calls'] >= 3
    if case['kind'] == 'dom': return len(set(out['tmaxs'])) >= 2 or len(set(out['tmins'])) >= 2
    if case['kind'] == 'vleh': return C03.nontrivial(case, out)
    if case['kind'] == 'xpkg': return len({o['bubble'][0] for o in out['steps']}) >= 2
    if case['kind'] == 'rr2': return out['V'] is not None
    if case['kind'] in ('it2', 'itn'): return out['w'] is not None and not ill_conditioned(out)
    return C03.nontrivial(case, out) or (out['init']['T'], out['init']['P']) != (out['final']['T'], out['final']['P'])

def classify(case, out):
    if case['kind'] == 'kbh':
        tags = []
        sets = {}
        for op, o in zip(case['ops'], out['steps']):
            key = (op['s'], op['T']); cur = tuple(sorted(op['mix']))
            if o['calls'] and key in sets and sets[key] != cur and len([k for k in sets[key] if int(k) < 3]) == len([k for k in cur if int(k) < 3]):
                tags.append('kbh:stream re-fed with another set of chemicals of the same size at the same T, two-phase solve reached')
            sets[key] = cur
        orders = {}
        for op, o in zip(case['ops'], out['steps']):
            if o['dp']:
                k2 = (tuple(sorted(o['dp'][1])), tuple(o['dp'][2:]))
                if k2 in orders and orders[k2] != tuple(o['dp'][1]): tags.append('kbh:same chemicals and classes flashed in two package orders')
                orders.setdefault(k2, tuple(o['dp'][1]))
        return sorted(set(tags)) or ['kbh:other history']
    if case['kind'] == 'iqsite':
        return ['iqsite:' + case['sk'] + ':' + ('no solver call (single phase / boundary branch)' if not out['calls'] else 'residual not a function of X or at rounding level (not compared)' if out['ill'] else 'solver call compared')]
    if case['kind'] == 'flx':
        return ['flx:' + ('rounding-level residual (not compared)' if out['ill'] else out['err'] or ('returned after %s evaluations' % ('1-3' if out['calls'] <= 3 else '4-8' if out['calls'] <= 8 else '9+')))]
    if case['kind'] == 'dom': return ['dom:' + ('database chemicals' if case['real'] else 'stand-in limits')]
    if case['kind'] == 'vleh': return C03.classify(case, out)
    if case['kind'] == 'xpkg': return ['xpkg:' + ''.join(s_['pkg'] for s_ in case['steps'])]
    if case['kind'] == 'rr2': return ['rr2:' + ('value' if out['V'] is not None else 'zero-denominator')]
    if case['kind'] in ('it2', 'itn'):
        return [f'{case["kind"]}:n={case["n"]}:' + ('ill-conditioned (not compared)' if ill_conditioned(out) else 'value' if out['w'] is not None else 'arithmetic-error')]
    return C03.classify(case, out)

def _flash(case, spec, scale=1., thermo=None):
    """run the real code (real solvers) on the case's stream multiplied by scale; returns the stream or None if it raised"""
    e = C03.env(); tmo = e['tmo']
    s = tmo.MultiStream(None, T=case['T0'], P=case['P0'], phases=case['phases'], thermo=thermo or e['thermo'])
    for ph in case['phases']:
        s.imol[ph] = scale * np.array(case[ph], float)
    kw = {}
    for k, v in spec.items():
        kw[k] = np.array(v) if isinstance(v, list) else (v * scale if k in 'HS' else v)
    try:
        s.vle(**kw)
    except Exception:
        return None
    return s

def _rows(s):
    return np.array([C03.fl(r.to_array()) for ph, r in tuple(s.imol)], float)

def raoult_rr(z, K):
    """independent Rachford-Rice solution (bisection; the root is unique by C04_rr_unique)"""
    f = lambda V: float(np.sum(z * (K - 1.) / (1. + V * (K - 1.))))
    if f(0.) <= 0.: return 0.
    if f(1.) >= 0.: return 1.
    lo, hi = 0., 1.
    for _ in range(200):
        mid = 0.5 * (lo + hi)
        if f(mid) > 0.: lo = mid
        else: hi = mid
    return 0.5 * (lo + hi)

def oracle_vleh(case):
    """A history of calls on one stream (real code, real solvers).  After every call: specified T / P stored; the H / S / V clauses
    of the single-call oracle hold for the result (material = what the stream held before the call); a T,P result equals the
    T,P result of a FRESH stream holding the same material; for T,P with volatile chemicals only: single phase only at / beyond
    the independently computed bubble / dew pressure.
    (The fresh-stream comparison is NOT applied to the searched specifications: a T,V / P,V / T,H ... search starts from the
    previous call's VLE._P / _T, and with a trace of non-condensable gas the FRESH search -- bracket widened to 0.1*Pmax,
    maxiter=20 -- may be the one that stops unconverged; such material is outside the V clause's quantifier.)"""
    e = C03.env(); tmo = e['tmo']
    s = C03.build_stream(case)
    for k, op in enumerate(case['ops']):
        if C03.apply_outside_op(case, s, op): continue
        sk = op[1]
        c1 = dict(case, sk=sk, spec=op[2])
        spec = C03.resolve_spec(c1, s)
        if case['mode'] == 'stub' and sk[1] in 'HS':
            spec = C03.resolve_spec(dict(c1, spec=dict(op[2], **{sk[1]: ['frac', 0.5]})), s)
        if 'V' in spec and not 0. <= spec['V'] <= 1.: continue
        kw = {kk: (np.array(v) if isinstance(v, list) else v) for kk, v in spec.items()}
        pre = {ph: C03.fl(r.to_array()) for ph, r in tuple(s.imol)}; T_pre, P_pre = float(s.T), float(s.P)
        fresh = tmo.MultiStream(None, T=s.T, P=s.P, phases=tuple(pre), thermo=e['thermo'])
        for ph, r in pre.items(): fresh.imol[ph] = np.array(r)
        try:
            s.vle(**kw)
        except Exception:
            continue
        if 'T' in spec and s.T != spec['T']: return f'vle({sk}) call {k} of a history: specified T={spec["T"]} but the stream has T={s.T}'
        if 'P' in spec and s.P != spec['P']: return f'vle({sk}) call {k} of a history: specified P={spec["P"]} but the stream has P={s.P}'
        if sk == 'TP':
            # at given T, P the split is a function of the material alone (no root search with a starting guess is involved)
            try:
                fresh.vle(**kw)
            except Exception:
                fresh = None
            if fresh is not None:
                a, b = _rows(s), _rows(fresh)
                F = max(1., float(np.abs(b).sum()))
                if np.abs(a - b).max() > 1e-4 * F:
                    return (f'vle({sk}) call {k} of a history on one stream differs from the same call on a fresh stream with the same material: '
                            f'g={a[0].round(6).tolist()} l={a[1].round(6).tolist()} T={s.T} P={s.P} vs g={b[0].round(6).tolist()} l={b[1].round(6).tolist()} T={fresh.T} P={fresh.P}')
        else:
            # the other specification pairs are solved by a bracketing search whose starting guess (VLE._T / _P / _V of the previous
            # call) legitimately survives: the property constrains the RESULT, so the H / S / V clauses are applied to it directly
            msg = spec_clauses(dict(case, l=pre['l'], g=pre['g'], T0=T_pre, P0=P_pre), spec, sk, s)
            if msg: return msg + f' (call {k} of a history on one stream)'
        volatile_only = not any(pre[ph][i] for ph in pre for i in range(3, 7))
        present = [i for i in range(3) if sum(pre[ph][i] for ph in 'lg') > 0]
        if sk == 'TP' and volatile_only and len(present) >= 2:
            ref = tmo.Stream(None, T=spec['T'], P=spec['P'], thermo=e['thermo'])
            for i in present: ref.imol[C03.IDS[i]] = sum(pre[ph][i] for ph in 'lg')
            try:
                Pb = ref.bubble_point_at_T(spec['T']).P; Pd = ref.dew_point_at_T(spec['T']).P
            except Exception:
                continue
            g = float(np.sum(C03.fl(s.imol['g'].to_array()))); l = float(np.sum(C03.fl(s.imol['l'].to_array())))
            if Pd * (1 + 1e-4) < spec['P'] < Pb * (1 - 1e-4) and (g == 0. or l == 0.):
                return (f'vle(TP) call {k} of a history: P_dew={Pd:.0f} < P={spec["P"]:.0f} < P_bubble={Pb:.0f} but the result is single phase '
                        f'(V={g / (g + l):.3f})')
    return None

def _root_P(case, T, prop, want, P0):
    """the pressure at which the equilibrium state of the case's material at T has H (S) = want: bisection over fresh T,P flashes"""
    f = lambda P: (lambda x: None if x is None else getattr(x, prop) - want)(_flash(case, {'T': T, 'P': P}))
    lo, hi = P0 / 4., P0 * 4.
    flo, fhi = f(lo), f(hi)
    if flo is None or fhi is None or flo * fhi > 0: return None
    for _ in range(60):
        mid = 0.5 * (lo + hi); fm = f(mid)
        if fm is None: return None
        if fm * flo > 0: lo, flo = mid, fm
        else: hi = mid
    return 0.5 * (lo + hi)

def _bubble_P_condensable(case, T):
    e = C03.env(); tmo = e['tmo']
    ref = tmo.Stream(None, T=T, P=101325., thermo=e['thermo'])
    for i in range(3):
        x = sum(case[ph][i] for ph in 'lg')
        if x > 0: ref.imol[C03.IDS[i]] = x
    try:
        return float(ref.bubble_point_at_T(T).P)
    except Exception:
        return None

def spec_clauses(case, spec, sk, s):
    """the H / S / V clauses of the property for the result s of vle(**spec) on the material of case (flows case['l'], case['g']);
    None or a message"""
    has_volatile = any(case[ph][i] for ph in 'lg' for i in range(3))
    # (without a volatile chemical VLE.__call__ catches NoEquilibrium and only stores P: outside the quantifier, see report)
    Fv = sum(case[ph][i] for ph in 'lg' for i in range(3))
    small_inerts = (sum(case[ph][i] for ph in 'lg' for i in (3, 4)) <= 0.1 * Fv and sum(case[ph][i] for ph in 'lg' for i in (5, 6)) <= 0.1 * Fv)
    if sk in ('TH', 'TS') and has_volatile and small_inerts:
        # T,H / T,S solve for P with flexsolve to P_tol = 1 Pa: "reproduced" up to that resolution -- the specified value must
        # be bracketed by the equilibrium values one resolution step to either side (or be met to 1e-5)
        prop = sk[1]
        got = getattr(s, prop); want = spec[prop]
        if abs(got - want) > 1e-5 * max(1., abs(want)) + 1e-5 * abs(s.F_mass):
            lo = _flash(case, {'T': s.T, 'P': s.P + 1.}); hi = _flash(case, {'T': s.T, 'P': s.P - 1.})
            vals = [getattr(x, prop) for x in (lo, hi) if x is not None]
            within = len(vals) == 2 and (min(vals) - 1e-6 * abs(want) <= want <= max(vals) + 1e-6 * abs(want)
                                         or abs(got - want) <= min(1e-3 * abs(want), max(abs(v - got) for v in vals)))     # a small miss, smaller than what 1 Pa does
            if not within:
                # a stream that is itself an equilibrium state at its (T, P) but at the wrong root: the pressure search stopped early
                self_consistent = len(vals) == 2 and min(vals) - 1e-6 * abs(got) <= got <= max(vals) + 1e-6 * abs(got)
                head = f'vle({sk}) pressure search stopped off the root' if self_consistent else f'vle({sk})'
                if self_consistent:
                    Pr = _root_P(case, s.T, prop, want, s.P)
                    if Pr is not None and abs(Pr - s.P) > 0.02 * Pr:
                        head = f'vle({sk}) pressure search returned a pressure far from the root (the specified {prop} is attained at P={Pr:.1f})'
                        Pb0 = _bubble_P_condensable(case, s.T)
                        if Pb0 is not None and Pr > 2. * Pb0 * 0.999 and any(case[ph][i] for ph in 'lg' for i in (3, 4)):
                            # a baseline limitation with its own key: the search bracket ends at twice the bubble pressure of the condensable part
                            head = (f'vle({sk}) root above twice the bubble pressure of the condensable part (non-condensable gas present; bubble pressure '
                                    f'without it {Pb0:.1f}; the specified {prop} is attained at P={Pr:.1f})')
                return (f'{head}: specified {prop}={want} but the stream has {prop}={got} (T={s.T}, P={s.P}); the equilibrium values at P-1 Pa / P+1 Pa '
                        f'({vals}) do not bracket the specification')
    if sk == 'PS' and has_volatile and small_inerts and abs(s.S - spec['S']) > 1e-3 * max(1., abs(spec['S'])) + 1e-5 * abs(s.F_mass):
        return f'vle(PS): specified S={spec["S"]} but the stream has S={s.S} (T={s.T}, P={s.P})'
    if sk == 'PH' and has_volatile and abs(s.H - spec['H']) > 1e-6 * max(1., abs(spec['H'])) + 1e-6 * abs(s.F_mass):
        return f'vle(PH): specified H={spec["H"]} but the stream has H={s.H}'
    volatile_only = not any(case[ph][i] for ph in case['phases'] for i in range(3, 7))
    if sk in ('PV', 'TV') and 0.02 < spec['V'] < 0.98 and (getattr(s.vle, '_N', 0) or 0) >= 2 and volatile_only:
        vf_ = lambda st: float(np.sum(C03.fl(st.imol['g'].to_array()))) / float(np.sum(C03.fl(st.imol['g'].to_array())) + np.sum(C03.fl(st.imol['l'].to_array())))
        V = vf_(s)
        if abs(V - spec['V']) > 1e-4:
            # "met at a T (P) within the solver's resolution (T_tol = 5e-8 K, P_tol = 1 Pa) of the point where V equals the specification":
            # the equilibrium vapour fraction one resolution step to either side must bracket the specification
            d = 1. if sk == 'TV' else 5e-8
            lo = _flash(case, {'T': s.T - (0 if sk == 'TV' else d), 'P': s.P + (d if sk == 'TV' else 0)})
            hi = _flash(case, {'T': s.T + (0 if sk == 'TV' else d), 'P': s.P - (d if sk == 'TV' else 0)})
            if lo is None or hi is None or not (min(vf_(lo), vf_(hi)) - 1e-6 <= spec['V'] <= max(vf_(lo), vf_(hi)) + 1e-6):
                return f'vle({sk}): specified V={spec["V"]} but the stream has V={V} and the specification is not bracketed within the solver resolution'
    return None

def oracle(case):
    """The property on the REAL code with the REAL solvers: specified T/P are the stream's T/P after the call;
    a specified H is reproduced; a specified V is met; multiplying the feed (and H, S) by a constant multiplies the
    products by it; with the ideal package the T,P split equals an independent Raoult's-law Rachford-Rice solution."""
    if case['kind'] == 'xpkg': return oracle_xpkg(case)
    if case['kind'] == 'kbh': return oracle_kbh(case)
    if case['kind'] == 'dom': return oracle_dom(case)
    if case['kind'] == 'vleh': return oracle_vleh(case)
    if case['kind'] != 'vle': return None
    s = C03.build_stream(case)
    spec = C03.resolve_spec(case, s)
    sk = case['sk']
    if case['mode'] == 'stub' and sk[1] in 'HS':
        c2 = dict(case); c2['spec'] = dict(case['spec']); c2['spec'][sk[1]] = ['frac', 0.5]
        spec = C03.resolve_spec(c2, s)
    if 'V' in spec and not 0. <= spec['V'] <= 1.: return None
    s = _flash(case, spec)
    if s is None: return None
    if 'T' in spec and s.T != spec['T']: return f'vle({sk}): specified T={spec["T"]} but the stream has T={s.T}'
    if 'P' in spec and s.P != spec['P']: return f'vle({sk}): specified P={spec["P"]} but the stream has P={s.P}'
    msg = spec_clauses(case, spec, sk, s)
    if msg: return msg
    has_volatile = any(case[ph][i] for ph in 'lg' for i in range(3))
    volatile_only = not any(case[ph][i] for ph in case['phases'] for i in range(3, 7))
    # scaling
    if sk[1] not in 'xy':
        for k in (4., 2. ** -30, 2. ** 20):          # ordinary, down to trace amounts (~1e-9 of the feed), up
            s4 = _flash(case, spec, scale=k)
            if s4 is None: return f'vle({sk}) scaling: the flash of the feed multiplied by {k} raised'
            a, b = _rows(s) * k, _rows(s4)
            tol = 1e-6 * max(float(np.abs(a).max()), 1e-300)
            if np.abs(a - b).max() > tol or abs(s4.T - s.T) > 1e-6 * s.T or abs(s4.P - s.P) > 1e-6 * s.P:
                return (f'vle({sk}) scaling: feed x{k} does not give products x{k}: largest flow difference {float(np.abs(a - b).max())} '
                        f'(largest product flow {float(np.abs(a).max())}), T {s.T} vs {s4.T}, P {s.P} vs {s4.P}')
    # ideal package against an independent Raoult / Rachford-Rice flash
    if sk == 'TP' and volatile_only:
        e = C03.env()
        if 'ideal' not in e: e['ideal'] = e['thermo'].ideal()
        si = _flash(case, spec, thermo=e['ideal'])
        if si is not None:
            tot = np.array(case['l'][:3]) + np.array(case['g'][:3])
            F = tot.sum()
            if F > 0:
                chems = e['ideal'].chemicals.tuple[:3]
                K = np.array([float(c.Psat(spec['T'])) for c in chems]) / spec['P']
                present = tot > 0
                z = tot[present] / F
                V = raoult_rr(z, K[present])
                v = np.zeros(3); v[present] = F * z * K[present] * V / (1. + V * (K[present] - 1.))
                got = np.array(C03.fl(si.imol['g'].to_array())[:3])
                if present.sum() == 1:
                    return None    # one chemical: the phase rule leaves the split at Psat undetermined
                if np.abs(got - v).max() > 1e-4 * max(1., F):
                    return f'vle(TP) ideal package: vapour flows {got.tolist()} differ from the Raoult Rachford-Rice solution {v.tolist()}'
    return None

def finding_key(case, msg):
    """'C04:vle(TS)' / 'C04:vle(TH)' are reserved for 'pressure search stopped off the root' (the registered finding); a T,S / T,H
    result that is not even an equilibrium state at its own (T, P) gets another key, so that a regression is not masked"""
    head = msg.split(':')[0]
    if 'pressure search stopped off the root' in head: return 'C04:' + head.split(' ')[0]
    if 'far from the root' in head: return 'C04:' + head.split(' ')[0] + '-far-from-root'
    if 'root above twice the bubble pressure' in head: return 'C04:' + head.split(' ')[0] + '-root-above-2Pbubble'
    if head in ('vle(TS)', 'vle(TH)'): return 'C04:' + head + '-not-reproduced'
    return 'C04:' + head

def _w(sk, spec, l, g):
    return {'kind': 'vle', 'mode': 'real', 'phases': 'lg', 'l': l, 'g': g, 's': [0.] * 7, 'spec': spec, 'sk': sk,
            'T0': 298.15, 'P0': 101325., 'co': None, 'draws': []}
# minimised inputs of the three defects repaired by pending_fixes/C04_1..3 (regression cases: must pass once the patches are in /repo)
CORPUS = [
    _w('TV', {'T': 350., 'V': 0.5}, [30., 0, 0, 0, 0, 0, 0], [0.] * 7),
    _w('Tx', {'T': 360., 'x': [0.8, 0.2]}, [30., 10., 0, 0, 0, 0, 0], [0.] * 7),
    _w('Px', {'P': 50000., 'x': [0.8, 0.2]}, [30., 10., 0, 0, 0, 0, 0], [0.] * 7),
    _w('TH', {'T': 350., 'H': ['frac', 0.5]}, [30., 0, 0, 0, 0, 0, 0], [0.] * 7),
] + LINK_CORPUS

# witnesses of defects of the unchanged tree (see the report): active once listed in known_findings.txt, or with VERIF_PENDING=1
import vf as _vf
_ALL_WITNESSES = [
    {'key': 'C04:vle(TS)',
     'case': {'kind': 'vle', 'mode': 'real', 'phases': 'lg', 'l': [12.5, 4.0, 8.0, 0., 0., 0., 0.], 'g': [0.25, 3.0, 0., 0., 0., 0., 0.], 's': [0.] * 7,
              'spec': {'T': 350.5, 'S': ['frac', 0.5]}, 'sk': 'TS', 'T0': 298.15, 'P0': 101325., 'co': None, 'draws': []}},
    # the same mechanism on the T,H path (found by the thorough-tier search with VERIF_SEED=1): Water 10 / Ethanol 5 / Methanol 3 with a dissolved
    # solute, vle(T=360, H 3/8 of the way from the all-liquid to the all-vapour value): the returned state misses H by 0.04 %
    {'key': 'C04:vle(TH)',
     'case': {'kind': 'vle', 'mode': 'real', 'phases': 'lg', 'l': [10.0, 5.0, 3.0, 0.0, 0.0, 0.0, 1.125], 'g': [0.] * 7, 's': [0.] * 7,
              'spec': {'T': 360.0, 'H': ['frac', 0.375]}, 'sk': 'TH', 'T0': 298.15, 'P0': 101325., 'co': None, 'draws': []}},
    # T,H / T,S with a non-condensable gas and a target next to the all-liquid value: the root lies above 2 x P_bubble(rest), the end of the bracket
    {'key': 'C04:vle(TH)-root-above-2Pbubble',
     'case': {'kind': 'vle', 'mode': 'real', 'phases': 'lg', 'l': [0., 8., 8., 0., 0., 0., 0.], 'g': [0., 0., 0., 1., 0., 0., 0.], 's': [0.] * 7,
              'spec': {'T': 345., 'H': ['frac', 0.03125]}, 'sk': 'TH', 'T0': 298.15, 'P0': 101325., 'co': None, 'draws': []}},
    {'key': 'C04:vle(TS)-root-above-2Pbubble',
     'case': {'kind': 'vle', 'mode': 'real', 'phases': 'lg', 'l': [30., 10., 0., 0., 0., 0., 0.], 'g': [0., 0., 0., 2.5, 0., 0., 0.], 's': [0.] * 7,
              'spec': {'T': 345., 'S': ['frac', 0.03125]}, 'sk': 'TS', 'T0': 298.15, 'P0': 101325., 'co': None, 'draws': []}},
]
WITNESSES = [w for w in _ALL_WITNESSES if (ID, w['key']) in _vf.load_known() or os.environ.get('VERIF_PENDING')]
