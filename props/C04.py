"""C04 — a vapour-liquid flash honours its specifications and the equilibrium conditions.
Reuses the C03 harness (stubbed + replayed VLE calls) with the FULL comparison (flows, T, P, exception,
state at the raise, number of oracle calls) and adds the compute_phase_fraction_2N kernel (py_func)."""
import numpy as np
from fractions import Fraction as F
from vf import q, qlist, clist, cbool, cnat, copt, frac, fr_json
import C03

ID = 'C04'
COQ_DIR = 'C04'
EXTRA_COQ_DIRS = ('C03',)
COQ_HEADER = 'From V Require Import Common.Num C03.Model C04.Model.\nOpen Scope Q_scope.'
CASE_TIMEOUT = 60
RULE = ('the VLE cases of C03 (every specification pair; stubbed solvers with adversarial outputs and real solvers replayed) compared on flows AND T, P; '
        'plus compute_phase_fraction_2N.py_func on dyadic (z1, z2, K1, K2) incl. K = 1 (zero denominator) against the Gallina closed form. '
        'non-trivial = the call changed the stream or the kernel returned a value; distinct = distinct case hash')
ASSUMPTIONS = C03.ASSUMPTIONS[:3] + [
    'vapour fraction met within solver resolution: flexsolve.IQ_interpolation contract, not proved (measured by oracle())',
    'iso-fugacity at the solver tolerance rather than at an exact fixed point: flexsolve.aitken contract, not proved here']
TRUSTED = ['wrapper model coq/C03/Model.v hand-written from vle.py (as repaired by pending_fixes/C04_1..3); kernels coq/C04/Model.v hand-written from binary_phase_fraction.py / vle.py']

KS = [0.5, 2., 1., 0.25, 4., 1.5, 0.75, 1e-16, 3.]
ZS = [0.5, 0.25, 0.75, 0., 1., 0.125, 2.]

def gen_cases(rng, tier):
    n_stub, n_real, n_k = (170, 24, 60) if tier == 'quick' else (2500, 250, 600)
    cases = [C03.gen_vle_case(rng) for _ in range(n_stub)]
    cases += [C03.gen_real_case(rng) for _ in range(n_real)]
    cases += [{'kind': 'rr2', 'z': [rng.choice(ZS), rng.choice(ZS)], 'K': [rng.choice(KS), rng.choice(KS)]} for _ in range(n_k)]
    return cases

def run_impl(case):
    if case['kind'] == 'rr2':
        C03.env()
        from thermosteam.equilibrium import binary_phase_fraction as b
        try:
            v = b.compute_phase_fraction_2N.py_func(np.array(case['z'], float), np.array(case['K'], float))
            return {'V': float(v)}
        except (ZeroDivisionError, FloatingPointError):
            return {'V': None}
    return C03.run_vle(case)

def coq_case(case, out):
    if case['kind'] == 'rr2':
        z, K = case['z'], case['K']
        return f'(rr2_check {q(z[0])} {q(z[1])} {q(K[0])} {q(K[1])} {copt(out["V"], q)})'
    old = C03.CHECK_FN
    C03.CHECK_FN = 'vle_check'
    try:
        return C03.coq_vle(case, out)
    finally:
        C03.CHECK_FN = old

def coq_show(case, out):
    return C03.coq_show(case, out) if case['kind'] == 'vle' else 'tt'

def nontrivial(case, out):
    if case['kind'] == 'rr2': return out['V'] is not None
    return C03.nontrivial(case, out) or (out['init']['T'], out['init']['P']) != (out['final']['T'], out['final']['P'])

def classify(case, out):
    if case['kind'] == 'rr2': return ['rr2:' + ('value' if out['V'] is not None else 'zero-denominator')]
    return C03.classify(case, out)

def oracle(case):
    """The property on the REAL code with the REAL solvers: specified T/P are the stream's T/P after the call;
    a specified H / S is reproduced; a specified V is met."""
    if case['kind'] != 'vle': return None
    s = C03.build_stream(case)
    spec = C03.resolve_spec(case, s)
    sk = case['sk']
    if case['mode'] == 'stub' and sk[1] in 'HS':
        c2 = dict(case); c2['spec'] = dict(case['spec']); c2['spec'][sk[1]] = ['frac', 0.5]
        spec = C03.resolve_spec(c2, s)
    kw = {k: (np.array(v) if isinstance(v, list) else v) for k, v in spec.items()}
    if 'V' in kw and not 0. <= kw['V'] <= 1.: return None
    try:
        s.vle(**kw)
    except Exception:
        return None
    if 'T' in spec and s.T != spec['T']: return f'vle({sk}): specified T={spec["T"]} but the stream has T={s.T}'
    if 'P' in spec and s.P != spec['P']: return f'vle({sk}): specified P={spec["P"]} but the stream has P={s.P}'
    if sk == 'PH' and abs(s.H - spec['H']) > 1e-6 * max(1., abs(spec['H'])) + 1e-6 * abs(s.F_mass):
        return f'vle(PH): specified H={spec["H"]} but the stream has H={s.H}'
    if sk in ('PV', 'TV') and 0.02 < spec['V'] < 0.98 and (s.vle._N or 0) >= 2 and not s.vle._F_mol_light and not s.vle._F_mol_heavy:
        if abs(s.vapor_fraction - spec['V']) > 1e-4: return f'vle({sk}): specified V={spec["V"]} but the stream has V={s.vapor_fraction}'
    return None

def finding_key(case, msg):
    return 'C04:' + msg.split(':')[0]

def _w(sk, spec, l, g):
    return {'kind': 'vle', 'mode': 'real', 'phases': 'lg', 'l': l, 'g': g, 's': [0.] * 7, 'spec': spec, 'sk': sk,
            'T0': 298.15, 'P0': 101325., 'co': None, 'draws': []}
# minimised inputs of the three defects repaired by pending_fixes/C04_1..3 (regression cases: must pass once the patches are in /repo)
CORPUS = [
    _w('TV', {'T': 350., 'V': 0.5}, [30., 0, 0, 0, 0, 0, 0], [0.] * 7),
    _w('Tx', {'T': 360., 'x': [0.8, 0.2]}, [30., 10., 0, 0, 0, 0, 0], [0.] * 7),
    _w('Px', {'P': 50000., 'x': [0.8, 0.2]}, [30., 10., 0, 0, 0, 0, 0], [0.] * 7),
    _w('TH', {'T': 350., 'H': ['frac', 0.5]}, [30., 0, 0, 0, 0, 0, 0], [0.] * 7),
]
