"""C18 — flowsheet connections stay mutually consistent under every rewiring operation.
Correspondence harness (real AbstractUnit subclasses / AbstractStreams against coq/C18/Model.v),
stateful history generator, bounded exhaustive enumeration, and the direct oracle (the
invariant of the property evaluated on the real objects after every operation)."""
import warnings, itertools, signal
from vf import clist, cbool, copt

ID = 'C18'
COQ_DIR = 'C18'
COQ_HEADER = ('From Coq Require Import ZArith Uint63.\nFrom V Require Import Common.Num C18.Model.\n'
              'Close Scope Q_scope.\nOpen Scope nat_scope.')
RULE = ('a case = a universe (3-5 real AbstractUnit subclasses with fixed and variable port counts, 5-8 AbstractStreams) and one or '
        'more operation histories; random histories have 5-50 operations drawn by a stateful generator that looks at the real objects '
        '(about 80 % chosen inside the preconditions, the rest violate them or are malformed: wrong index, non-stream, stream not in '
        'the list), over item/slice/extended-slice assignment, pipe notation, insert/append/extend/replace/pop/remove/clear/empty, '
        'disconnect_source/sink/disconnect, u1-u2, unit.disconnect(inlets, outlets, join_ends), unit.insert(stream, inlet, outlet), take_place_of, replace_with, '
        'Connection.reconnect and unit construction, with placeholders addressed by the port they sit in; exhaustive cases run EVERY '
        'sequence of depth d over a fixed 78-operation alphabet (a 26-operation sub-alphabet for the deepest level) from the empty and '
        'from generated prefixes on 3 units x 5 streams. After EVERY operation the exception class, the precondition flag and the '
        'whole state (each unit\'s ins/outs as stream numbers / placeholder identities, each slot object\'s sink and source, each '
        'stream\'s sink and source) are folded, on both sides, into a 63-bit rolling checksum; the checksums and the final state in '
        'full are compared with the model. non-trivial = at least one operation changed the observed state; distinct = distinct case hash')
ORACLE = ('after every operation of a history that is still inside the preconditions: (1) every object listed in a unit\'s ins/outs '
          'has that unit as sink/source, no object twice in a list, fixed lists have their size, placeholders are empty missing streams; '
          '(2) every stream of the universe AND every placeholder reachable through some port list is listed wherever its sink/source '
          'points; (3) for item assignment, replace, pop, remove, disconnect_sink/source, insert, append: by object identity, the '
          'addressed port (python index arithmetic included) holds the assigned object / a new placeholder, a fixed-size list keeps '
          'every other port, a variable-size pop removes exactly that port, and in every other list nothing changes except that the '
          'port a moved stream left holds a new placeholder')
ASSUMPTIONS = ['docking warnings (RuntimeWarning text) are not part of the model; units and streams are created without IDs so none is emitted',
               'auxiliary-unit ownership in Connection.reconnect, the discard= arguments, and constructor lists that contain the same '
               'stream twice, a placeholder object or an oversize outs list are outside the modelled domain (the generator never produces them)',
               'the theorems quantify over well-formed operations (wfb: units and streams mentioned exist) used within the property\'s '
               'preconditions (preb); for compound operations (unit.insert, disconnect(join_ends), take_place_of, replace_with, '
               'reconnect) the precondition is that every item/slice assignment they perform meets the assignment precondition when it is performed',
               'the model of pop is the source with the pop fix applied (step); step_found is the source as found',
               'the reverse direction of the sink/source clause for PLACEHOLDERS (a placeholder reachable through a port list points at u => '
               'it is listed at u) is proved for every operation and history (coq/C18/ProofsDeep.v, C18_placeholder_backpointer*) for '
               'starting worlds in which placeholders not yet created point nowhere (every reachable world); it is also evaluated by the oracle']
TRUSTED = ['model coq/C18/Model.v is hand-written from thermosteam/network.py (StreamSequence, AbstractInlets/Outlets, '
           'AbstractStream/AbstractMissingStream disconnect, pipes, Connection.reconnect, AbstractUnit rewiring methods); tie = '
           'correspondence check after every operation of every history',
           'python list/slice index normalisation and object identity (list.index / `in` on objects without __eq__) as transcribed',
           'intermediate states are compared through a 63-bit polynomial checksum (Coq primitive Uint63 under vm_compute, python int '
           'arithmetic mod 2^63); final states are compared in full']
CASE_TIMEOUT = 120

_env = {}
def env():
    if not _env:
        warnings.simplefilter('ignore')
        import thermosteam as tmo
        from thermosteam import network as nw
        tmo.settings.set_thermo([tmo.Chemical('A_', search_db=False, MW=16., Hf=-1024., Cn=64., phase='l', default=True)])
        _env['tmo'] = tmo
        _env['nw'] = nw
        _env['classes'] = {}
    return _env

def unit_class(nin, nout, fin, fout):
    e = env()
    key = (nin, nout, bool(fin), bool(fout))
    if key not in e['classes']:
        e['classes'][key] = type(f'U{nin}{nout}{int(fin)}{int(fout)}', (e['nw'].AbstractUnit,),
                                 {'_N_ins': nin, '_N_outs': nout, '_ins_size_is_fixed': bool(fin),
                                  '_outs_size_is_fixed': bool(fout)})
    return e['classes'][key]

ERR = {'IndexError': 'EIndex', 'ValueError': 'EValue', 'TypeError': 'EType', 'RuntimeError': 'ERuntime',
       'AttributeError': 'EOther'}
JUNK = 7

# ------------------------------------------------------------------ the universe of real objects
class Universe:
    def __init__(self, ns):
        nw = env()['nw']
        self.units = []
        self.streams = [nw.AbstractStream(None) for _ in range(ns)]
        self.names = 0
        self.clists = []        # caller-owned python lists (the very objects are passed to the implementation)
    def load_clists(self, clists):
        self.clists = [[self.item_value(it) for it in l] for l in clists]
    def item_value(self, it):
        if it[0] == 'S': return self.streams[it[1]]
        if it[0] == 'new':
            self.names += 1
            return f'c18_{self.names}'
        return None
    def item_code(self, x):
        if x is None: return 0
        if isinstance(x, str): return 1
        k = self.sid(x) if is_real(x) else 999
        return 999 if k == 999 else 2 + k
    def item_of(self, x):
        """element of a caller list as a history item (for the plain operation it stands for)"""
        if x is None: return ['None']
        if isinstance(x, str): return ['new']
        k = self.sid(x) if is_real(x) else 999
        return ['S', k] if k != 999 else ['None']
    def ports(self, sd, u):
        return self.units[u].ins if sd == 'i' else self.units[u].outs
    def uid(self, unit):
        if unit is None: return None
        for k, v in enumerate(self.units):
            if v is unit: return k
        return 999
    def sid(self, s):
        for k, v in enumerate(self.streams):
            if v is s: return k
        return 999
    def arg(self, a):
        k = a[0]
        if k == 'S': return self.streams[a[1]]
        if k == 'At':
            l = list(self.ports(a[1], a[2]))
            return l[a[3] % len(l)] if l else None
        if k == 'None': return None
        return JUNK

def is_obj(x):
    nw = env()['nw']
    return isinstance(x, (nw.AbstractStream, nw.AbstractMissingStream))
def is_real(x):
    return isinstance(x, env()['nw'].AbstractStream)
def ptr(x, sd):
    return x._sink if sd == 'i' else x._source
def idx(x, l):
    for k, y in enumerate(l):
        if y is x: return k
    return None
def norm_index(i, n):
    j = i + n if i < 0 else i
    return j if 0 <= j < n else None

def observe(U):
    tbl, keep = {}, []
    units = []
    for u in U.units:
        row = []
        for l in (u.ins, u.outs):
            slots = []
            for x in l:
                if is_real(x):
                    i = U.sid(x); real = True
                else:
                    keep.append(x)
                    i = tbl.setdefault(id(x), len(tbl)); real = False
                slots.append([real, i, U.uid(getattr(x, '_sink', None)), U.uid(getattr(x, '_source', None))])
            row.append(slots)
        units.append(row)
    return {'units': units, 'streams': [[U.uid(s._sink), U.uid(s._source)] for s in U.streams],
            'store': [[U.item_code(x) for x in l] for l in U.clists]}

# ------------------------------------------------------------------ preconditions, evaluated on the real objects
def pre_set(L, i, x):
    if not is_obj(x): return True
    j = idx(x, list(L))
    if j is None: return True
    k = norm_index(i, len(L))
    return k is not None and j == k

def pre_slice(L, fixed, size, lo, hi, xs):
    if any(x is not None and not is_obj(x) for x in xs): return True
    l = list(L)
    a, b, _ = slice(lo, hi).indices(len(l)); b = max(a, b)
    keep = l[:a] + l[b:]
    objs = [x for x in xs if x is not None]
    if len({id(x) for x in objs}) != len(objs): return False
    if any(idx(x, keep) is not None for x in objs): return False
    return (not fixed) or len(keep) + len(xs) <= size

def fixed_of(U, sd, u):
    unit = U.units[u]
    return (unit._ins_size_is_fixed, unit._N_ins) if sd == 'i' else (unit._outs_size_is_fixed, unit._N_outs)

def pre_insert(U, sd, u, x):
    if fixed_of(U, sd, u)[0] or not is_obj(x): return True
    return ptr(x, sd) is None

def pre_replace(L, x, y):
    if not is_obj(x): return True
    k = idx(x, list(L))
    return True if k is None else pre_set(L, k, y)

def pre_form(fixed, size, form):
    items = form[1:] if form[0] == 'one' else (form[1] if form[0] == 'list' else [])
    reals = [it[1] for it in items if it[0] == 'S']
    if len(set(reals)) != len(reals): return False
    if fixed:
        if form[0] == 'one': return size >= 1
        if form[0] == 'list': return len(items) <= size
    return True

def udisc_lists(op):
    """inlets= / outlets= of unit.disconnect: None | list of ['idx', i] / ['arg', arg]"""
    return (op[3] if len(op) > 3 else None), (op[4] if len(op) > 4 else None)
def ditem_value(U, d):
    return d[1] if d[0] == 'idx' else U.arg(d[1])

def port_value(U, p):
    """inlet= / outlet= argument of unit.insert: None | ['idx', i] | ['arg', arg]"""
    if p is None: return None
    if p[0] == 'idx': return p[1]
    return U.arg(p[1])

def uinsert_ports(op):
    return (op[3] if len(op) > 3 else None), (op[4] if len(op) > 4 else None)

def uinsert_pre(U, op):
    """unit.insert(s, inlet, outlet): the stream has a sink; the downstream block puts the chosen outlet (default: the
    single outlet of a fixed one-outlet unit) in the stream's place among the sink's inlets; the upstream block puts the
    chosen inlet (default: the single inlet of a fixed one-inlet unit) in the stream's place among the source's outlets,
    or appends the stream to a variable-size inlet list (the docstring's M1.insert(P1-0)); every assignment / append is
    within its own precondition when performed.  Second component: whether the flag is exact in every state."""
    unit = U.units[op[1]]; s = U.arg(op[2])
    pin, pout = uinsert_ports(op)
    inl, outl = port_value(U, pin), port_value(U, pout)
    if not is_obj(s): return True, True
    v = s._sink
    if v is None: return False, True
    if U.uid(v) == 999: return False, False
    # downstream block
    if outl is None:
        if not (unit._outs_size_is_fixed and unit._N_outs == 1): return False, True
        y = unit.outs[0]
    elif is_real(outl):
        if outl._source is not unit: return False, True
        y = outl
    elif is_obj(outl): return False, True                 # a placeholder used as a list index: TypeError
    else:
        k = norm_index(outl, len(unit.outs))
        if k is None: return False, True
        y = unit.outs[k]
    ks = idx(s, list(v.ins))
    if not pre_replace(v.ins, s, y): return False, True
    # upstream block, evaluated in the state the downstream block leaves behind
    if inl is None:
        if not unit._ins_size_is_fixed:
            if ks is None: return False, True             # ValueError above; nothing was undocked, the append would dock twice
            return (y is not s), True
        if unit._N_ins != 1: return False, True
        t = s._source
        if t is None: return False, True
        if U.uid(t) == 999: return False, False
        changed = (v is unit) or (y._sink is unit)         # the downstream block rewrote this unit's own inlets
        return pre_replace(t.outs, s, unit.ins[0]), not changed
    t = s._source
    if is_real(inl):
        sink_after = v if (inl is y and ks is not None) else (None if (inl is s and ks is not None) else inl._sink)
        if sink_after is not unit: return False, True
        z = inl
    elif is_obj(inl): return False, True
    else:
        k = norm_index(inl, len(unit.outs))                # as written in the source: self.outs[inlet]
        if k is None: return False, True
        z = unit.outs[k]
    if t is None: return False, True
    if U.uid(t) == 999: return False, False
    return pre_replace(t.outs, s, z), True

XKINDS = ('xnew', 'lslice', 'lextend', 'cappend', 'cset', 'cpop')
def plain_of(U, op):
    """the plain operation an operation on a caller's list stands for: the list is read at the call"""
    n = op[0]
    item_arg = lambda it: ['S', it[1]] if it[0] == 'S' else (['None'] if it[0] == 'None' else ['Junk'])
    items = lambda k: [U.item_of(x) for x in U.clists[k]]
    if n == 'xnew':
        form = lambda f: f[1] if f[0] == 'f' else ['list', items(f[1])]
        return ['new', op[1], op[2], op[3], op[4], form(op[5]), form(op[6])]
    if n == 'lslice': return ['slice', op[1], op[2], op[3], op[4], [item_arg(it) for it in items(op[5])], 'item']
    if n == 'lextend': return ['extend', op[1], op[2], [item_arg(it) for it in items(op[3])]]
    return op

def precondition(U, op):
    """(flag, exact): the property's precondition for this operation in the current real state.
    exact=False marks a sufficient condition that presumes the invariant holds (compound operations)."""
    n = op[0]
    if n in ('cappend', 'cset', 'cpop'): return True, True
    if n in ('xnew', 'lslice', 'lextend'): return precondition(U, plain_of(U, op))
    if n == 'set': return pre_set(U.ports(op[1], op[2]), op[3], U.arg(op[4])), True
    if n == 'slice':
        f, s = fixed_of(U, op[1], op[2])
        return pre_slice(U.ports(op[1], op[2]), f, s, op[3], op[4], [U.arg(a) for a in op[5]]), True
    if n == 'xslice':
        _, sd, u, lo, hi, st, args = op
        xs = [U.arg(a) for a in args]
        f, sz = fixed_of(U, sd, u)
        if st == 1: return pre_slice(U.ports(sd, u), f, sz, lo, hi, xs), True
        if any(x is not None and not is_obj(x) for x in xs) or st == 0: return True, True
        l = list(U.ports(sd, u))
        objs = [x for x in xs if x is not None]
        return (len(xs) == len(range(*slice(lo, hi, st).indices(len(l)))) and len({id(x) for x in objs}) == len(objs)
                and all(idx(x, l) is None for x in objs)), True
    if n == 'insert': return pre_insert(U, op[1], op[2], U.arg(op[4])), True
    if n == 'append': return pre_insert(U, op[1], op[2], U.arg(op[3])), True
    if n == 'extend':
        if fixed_of(U, op[1], op[2])[0]: return True, True
        xs = []
        for a in op[3]:
            x = U.arg(a)
            if not is_obj(x): break
            xs.append(x)
        return (len({id(x) for x in xs}) == len(xs) and all(ptr(x, op[1]) is None for x in xs)), True
    if n == 'replace': return pre_replace(U.ports(op[1], op[2]), U.arg(op[3]), U.arg(op[4])), True
    if n in ('pop', 'remove', 'empty', 'disc', 'discboth'): return True, True
    if n == 'clear': return (not fixed_of(U, op[1], op[2])[0]), True
    if n == 'uu':
        f, s = fixed_of(U, 'i', op[2])
        return pre_slice(U.units[op[2]].ins, f, s, None, None, list(U.units[op[1]].outs)), True
    if n in ('take', 'repl') and (n == 'take' or op[2] is not None):
        a, b = (op[1], op[2]) if n == 'take' else (op[2], op[1])     # a takes the place of b
        fi, si = fixed_of(U, 'i', a); fo, so = fixed_of(U, 'o', a)
        return (pre_slice(U.units[a].ins, fi, si, None, None, list(U.units[b].ins))
                and pre_slice(U.units[a].outs, fo, so, None, None, list(U.units[b].outs))), True
    if n == 'repl':      # replace_with(None): sufficient: no stream connects the unit to itself
        unit = U.units[op[1]]
        return (all(x._source is not unit for x in unit.ins) and all(x._sink is not unit for x in unit.outs)), False
    if n == 'udisc': return True, (not op[2])    # join_ends: sufficient only (the joined inlets were just undocked)
    if n == 'uinsert': return uinsert_pre(U, op)
    if n == 'reconnect':
        x = U.arg(op[3]); ok = True
        if op[1] is not None: ok = ok and pre_set(U.units[op[1]].outs, op[2], x)
        if op[5] is not None: ok = ok and pre_set(U.units[op[5]].ins, op[4], x)
        return ok, True
    if n == 'new': return (pre_form(op[3], op[1], op[5]) and pre_form(op[4], op[2], op[6])), True
    raise ValueError(n)

# ------------------------------------------------------------------ running one operation on the real objects
def form_value(U, form):
    def item(it):
        if it[0] == 'new':
            U.names += 1
            return f'c18_{U.names}'
        if it[0] == 'S': return U.streams[it[1]]
        return None
    if form[0] == 'none': return None
    if form[0] == 'empty': return ()
    if form[0] == 'one': return item(form[1])
    return [item(it) for it in form[1]]

def apply_op(U, op):
    nw = env()['nw']
    n = op[0]
    if n == 'set':
        _, sd, u, i, a, var = op
        x = U.arg(a); unit = U.units[u]
        if var == 'pipe' and is_real(x):
            if sd == 'i': x-i-unit
            else: unit-(i-x)
        elif var == 'pow' and is_real(x):
            if sd == 'i': (x**i)**unit
            else: unit**i**x
        else:
            U.ports(sd, u)[i] = x
    elif n == 'slice':
        _, sd, u, lo, hi, args, var = op
        xs = [U.arg(a) for a in args]; unit = U.units[u]
        pipeable = lo is None and hi is None and xs and all(x is None or is_real(x) for x in xs)
        if var == 'pipe' and pipeable:
            if len(xs) == 1 and xs[0] is not None:
                if sd == 'i': xs[0]-unit
                else: unit-xs[0]
            elif sd == 'i': tuple(xs)-unit
            else: unit-list(xs)
        else:
            U.ports(sd, u)[lo:hi] = xs if var != 'tuple' else tuple(xs)
    elif n == 'xslice':
        _, sd, u, lo, hi, st, args = op
        U.ports(sd, u)[lo:hi:st] = [U.arg(a) for a in args]
    elif n == 'xnew':
        _, nin, nout, fin, fout, fi, fo = op
        val = lambda f: form_value(U, f[1]) if f[0] == 'f' else U.clists[f[1]]      # the caller's list object itself
        unit = unit_class(nin, nout, fin, fout)(None, ins=val(fi), outs=val(fo))
        U.units.append(unit)
        for l in (unit.ins, unit.outs):
            for x in l:
                if is_real(x) and U.sid(x) == 999:
                    U.streams.append(x)
    elif n == 'lslice': U.ports(op[1], op[2])[op[3]:op[4]] = U.clists[op[5]]
    elif n == 'lextend': U.ports(op[1], op[2]).extend(U.clists[op[3]])
    elif n == 'cappend': U.clists[op[1]].append(U.item_value(op[2]))
    elif n == 'cset': U.clists[op[1]][op[2]] = U.item_value(op[3])
    elif n == 'cpop': U.clists[op[1]].pop()
    elif n == 'insert': U.ports(op[1], op[2]).insert(op[3], U.arg(op[4]))
    elif n == 'append': U.ports(op[1], op[2]).append(U.arg(op[3]))
    elif n == 'extend': U.ports(op[1], op[2]).extend([U.arg(a) for a in op[3]])
    elif n == 'replace': U.ports(op[1], op[2]).replace(U.arg(op[3]), U.arg(op[4]))
    elif n == 'pop': U.ports(op[1], op[2]).pop(op[3])
    elif n == 'remove': U.ports(op[1], op[2]).remove(U.arg(op[3]))
    elif n == 'clear': U.ports(op[1], op[2]).clear()
    elif n == 'empty': U.ports(op[1], op[2]).empty()
    elif n == 'disc':
        x = U.arg(op[2])
        if op[1] == 'i': x.disconnect_sink()
        else: x.disconnect_source()
    elif n == 'discboth': U.arg(op[1]).disconnect()
    elif n == 'uu': U.units[op[1]] - U.units[op[2]]
    elif n == 'udisc':
        kw = {}
        pi, po = udisc_lists(op)
        if pi is not None: kw['inlets'] = [ditem_value(U, d) for d in pi]
        if po is not None: kw['outlets'] = [ditem_value(U, d) for d in po]
        U.units[op[1]].disconnect(join_ends=bool(op[2]), **kw)
    elif n == 'uinsert':
        pin, pout = uinsert_ports(op)
        kw = {}
        if pin is not None: kw['inlet'] = port_value(U, pin)
        if pout is not None: kw['outlet'] = port_value(U, pout)
        U.units[op[1]].insert(U.arg(op[2]), **kw)
    elif n == 'take': U.units[op[1]].take_place_of(U.units[op[2]])
    elif n == 'repl': U.units[op[1]].replace_with(None if op[2] is None else U.units[op[2]])
    elif n == 'reconnect':
        _, src, si, a, ki, snk = op
        nw.Connection(None if src is None else U.units[src], si, U.arg(a), ki,
                      None if snk is None else U.units[snk]).reconnect()
    elif n == 'new':
        _, nin, nout, fin, fout, fi, fo = op
        unit = unit_class(nin, nout, fin, fout)(None, ins=form_value(U, fi), outs=form_value(U, fo))
        U.units.append(unit)
        for l in (unit.ins, unit.outs):
            for x in l:
                if is_real(x) and U.sid(x) == 999:
                    U.streams.append(x)
    else:
        raise ValueError(n)

class OpTimeout(Exception):
    pass

def guarded_apply(U, op, secs=2):
    """apply_op under a short alarm: with aliased port lists an operation may never return (a list that is
    extended while it is being iterated); an outer alarm of the driver is re-armed afterwards"""
    def handler(sig, frm): raise OpTimeout()
    old_handler = signal.signal(signal.SIGALRM, handler)
    remaining = signal.alarm(secs)
    try:
        return apply_op(U, op)
    finally:
        signal.alarm(0)
        signal.signal(signal.SIGALRM, old_handler)
        if remaining: signal.alarm(max(1, remaining))

def setup_ops(case):
    return [['new', u[0], u[1], u[2], u[3], ['none'], ['none']] for u in case['units']]

def exec_history(case, ops, per_step=None, pre_step=None):
    """run setup + ops on fresh real objects; returns the per-operation records"""
    U = Universe(case['ns'])
    U.load_clists(case.get('clists', []))
    recs = []
    with warnings.catch_warnings():
        warnings.simplefilter('ignore')
        for op in setup_ops(case) + list(ops):
            pre, exact = precondition(U, op)
            before = pre_step(U, op) if pre_step is not None else None
            err = None
            try:
                guarded_apply(U, op)
            except OpTimeout:
                # the operation does not return: report it and abandon the history (the lists may be huge by now)
                rec = {'err': 'EDim:Timeout', 'pre': pre, 'exact': exact, 'obs': recs[-1]['obs'] if recs else observe(U), 'timeout': True}
                recs.append(rec)
                return recs, f'{op[0]}: operation {op} does not return (a port list keeps growing: it is aliased with its argument)'
            except Exception as ex:
                err = ERR.get(type(ex).__name__, 'EDim:' + type(ex).__name__)
            rec = {'err': err, 'pre': pre, 'exact': exact, 'obs': observe(U)}
            if before is not None: rec['before'] = before
            recs.append(rec)
            if per_step is not None:
                stop = per_step(U, op, rec)
                if stop: return recs, stop
    return recs, None

HP = 2 ** 63
HB = 1000003
ECODE = {None: 0, 'EIndex': 1, 'EValue': 2, 'EType': 3, 'ERuntime': 4, 'EOther': 5}
def hmix(h, x): return (h * HB + x + 1) % HP
def hopt(h, o): return hmix(h, 0 if o is None else o + 1)
def hash_slots(h, l):
    h = hmix(h, len(l))
    for r, i, k, s in l:
        h = hopt(hopt(hmix(hmix(h, 1 if r else 0), i), k), s)
    return h
def hash_obs(h, o):
    h = hmix(h, len(o['units']))
    for ins, outs in o['units']:
        h = hash_slots(hash_slots(h, ins), outs)
    h = hmix(h, len(o['streams']))
    for k, s in o['streams']:
        h = hopt(hopt(h, k), s)
    return h
def hash_store(h, st):
    h = hmix(h, len(st))
    for l in st:
        h = hmix(h, len(l))
        for c in l: h = hmix(h, c)
    return h
def hstep(h, cmp, rec):
    h = hmix(hmix(h, ECODE.get(rec['err'], 9)), (1 if rec['pre'] else 0) if cmp else 2)
    return hash_obs(h, rec['obs'])

INEXACT = lambda op: op[0] in ('udisc', 'uinsert') or (op[0] == 'repl' and op[2] is None)

def histories_of(case):
    if 'histories' in case:
        return case['histories']
    A = case['alphabet']
    return [case['prefix'] + [A[i] for i in seq] for seq in itertools.product(range(len(A)), repeat=case['depth'])]

def run_impl(case):
    n0 = len(case['units'])
    if 'histories' not in case:      # exhaustive: sum of the checksums of every sequence over the alphabet
        npre = n0 + len(case['prefix'])
        total, errs, changed = 0, {}, 0
        for ops in histories_of(case):
            recs, _ = exec_history(case, ops)
            h = hash_obs(0, recs[npre - 1]['obs'])
            for op, r in zip(ops[len(case['prefix']):], recs[npre:]):
                h = hstep(h, not INEXACT(op), r)
                key = f'op:{op[0]}:{"raise:" + r["err"] if r["err"] else "ok"}:{"pre" if r["pre"] else "nopre"}'
                errs[key] = errs.get(key, 0) + 1
            if recs[-1]['obs'] != recs[npre - 1]['obs']: changed += 1
            total = (total + h) % HP
        return {'sum': str(total), 'n': len(A_of(case)) ** case['depth'], 'tags': errs, 'changed': changed}
    out = {'h': []}
    xmode = 'clists' in case
    for ops in case['histories']:
        recs, _ = exec_history(case, ops)
        inpre = True
        cmps = []
        h = hash_obs(0, recs[n0 - 1]['obs'])
        if xmode: h = hash_store(h, recs[n0 - 1]['obs']['store'])
        for r in recs[n0:]:
            # flags of sufficient-only conditions are compared only while the history is inside the preconditions
            cmp = bool(r['exact'] or (inpre and r['pre']))
            inpre = inpre and r['pre']
            cmps.append(cmp)
            h = hstep(h, cmp, r)
            if xmode: h = hash_store(h, r['obs']['store'])
        out['h'].append({'hash': str(h), 'cmps': cmps, 'errs': [r['err'] for r in recs[n0:]], 'pres': [r['pre'] for r in recs[n0:]],
                         'final': recs[-1]['obs'], 'changed': any(a['obs'] != b['obs'] for a, b in zip(recs[n0 - 1:], recs[n0:]))})
    return out

def A_of(case): return case['alphabet']

# ------------------------------------------------------------------ model side
def cz(i): return f'({int(i)})%Z'
def csd(sd): return 'SIn' if sd == 'i' else 'SOut'
def carg(a):
    k = a[0]
    if k == 'S': return f'(AObj (S_ {a[1]}))'
    if k == 'At': return f'(AAt {csd(a[1])} {a[2]} {a[3]})'
    if k == 'None': return 'ANone'
    return 'AJunk'
def citem(it):
    return 'INew' if it[0] == 'new' else (f'(IReal {it[1]})' if it[0] == 'S' else 'INone')
def cform(f):
    if f[0] == 'none': return 'FNone'
    if f[0] == 'empty': return 'FEmpty'
    if f[0] == 'one': return f'(FOne {citem(f[1])})'
    return f'(FList {clist(f[1], citem)})'
def cport(p):
    if p is None: return 'PNone'
    if p[0] == 'idx': return f'(PIndex {cz(p[1])})'
    return f'(PArg {carg(p[1])})'
def cxop(op):
    n = op[0]
    citm = lambda it: 'INew' if it[0] == 'new' else (f'(IReal {it[1]})' if it[0] == 'S' else 'INone')
    cxf = lambda f: f'(XF {cform(f[1])})' if f[0] == 'f' else f'(XV {f[1]})'
    if n == 'xnew': return f'(XNewUnit {op[1]} {op[2]} {cbool(op[3])} {cbool(op[4])} {cxf(op[5])} {cxf(op[6])})'
    if n == 'lslice': return f'(XSlice {csd(op[1])} {op[2]} {copt(op[3], cz)} {copt(op[4], cz)} {op[5]})'
    if n == 'lextend': return f'(XExtend {csd(op[1])} {op[2]} {op[3]})'
    if n == 'cappend': return f'(XCAppend {op[1]} {citm(op[2])})'
    if n == 'cset': return f'(XCSet {op[1]} {op[2]} {citm(op[3])})'
    if n == 'cpop': return f'(XCPop {op[1]})'
    return f'(XOp {cop(op)})'
def cop(op):
    n = op[0]
    if n == 'set': return f'(OSet {csd(op[1])} {op[2]} {cz(op[3])} {carg(op[4])})'
    if n == 'slice': return f'(OSetSlice {csd(op[1])} {op[2]} {copt(op[3], cz)} {copt(op[4], cz)} {clist(op[5], carg)})'
    if n == 'xslice': return f'(OSetSliceStep {csd(op[1])} {op[2]} {copt(op[3], cz)} {copt(op[4], cz)} {cz(op[5])} {clist(op[6], carg)})'
    if n == 'insert': return f'(OInsert {csd(op[1])} {op[2]} {cz(op[3])} {carg(op[4])})'
    if n == 'append': return f'(OAppend {csd(op[1])} {op[2]} {carg(op[3])})'
    if n == 'extend': return f'(OExtend {csd(op[1])} {op[2]} {clist(op[3], carg)})'
    if n == 'replace': return f'(OReplace {csd(op[1])} {op[2]} {carg(op[3])} {carg(op[4])})'
    if n == 'pop': return f'(OPop {csd(op[1])} {op[2]} {cz(op[3])})'
    if n == 'remove': return f'(ORemove {csd(op[1])} {op[2]} {carg(op[3])})'
    if n == 'clear': return f'(OClear {csd(op[1])} {op[2]})'
    if n == 'empty': return f'(OEmpty {csd(op[1])} {op[2]})'
    if n == 'disc': return f'(ODisc {csd(op[1])} {carg(op[2])})'
    if n == 'discboth': return f'(ODiscBoth {carg(op[1])})'
    if n == 'uu': return f'(OPipeUU {op[1]} {op[2]})'
    if n == 'udisc':
        pi, po = udisc_lists(op)
        cd = lambda d: f'(DIdx {cz(d[1])})' if d[0] == 'idx' else f'(DArg {carg(d[1])})'
        cl = lambda l: 'None' if l is None else f'(Some {clist(l, cd)})'
        return f'(OUnitDisconnect {op[1]} {cbool(op[2])} {cl(pi)} {cl(po)})'
    if n == 'uinsert':
        pin, pout = uinsert_ports(op)
        return f'(OUnitInsert {op[1]} {carg(op[2])} {cport(pin)} {cport(pout)})'
    if n == 'take': return f'(OTakePlaceOf {op[1]} {op[2]})'
    if n == 'repl': return f'(OReplaceWith {op[1]} {copt(op[2])})'
    if n == 'reconnect': return f'(OReconnect {copt(op[1])} {cz(op[2])} {carg(op[3])} {cz(op[4])} {copt(op[5])})'
    if n == 'new': return f'(ONewUnit {op[1]} {op[2]} {cbool(op[3])} {cbool(op[4])} {cform(op[5])} {cform(op[6])})'
    raise ValueError(n)

def cslot(s): return f'({cbool(s[0])}, {s[1]}, {copt(s[2])}, {copt(s[3])})'
def cobs(o):
    units = clist(o['units'], lambda r: f'({clist(r[0], cslot)}, {clist(r[1], cslot)})')
    streams = clist(o['streams'], lambda p: f'({copt(p[0])}, {copt(p[1])})')
    return f'({units}, {streams})'

STEP = 'step'     # 'step_found' = the tree before pending_fixes/C18_1_pop_undock.diff

def coq_case(case, out):
    w0 = f'run (empty_world {case["ns"]}) {clist(setup_ops(case), cop)}'
    if 'histories' not in case:
        return (f'(check_enum {STEP} (run ({w0}) {clist(case["prefix"], cop)}) {clist(case["alphabet"], cop)} '
                f'{case["depth"]} ({out["sum"]})%uint63)')
    if 'clists' in case:
        st = clist(case['clists'], lambda l: clist(l, citem))
        terms = [f'check_xhist w0 {st} {clist(ops, cxop)} {clist(r["cmps"], cbool)} ({r["hash"]})%uint63 {cobs(r["final"])} '
                 f'{clist(r["final"]["store"], lambda l: clist(l, str))}' for ops, r in zip(case['histories'], out['h'])]
    else:
        terms = [f'check_hist {STEP} w0 {clist(ops, cop)} {clist(r["cmps"], cbool)} ({r["hash"]})%uint63 {cobs(r["final"])}'
                 for ops, r in zip(case['histories'], out['h'])]
    return f'(let w0 := {w0} in ' + (' && '.join(terms) if terms else 'true') + ')'

def coq_show(case, out):
    ops = histories_of(case)[0]
    if 'clists' in case:
        st = clist(case['clists'], lambda l: clist(l, citem))
        return f'(xtrace (run (empty_world {case["ns"]}) {clist(setup_ops(case), cop)}, {st}) {clist(ops, cxop)})'
    return f'(trace {STEP} (run (empty_world {case["ns"]}) {clist(setup_ops(case), cop)}) {clist(ops, cop)})'

def nontrivial(case, out):
    if 'histories' not in case:
        return out.get('changed', 0) > 0
    return any(r['changed'] for r in out.get('h', []))

def classify(case, out):
    ks = ['kind:' + case.get('kind', 'random')]
    if 'histories' not in case:
        ks.append(f'exhaustive:sequences:{out.get("n")}')
        return ks + [k for k in out.get('tags', {})]
    for ops, r in zip(case['histories'], out.get('h', [])):
        ks.append('len:%02d-%02d' % (len(ops) // 10 * 10, len(ops) // 10 * 10 + 9))
        for op, e, p in zip(ops, r['errs'], r['pres']):
            tag = op[0] + (':' + op[-1] if op[0] in ('set', 'slice') else '')
            ks.append(f'op:{tag}:{"raise:" + e if e else "ok"}:{"pre" if p else "nopre"}')
        ks.append('history:' + ('within-preconditions' if all(r['pres']) else 'leaves-preconditions'))
    return ks

# ------------------------------------------------------------------ direct oracle: the property on the real objects
def invariant(U):
    nw = env()['nw']
    for k, unit in enumerate(U.units):
        for sd, L, fixed, size in (('i', unit.ins, unit._ins_size_is_fixed, unit._N_ins),
                                   ('o', unit.outs, unit._outs_size_is_fixed, unit._N_outs)):
            name = f'unit {k}.{"ins" if sd == "i" else "outs"}'
            l = list(L)
            if fixed and len(l) != size: return f'{name}: fixed-size list has {len(l)} ports instead of {size}'
            if len({id(x) for x in l}) != len(l): return f'{name}: the same object occupies two ports'
            for j, x in enumerate(l):
                if ptr(x, sd) is not unit:
                    what = f'stream {U.sid(x)}' if is_real(x) else 'placeholder'
                    return f'{name}[{j}]: {what} is listed but its {"sink" if sd == "i" else "source"} is {U.uid(ptr(x, sd))}'
                if not is_real(x):
                    if not isinstance(x, nw.AbstractMissingStream) or bool(x):
                        return f'{name}[{j}]: placeholder is not an empty missing stream'
    # every stream of the universe, and every placeholder that can be reached through some port list
    # (placeholders are shared between units by u1-u2, take_place_of, item assignment), is listed where it points
    objs = [(f'stream {k}', s) for k, s in enumerate(U.streams)]
    seen = set()
    for k, unit in enumerate(U.units):
        for nm, L in (('ins', unit.ins), ('outs', unit.outs)):
            for j, x in enumerate(L):
                if not is_real(x) and id(x) not in seen:
                    seen.add(id(x)); objs.append((f'placeholder at unit {k}.{nm}[{j}]', x))
    for name, s in objs:
        for sd in ('i', 'o'):
            p = ptr(s, sd)
            if p is not None:
                pk = U.uid(p)
                L = None if pk == 999 else U.ports(sd, pk)
                if L is None or idx(s, list(L)) is None:
                    return (f'{name}: {"sink" if sd == "i" else "source"} is unit {pk} but it is not among its '
                            f'{"inlets" if sd == "i" else "outlets"}')
    return None

# ---- positional clauses: the vacated port (and only it) receives the placeholder; no other port changes
class NEWPH: pass

def snapshot(U, op):
    snap = {(k, sd): list(U.ports(sd, k)) for k in range(len(U.units)) for sd in 'io'}
    n = op[0]
    args = {}
    if n in ('set', 'insert'): args['x'] = U.arg(op[4])
    elif n in ('append', 'remove'): args['x'] = U.arg(op[3])
    elif n == 'replace': args['a'] = U.arg(op[3]); args['x'] = U.arg(op[4])
    elif n == 'disc': args['x'] = U.arg(op[2])
    return {'lists': snap, 'args': args, 'nunits': len(U.units), 'clists': [list(l) for l in U.clists]}

def positional(U, op, before):
    """expected contents of every port list after a successful single-port operation, by object identity"""
    n = op[0]
    if n not in ('set', 'replace', 'pop', 'remove', 'disc', 'insert', 'append'): return None
    lists, args = before['lists'], before['args']
    if n == 'disc':
        x = args['x']; sd = op[1]
        unit = None
        for (k, s_), l in lists.items():
            if s_ == sd and idx(x, l) is not None: unit = k
        if unit is None: return None
        T = (unit, sd)
    else:
        T = (op[2], op[1])
    old = lists[T]; fixed, size = fixed_of(U, T[1], T[0])
    X = args.get('x')
    moved = X if is_obj(X) else None
    if n == 'set':
        k = norm_index(op[3], len(old)); new_obj = X if is_obj(X) else NEWPH
        exp = old + [new_obj] if k is None else old[:k] + [new_obj] + old[k + 1:]
    elif n == 'replace':
        k = idx(args['a'], old)
        if k is None: return None
        exp = old[:k] + [X if is_obj(X) else NEWPH] + old[k + 1:]
    elif n == 'pop':
        k = norm_index(op[3], len(old)); moved = None
        if k is None: return None
        exp = old[:k] + [NEWPH] + old[k + 1:] if fixed else old[:k] + old[k + 1:]
    elif n in ('remove', 'disc'):
        k = idx(X, old); moved = None
        if k is None or not fixed: return None      # the property speaks about fixed-size lists only
        exp = old[:k] + [NEWPH] + old[k + 1:]
    elif n == 'insert':
        c = slice(op[3], None).indices(len(old))[0]
        exp = old[:c] + [X] + old[c:]
    else:
        exp = old + [X]
    oldids = {id(y) for l in lists.values() for y in l}
    def same(name, j, e, g, k_hint=None):
        if e is NEWPH:
            if is_real(g) or id(g) in oldids:
                what = f'stream {U.sid(g)}' if is_real(g) else 'an existing placeholder'
                return f'{name}[{j}]: vacated port holds {what} instead of a new placeholder'
        elif g is not e:
            return f'{name}[{j}]: port changed although the operation did not address it'
        return None
    for (k, sd), l in lists.items():
        name = f'unit {k}.{"ins" if sd == "i" else "outs"}'
        now = list(U.ports(sd, k))
        if (k, sd) == T:
            if len(now) != len(exp): return f'{name}: has {len(now)} ports, expected {len(exp)}'
            for j, (e, g) in enumerate(zip(exp, now)):
                m = same(name, j, e, g)
                if m: return m
        else:
            if len(now) != len(l): return f'{name}: has {len(now)} ports, expected {len(l)} (the operation addressed another list)'
            for j, (e, g) in enumerate(zip(l, now)):
                if sd == T[1] and moved is not None and e is moved: e = NEWPH
                m = same(name, j, e, g)
                if m: return m
    return None

def ownership(U, op, before):
    """a unit owns its port lists: no port list is the list object of another port list or of the caller; an
    operation that is given a caller's list leaves that list as it was; the caller's own edits change no port list"""
    owners = {}
    for k, unit in enumerate(U.units):
        for nm, L in (('ins', unit.ins), ('outs', unit.outs)):
            name = f'unit {k}.{nm}'
            lo = L._streams
            for j, cl in enumerate(U.clists):
                if lo is cl: return f'{name}: its port list IS the caller\'s list object #{j}'
            if id(lo) in owners: return f'{name}: shares one list object with {owners[id(lo)]}'
            owners[id(lo)] = name
    if before is None: return None
    if op[0] in ('cappend', 'cset', 'cpop'):
        for (k, sd), l in before['lists'].items():
            now = list(U.ports(sd, k))
            if len(now) != len(l) or any(a is not b for a, b in zip(now, l)):
                return f'unit {k}.{"ins" if sd == "i" else "outs"}: changed when the caller edited its own list #{op[1]}'
    else:
        for j, l in enumerate(before['clists']):
            now = U.clists[j]
            if len(now) != len(l) or any(a is not b for a, b in zip(now, l)):
                return f'caller\'s list #{j} was modified by the operation it was (or was not even) passed to'
    return None

def oracle(case):
    for h, ops in enumerate(histories_of(case)):
        state = {'inpre': True, 'n': 0}
        n0 = len(case['units'])
        def per_step(U, op, rec):
            state['n'] += 1
            state['inpre'] = state['inpre'] and rec['pre']
            if not state['inpre']: return 'left-preconditions'
            msg = invariant(U) or ownership(U, op, rec.get('before'))
            if not msg and rec['err'] is None:
                msg = positional(U, op, rec['before'])
            if msg:
                return f'{op[0]}: after operation #{state["n"] - n0} {op} of history {h}: {msg}'
            return None
        recs, stop = exec_history(case, ops, per_step, snapshot)
        if recs and recs[-1].get('timeout'):
            if state['inpre'] and recs[-1]['pre']: return stop
            continue
        if stop and stop != 'left-preconditions':
            return stop
    return None

def shrink(case):
    """keep the first failing history and delete operations while the oracle still fails"""
    for ops in histories_of(case):
        c = {'kind': 'shrunk', 'units': case['units'], 'ns': case['ns'], 'histories': [list(ops)]}
        if 'clists' in case: c['clists'] = case['clists']
        if oracle(c):
            break
    else:
        return case
    ops = c['histories'][0]
    changed = True
    while changed:
        changed = False
        for k in range(len(ops) - 1, -1, -1):
            trial = ops[:k] + ops[k + 1:]
            if oracle(dict(c, histories=[trial])):
                ops = trial; changed = True
    return dict(c, histories=[ops])

def finding_key(case, msg):
    op = msg.split(':')[0]
    kind = ('dangling' if 'is not among its' in msg else 'listed' if 'is listed but' in msg
            else 'ownership' if ('list object' in msg or "caller's list" in msg or 'caller edited' in msg) else 'position' if ('vacated port' in msg or 'port changed' in msg or 'ports, expected' in msg) else 'other')
    return f'C18:{op}:{kind}'

# ------------------------------------------------------------------ generators
def rand_arg(rng, U, real_p=0.7):
    r = rng.random()
    if r < real_p: return ['S', rng.randrange(len(U.streams))]
    if r < real_p + 0.22: return ['At', rng.choice('io'), rng.randrange(len(U.units)), rng.randrange(4)]
    if r < real_p + 0.27: return ['None']
    return ['None'] if rng.random() < 0.5 else ['Junk']

def undocked(rng, U, sd):
    c = [k for k, s in enumerate(U.streams) if ptr(s, sd) is None]
    return ['S', rng.choice(c)] if c else None

def not_in(rng, U, sd, u):
    L = list(U.ports(sd, u))
    c = [k for k, s in enumerate(U.streams) if idx(s, L) is None]
    return ['S', rng.choice(c)] if c else None

def member(rng, U, sd, u):
    L = list(U.ports(sd, u))
    if not L: return None
    k = rng.randrange(len(L))
    return ['S', U.sid(L[k])] if is_real(L[k]) else ['At', sd, u, k]

OPS = ['set'] * 10 + ['slice'] * 6 + ['xslice'] * 2 + ['insert'] * 3 + ['append'] * 4 + ['extend'] * 2 + ['replace'] * 4 + ['pop'] * 4 + \
      ['remove'] * 4 + ['clear'] * 1 + ['empty'] * 1 + ['disc'] * 4 + ['discboth'] * 2 + ['uu'] * 3 + ['udisc'] * 2 + \
      ['uinsert'] * 4 + ['take'] * 2 + ['repl'] * 2 + ['reconnect'] * 2 + ['new'] * 2

def gen_op(rng, U, valid):
    nu = len(U.units)
    n = rng.choice(OPS)
    sd = rng.choice('io'); u = rng.randrange(nu)
    L = list(U.ports(sd, u)); fixed, size = fixed_of(U, sd, u)
    if n == 'set':
        i = rng.randrange(len(L)) if L and rng.random() < 0.85 else rng.choice([-1, -2, len(L), len(L) + 2, -len(L) - 1])
        a = (not_in(rng, U, sd, u) if valid and rng.random() < 0.9 else None) or rand_arg(rng, U)
        return ['set', sd, u, i, a, rng.choice(['item', 'item', 'pipe', 'pow'])]
    if n == 'slice':
        lo = rng.choice([None, None, 0, 1, -1, 2, 5]); hi = rng.choice([None, None, 1, 2, -1, 0, 7])
        k = rng.randint(0, 3)
        if valid:
            if fixed:
                a, b, _ = slice(lo, hi).indices(len(L)); b = max(a, b)
                k = min(k, max(0, size - (len(L) - (b - a))))
            pool = [j for j, s in enumerate(U.streams) if idx(s, L) is None]
            rng.shuffle(pool)
            args = [['S', j] for j in pool[:k]]
            if rng.random() < 0.3 and len(args) < k: args.append(['None'])
        else:
            args = [rand_arg(rng, U) for _ in range(k)]
        return ['slice', sd, u, lo, hi, args, rng.choice(['item', 'tuple', 'pipe'])]
    if n == 'xslice':
        lo = rng.choice([None, None, 0, 1, -1, 2, 5, -3]); hi = rng.choice([None, None, 1, 2, -1, 0, 7, -4])
        st = rng.choice([2, 2, -1, -1, -2, 3, 1, 0] if not valid else [2, 2, -1, -1, -2, 3])
        npos = len(range(*slice(lo, hi, st).indices(len(L)))) if st != 0 else 1
        k = npos if (valid or rng.random() < 0.6) else rng.randint(0, 3)
        if valid:
            pool = [j for j, s in enumerate(U.streams) if idx(s, L) is None]
            rng.shuffle(pool)
            args = [['S', j] for j in pool[:k]]
            while len(args) < k: args.append(['None'])
        else:
            args = [rand_arg(rng, U) for _ in range(k)]
        return ['xslice', sd, u, lo, hi, st, args]
    if n in ('insert', 'append', 'extend'):
        if valid:
            vs = [v for v in range(nu) if not fixed_of(U, sd, v)[0]]
            if vs: u = rng.choice(vs)
        if n == 'extend':
            if valid:
                c = [k for k, s in enumerate(U.streams) if ptr(s, sd) is None]
                rng.shuffle(c)
                return ['extend', sd, u, [['S', k] for k in c[:rng.randint(0, 3)]]]
            return ['extend', sd, u, [rand_arg(rng, U) for _ in range(rng.randint(0, 3))]]
        a = (undocked(rng, U, sd) if valid else None) or rand_arg(rng, U)
        if n == 'insert': return ['insert', sd, u, rng.choice([0, 1, -1, 5, -7, 2]), a]
        return ['append', sd, u, a]
    if n == 'replace':
        a = (member(rng, U, sd, u) if rng.random() < 0.9 else None) or rand_arg(rng, U)
        b = (not_in(rng, U, sd, u) if valid and rng.random() < 0.85 else None) or rand_arg(rng, U)
        return ['replace', sd, u, a, b]
    if n == 'pop':
        i = rng.randrange(len(L)) if L and rng.random() < 0.85 else rng.choice([-1, len(L), -len(L) - 1])
        return ['pop', sd, u, i]
    if n == 'remove':
        a = (member(rng, U, sd, u) if rng.random() < 0.9 else None) or rand_arg(rng, U)
        return ['remove', sd, u, a]
    if n == 'clear':
        if valid:
            vs = [v for v in range(nu) if not fixed_of(U, sd, v)[0]]
            if vs: u = rng.choice(vs)
        return ['clear', sd, u]
    if n == 'empty': return ['empty', sd, u]
    if n == 'disc':
        a = rand_arg(rng, U, 0.75)
        while a[0] in ('None', 'Junk'): a = rand_arg(rng, U, 0.75)
        return ['disc', sd, a]
    if n == 'discboth':
        a = rand_arg(rng, U, 0.75)
        while a[0] in ('None', 'Junk'): a = rand_arg(rng, U, 0.75)
        return ['discboth', a]
    if n == 'uu': return ['uu', u, rng.randrange(nu)]
    if n == 'udisc':
        join = rng.random() < 0.5
        if rng.random() < 0.5: return ['udisc', u, join]
        def items(lst):
            if rng.random() < 0.3: return None
            L_ = list(lst); out = []
            for _ in range(rng.randint(0, 2)):
                r = rng.random()
                reals = [U.sid(x) for x in L_ if is_real(x)]
                if r < 0.45 and reals: out.append(['arg', ['S', rng.choice(reals)]])
                elif r < 0.85: out.append(['idx', rng.randrange(len(L_)) if L_ and (valid or rng.random() < 0.8) else rng.choice([-1, len(L_), 4])])
                else: out.append(['arg', rand_arg(rng, U, 0.6)])
            return out
        return ['udisc', u, join, items(U.units[u].ins), items(U.units[u].ins if rng.random() < 0.5 else U.units[u].outs)]
    if n == 'uinsert':
        def port(lst, sd_, v):
            r = rng.random()
            if r < 0.5: return None
            L_ = list(lst)
            if r < 0.75: return ['idx', rng.randrange(len(L_)) if L_ and rng.random() < 0.9 else rng.choice([-1, len(L_), 3])]
            reals = [U.sid(x) for x in L_ if is_real(x)]
            if reals and rng.random() < 0.85: return ['arg', ['S', rng.choice(reals)]]
            return ['arg', rand_arg(rng, U, 0.6)]
        if valid:
            explicit = rng.random() < 0.4
            vs = [v for v in range(nu) if explicit or (fixed_of(U, 'o', v) == (True, 1)
                  and (fixed_of(U, 'i', v) == (True, 1) or not fixed_of(U, 'i', v)[0]))]
            if vs:
                v = rng.choice(vs)
                need_source = fixed_of(U, 'i', v)[0] or explicit
                c = [k for k, s in enumerate(U.streams) if s._sink is not None and (s._source is not None or not need_source)
                     and idx(s, list(U.units[v].outs)) is None and idx(s, list(U.units[v].ins)) is None]
                if c:
                    if not explicit: return ['uinsert', v, ['S', rng.choice(c)]]
                    pout = port(U.units[v].outs, 'o', v)
                    if pout is None and fixed_of(U, 'o', v) != (True, 1):
                        pout = ['idx', rng.randrange(max(1, len(U.units[v].outs)))]
                    return ['uinsert', v, ['S', rng.choice(c)], port(U.units[v].ins, 'i', v), pout]
        if rng.random() < 0.5: return ['uinsert', u, rand_arg(rng, U, 0.9)]
        return ['uinsert', u, rand_arg(rng, U, 0.9), port(U.units[u].ins, 'i', u), port(U.units[u].outs, 'o', u)]
    if n == 'take': return ['take', u, rng.randrange(nu)]
    if n == 'repl': return ['repl', u, rng.choice([None, rng.randrange(nu)])]
    if n == 'reconnect':
        a = ['S', rng.randrange(len(U.streams))] if rng.random() < 0.85 else ['At', rng.choice('io'), u, rng.randrange(3)]
        src = rng.choice([None, rng.randrange(nu)]); snk = rng.choice([None, rng.randrange(nu)])
        return ['reconnect', src, rng.randrange(3), a, rng.randrange(3), snk]
    if n == 'new':
        nin, nout = rng.randint(1, 3), rng.randint(1, 3)
        fin, fout = rng.random() < 0.5, rng.random() < 0.5
        used = set()
        def form(fixed, size, allow_over, sd_):
            r = rng.random()
            if r < 0.2: return ['none']
            if r < 0.35: return ['empty']
            def item():
                q = rng.random()
                if q < 0.6:
                    c = [k for k in range(len(U.streams)) if k not in used]
                    # the constructor "steals" a stream that is docked on that side of another unit: prefer those
                    docked = [k for k in c if ptr(U.streams[k], sd_) is not None]
                    if docked and rng.random() < 0.6: c = docked
                    if c:
                        k = rng.choice(c); used.add(k); return ['S', k]
                if q < 0.8: return ['None']
                return ['new']
            if r < 0.5:
                it = item()
                while it[0] == 'None': it = item()
                return ['one', it]
            k = rng.randint(0, size if (fixed and not allow_over) else size + 1)
            return ['list', [item() for _ in range(k)]]
        fi = form(fin, nin, True, 'i')
        if fi[0] == 'list' and fin and len(fi[1]) > nin:
            fi = ['list', [it if it[0] != 'S' else ['new'] for it in fi[1]]]
        used = set()
        fo = form(fout, nout, False, 'o')
        return ['new', nin, nout, fin, fout, fi, fo]
    raise ValueError(n)

def gen_universe(rng, nu):
    units = []
    for k in range(nu):
        fin, fout = rng.random() < 0.55, rng.random() < 0.6
        units.append([rng.choice([1, 1, 2, 3]), rng.choice([1, 1, 2, 2, 3]), fin, fout])
    units[0][2] = True; units[0][3] = True
    units[1][2] = False
    units[2][3] = False
    if rng.random() < 0.7: units[-1] = [1, 1, True, True]
    return units

def gen_history(rng, units, ns, nops, p_valid):
    """stateful: operations are chosen while looking at the real objects the history has produced so far"""
    case = {'units': units, 'ns': ns}
    U = Universe(ns)
    ops = []
    with warnings.catch_warnings():
        warnings.simplefilter('ignore')
        for op in setup_ops(case):
            apply_op(U, op)
        for _ in range(nops):
            op = gen_op(rng, U, rng.random() < p_valid)
            ops.append(op)
            try:
                guarded_apply(U, op)
            except OpTimeout:
                break
            except Exception:
                pass
    return ops

def alphabet(units, ns):
    """fixed operation alphabet for exhaustive enumeration on a 3-unit / 5-stream universe"""
    A = []
    for sd in 'io':
        for u in range(3):
            A += [['set', sd, u, 0, ['S', 0], 'item'], ['set', sd, u, 1, ['S', 1], 'pipe'], ['set', sd, u, 0, ['At', 'o', 0, 0], 'item'],
                  ['append', sd, u, ['S', 2]], ['insert', sd, u, 0, ['S', 3]], ['pop', sd, u, 0], ['remove', sd, u, ['At', sd, u, 0]],
                  ['slice', sd, u, None, None, [['S', 0], ['S', 4]], 'item'], ['slice', sd, u, 0, 1, [['S', 1]], 'item'],
                  ['xslice', sd, u, None, None, -1, [['S', 3], ['S', 2]]],
                  ['replace', sd, u, ['At', sd, u, 0], ['S', 2]]]
        for s in range(2):
            A.append(['disc', sd, ['S', s]])
    A += [['uu', 0, 1], ['uu', 1, 2], ['uu', 2, 0], ['uu', 1, 1], ['udisc', 1, True], ['udisc', 0, False], ['udisc', 1, False, [['idx', 0]], [['idx', 0]]],
          ['udisc', 2, True, [['arg', ['At', 'i', 2, 0]]], None], ['uinsert', 0, ['S', 0]], ['uinsert', 1, ['S', 1]], ['uinsert', 2, ['S', 0], ['idx', 0], ['idx', 1]],
          ['uinsert', 1, ['S', 2], None, ['idx', 0]], ['uinsert', 2, ['S', 1], ['arg', ['At', 'i', 2, 0]], ['arg', ['At', 'o', 2, 0]]],
          ['take', 2, 1], ['repl', 1, None], ['repl', 0, 2], ['discboth', ['S', 0]], ['empty', 'i', 1], ['clear', 'o', 2],
          ['extend', 'i', 1, [['S', 3], ['S', 4]]]]
    return A

EXH_UNITS = [[1, 1, True, True], [2, 1, False, True], [2, 2, True, False]]

def exhaustive_cases(rng, depth, nprefix, A=None, empty_prefix=True):
    A = A or alphabet(EXH_UNITS, 5)
    prefixes = ([[]] if empty_prefix else []) + [gen_history(rng, EXH_UNITS, 5, rng.randint(3, 8), 1.0) for _ in range(nprefix)]
    return [{'kind': f'exhaustive-depth{depth}', 'units': EXH_UNITS, 'ns': 5, 'prefix': p, 'alphabet': A, 'depth': depth}
            for p in prefixes]

def gen_alias_case(rng, nops):
    """histories in which python list objects owned by the caller are passed to constructors, slice assignment
    and extend(), passed again later, and edited by the caller in between (stateful, all choices from rng)"""
    nu = rng.randint(2, 3); ns = rng.randint(5, 8)
    units = gen_universe(rng, 3)[:nu] if nu == 3 else [[1, 1, True, True], [2, 1, False, True]]
    def item():
        r = rng.random()
        return ['S', rng.randrange(ns)] if r < 0.75 else (['None'] if r < 0.9 else ['new'])
    clists = []
    for _ in range(rng.randint(2, 3)):
        l = []
        for _ in range(rng.randint(0, 3)):
            it = item()
            if it[0] != 'S' or it not in l: l.append(it)
        clists.append(l)
    case = {'kind': 'alias', 'units': units, 'ns': ns, 'clists': clists}
    U = Universe(ns); U.load_clists(clists)
    ops = []
    def candidate():
        r = rng.random(); k = rng.randrange(len(U.clists)); nuu = len(U.units)
        if r < 0.3:
            fin, fout = rng.random() < 0.35, rng.random() < 0.35
            nin, nout = rng.randint(1, 3), rng.randint(1, 3)
            side = rng.choice(['i', 'o', 'b'])
            other = lambda: ['f', rng.choice([['none'], ['none'], ['empty']])]
            fi = ['v', k] if side in 'ib' else other()
            fo = ['v', k if rng.random() < 0.5 else rng.randrange(len(U.clists))] if side in 'ob' else other()
            return ['xnew', nin, nout, fin, fout, fi, fo]
        if r < 0.55:
            q = rng.random()
            if q < 0.5: return ['cappend', k, item()]
            if q < 0.8: return ['cset', k, rng.randrange(max(1, len(U.clists[k]) + (0 if rng.random() < 0.9 else 1))), item()]
            return ['cpop', k]
        sd = rng.choice('io'); u = rng.randrange(nuu)
        if r < 0.67: return ['lslice', sd, u, rng.choice([None, None, 0, 1, -1]), rng.choice([None, None, 1, 2]), k]
        if r < 0.8: return ['lextend', sd, u, k]
        return gen_op(rng, U, True)
    with warnings.catch_warnings():
        warnings.simplefilter('ignore')
        for op in setup_ops(case):
            apply_op(U, op)
        for _ in range(nops):
            valid = rng.random() < 0.8
            op = candidate()
            for _ in range(5):
                if not valid: break
                try:
                    if precondition(U, op)[0]: break
                except Exception:
                    pass
                op = candidate()
            if op[0] == 'xnew' and not precondition(U, op)[0]:
                # a constructor list with the same stream twice / an oversize outs list raises in the middle of the
                # construction (outside the modelled domain): the caller edits its list instead
                op = ['cpop', op[5][1] if op[5][0] == 'v' else op[6][1]]
            ops.append(op)
            try:
                guarded_apply(U, op)
            except OpTimeout:
                break
            except Exception:
                pass
    case['histories'] = [ops]
    return case

def gen_cases(rng, tier):
    env()
    cases = []
    n = 300 if tier == 'quick' else 4000
    for k in range(n):
        nu = rng.randint(3, 5); ns = rng.randint(5, 8)
        units = gen_universe(rng, nu)
        nops = rng.randint(5, 50)
        p_valid = rng.choice([1.0, 1.0, 0.9, 0.8, 0.8, 0.5])
        cases.append({'kind': 'random', 'units': units, 'ns': ns, 'histories': [gen_history(rng, units, ns, nops, p_valid)]})
    for k in range(60 if tier == 'quick' else 600):
        cases.append(gen_alias_case(rng, rng.randint(4, 25)))
    A = alphabet(EXH_UNITS, 5)
    small = A[::3]
    if tier == 'quick':
        cases += exhaustive_cases(rng, 1, 12) + exhaustive_cases(rng, 2, 3) + exhaustive_cases(rng, 3, 1, small, empty_prefix=False)
    else:
        cases += (exhaustive_cases(rng, 1, 60) + exhaustive_cases(rng, 2, 16)
                  + exhaustive_cases(rng, 3, 6, small, empty_prefix=False))
        # depth 3 over the full alphabet from the initial universe, one case per first operation (every other one)
        cases += [{'kind': 'exhaustive-depth3', 'units': EXH_UNITS, 'ns': 5, 'prefix': [a], 'alphabet': A, 'depth': 2} for a in A[::2]]
    return cases

def search_cases(rng, tier):
    out = []
    for k in range(300):
        units = gen_universe(rng, rng.randint(3, 5)); ns = rng.randint(5, 8)
        out.append({'kind': 'random', 'units': units, 'ns': ns, 'histories': [gen_history(rng, units, ns, rng.randint(5, 40), 1.0)]})
    for k in range(100):
        out.append(gen_alias_case(rng, rng.randint(3, 15)))
    return out

# minimised past failures (run first)
CORPUS = [
    # DESIGN.md section 5 item 13: pop on a variable-size list left the sink set (repaired by pending_fixes/C18_1_pop_undock.diff)
    {'kind': 'corpus', 'units': [[1, 1, True, True], [2, 1, False, True], [2, 2, True, False]], 'ns': 5,
     'histories': [[['append', 'i', 1, ['S', 0]], ['pop', 'i', 1, 2]]]},
]
CORPUS.append(
    # harness precondition formula: unit.insert(s, inlet=s) on a unit the stream loops through (found in the thorough tier)
    {'kind': 'corpus', 'units': [[2, 1, False, True], [1, 1, True, True]], 'ns': 3,
     'histories': [[['set', 'o', 0, 0, ['S', 0], 'item'], ['set', 'i', 0, 0, ['S', 0], 'item'],
                    ['uinsert', 0, ['S', 0], ['arg', ['S', 0]], None], ['uinsert', 0, ['S', 0], ['idx', 0], ['arg', ['S', 0]]]]]})
CORPUS.append(
    # ownership of port lists: one python list object builds two mixers (ins) / two splitters (outs), then the caller edits it
    {'kind': 'corpus', 'units': [[1, 1, True, True]], 'ns': 6, 'clists': [[['S', 0], ['S', 1]], [['S', 2], ['None']]],
     'histories': [[['xnew', 2, 1, False, True, ['v', 0], ['f', ['none']]], ['xnew', 2, 1, False, True, ['v', 0], ['f', ['none']]],
                    ['cappend', 0, ['S', 3]], ['xnew', 1, 2, True, False, ['f', ['none']], ['v', 1]],
                    ['xnew', 1, 2, True, False, ['f', ['none']], ['v', 1]], ['cset', 1, 0, ['S', 4]], ['set', 'i', 2, 0, ['S', 5], 'item'],
                    ['lextend', 'i', 1, 0], ['cpop', 0]]]})
WITNESSES = []
