"""C06 — heat of reaction and adiabatic reaction close the energy balance.
Correspondence harness, generators and direct oracle."""
import numpy as np
from fractions import Fraction as F
from vf import q, qlist, clist, cbool, cnat, copt, frac, fr_json

ID = 'C06'
COQ_DIR = 'C06'
EXTRA_COQ_DIRS = ('C05', 'C17')
COQ_HEADER = 'From V Require Import Common.Num C06.Model.\nOpen Scope Q_scope.'
RULE = ('stub package of 6 user-defined chemicals with dyadic MW, Hf, Hvap(298.15), Hfus, constant Cn and reference phases '
        'l/l/g/g/s/l (so Stream.H = sum n*Cn*(T-298.15) exactly and the H setter has a closed form); reactions with dyadic '
        'coefficients, any participating chemical as reactant, conversions in [0,1] (and a few beyond), mol and wt basis '
        '(constructed or re-based), single / parallel / series / system of 1-4 reactions, phase-less on a Stream and '
        'phase-tagged on a MultiStream (phases gl, ls, gls, and Lgl for the invalid-phase branch of dH), T in '
        '{298.15, 280, 320, 350, 400, 450}, heat input in {0, +-dyadic}; operations: dH of every member, isothermal call, '
        'adiabatic_reaction(stream, Q), plus empty streams, non-stream arguments and infeasible conversions. Phase-tagged '
        'reactions are also defined from (phase x chemical) arrays and as sums r1 + r2, so that a chemical takes part in two '
        'phases; 30 % of the cases first reassign conversions through the set, its items, slices and the system while the '
        'observed handles were all obtained before; others first run copy / copy-of-copy / basis-setter / backwards steps on copies '
        'of the members and read dH of members and copies. Single-phase streams live on the reaction package or on a permuted '
        'one, may have proxies, and a pre-history of H / C reads and T / flow / phase changes (and changes back) runs through the '
        'handles before the operation is applied through one of them; the H/T solver stub may raise in chosen phases. '
        'The pre-history also makes COPIES (stream.copy(), copy(thermo=own package), copy.copy; of the original, of proxies, of '
        'copies): a read stream is copied, the copy is moved to another state and read, the original is read again and / or '
        'copied again, and the operation goes through any of them; after the operation H is read back through every stream and '
        'the state of every stream (not only the reacted one) is compared. '
        'In 20 % of the cases the package is edited after compilation (chemical.Hf = v, refresh_constants on either package, '
        'sometimes an edit that is not propagated); one tenth extra cases run gas streams on a Peng-Robinson package, '
        'interleaving temperature solves with enthalpy reads of the same and of new streams, with a second, never-solved '
        'package as the reference for the enthalpy of a state and the mixture argument dictionary observed after each step. '
        'Compared: every H read, what every handle reads as X, dH of '
        'each member (value or exception class), Hnet before, exception class, flows, T and Hnet after (1e-9 relative). '
        'non-trivial = a dH is non-zero or the call changed the stream or raised')
ASSUMPTIONS = ['H/T inversion (mixture.solve_T_at_HP, xsolve_T_at_HP; flexsolve inside) is an oracle with the contract '
               'H(setH s h) == h; the theorems are quantified over every such pair',
               'the isothermal clause as written holds where the sensible enthalpies vanish (reference state); elsewhere the '
               'general identity with the Kirchhoff term is proved and checked',
               'float rounding is not modelled: values compared to 1e-9 relative (enthalpy flows relative to |Hnet|+|Q|)']
TRUSTED = ['model coq/C06/Model.v is hand-written from Reaction.dH, Reaction.adiabatic_reaction, Stream.Hf/Hnet/H setter, '
           'Stream._get_property, Stream.proxy and Stream.copy (own flows / thermal condition, reset_cache: new key list and new dictionary); '
           'it reuses coq/C05/Model.v for the reaction itself; tie = correspondence check',
           'stub chemicals: tmo.Chemical(search_db=False, MW, Hf, Cn, Hvap, Hfus, phase) — their H model is Cn*(T-298.15)']

N = 6
IDS = ['Da', 'Db', 'Dc', 'Dd', 'De', 'Df']
MW = [16, 32, 8, 4, 64, 2]
HF = [-1024, 256, 0, -2048, -512, 128]
CN = [64, 32, 16, 128, 8, 48]
HVAP = [512, 256, 1024, 128, 64, 2048]
HFUS = [128, 32, 16, 64, 8, 256]
PREF = ['l', 'l', 'g', 'g', 's', 'l']
PH = {'g': 1, 'l': 2, 's': 3, 'L': 4, 'S': 5}
ERR = {'InfeasibleRegion': 'EInfeasible', 'ValueError': 'EValue', 'TypeError': 'EType', 'IndexError': 'EIndex',
       'RuntimeError': 'ERuntime', 'UndefinedChemicalAlias': 'EKey', 'UndefinedChemical': 'EKey',
       'UndefinedPhase': 'EUndefPhase', 'ZeroDivisionError': 'EZeroDiv', 'FloatingPointError': 'EZeroDiv', 'KeyError': 'EKey'}
TREF = 298.15
ORDER_B = [3, 1, 5, 0, 4, 2]       # package B: the same chemicals in another order

_env = {}
def env():
    if not _env:
        import thermosteam as tmo
        cs = [tmo.Chemical(i, search_db=False, MW=float(MW[k]), Hf=float(HF[k]), Cn=float(CN[k]), Hvap=float(HVAP[k]),
                           Hfus=float(HFUS[k]), phase=PREF[k], default=True) for k, i in enumerate(IDS)]
        tmo.settings.set_thermo(tmo.Chemicals(cs))
        _env['thermoB'] = tmo.Thermo(tmo.Chemicals([cs[i] for i in ORDER_B]))
        ch = tmo.settings.chemicals
        assert list(ch.MW) == [float(x) for x in MW] and list(ch.Hf) == [float(x) for x in HF]
        assert [c.phase_ref for c in ch] == PREF
        _env.update(tmo=tmo, chems=ch)
        # the same six chemicals as gases with critical constants, on TWO equation-of-state packages: the one the cases
        # use and one on which no temperature is ever solved (reference for the enthalpy of a state)
        from thermosteam.mixture import PRMixture
        TC = [190., 154., 304., 126., 405., 33.]; PC = [4.6e6, 5.0e6, 7.4e6, 3.4e6, 11.3e6, 1.3e6]; OM = [0.011, 0.022, 0.225, 0.037, 0.25, -0.22]
        gas = [tmo.Chemical(i, search_db=False, MW=float(MW[k]), Hf=float(HF[k]), Cn=float(CN[k]), Tc=TC[k], Pc=PC[k],
                            omega=OM[k], phase='g', default=True) for k, i in enumerate(IDS)]
        for name in ('eos_used', 'eos_fresh'):
            chs = tmo.Chemicals(gas)
            _env[name] = tmo.Thermo(chs, mixture=PRMixture.from_chemicals(chs))
    return _env

# ------------------------------------------------------------------ edits of the package after it was compiled
HF_VALUES = [-4096.0, -512.0, 0.0, 256.0, 1024.0, -128.0, 2048.0]

def pkg_arrays(case):
    """the chemicals' own heats of formation and the arrays of packages A and B (per chemical, in A's order) after
    the case's edits; and whether each array is in step with the chemicals"""
    chem = [float(x) for x in HF]; a = list(chem); b = list(chem)
    for op in case.get('pkg_hist', []):
        if op[0] == 'sethf': chem[op[1]] = op[2]
        elif op[1] == 'A': a = list(chem)
        else: b = list(chem)
    return chem, a, b

def hf_oracle(case, pkg='A'):
    """heats of formation (per chemical, reaction order) a package must work with after the case's edits: the chemicals'
    own values as of the last refresh_constants() of that package -- simulated here, never read from the library"""
    chem, a, b = pkg_arrays(case)
    return a if pkg == 'A' else b

import contextlib
@contextlib.contextmanager
def edited_package(case):
    if not case.get('pkg_hist'):
        yield; return
    e = env(); ch = e['chems']; chB = e['thermoB'].chemicals
    try:
        for op in case['pkg_hist']:
            if op[0] == 'sethf': ch.tuple[op[1]].Hf = op[2]
            elif op[1] == 'A': ch.refresh_constants()
            else: chB.refresh_constants()
        yield
    finally:
        for k, c in enumerate(ch.tuple): c.Hf = float(HF[k])
        ch.refresh_constants(); chB.refresh_constants()

def gen_pkg_hist(rng, case):
    ops = []
    for _ in range(rng.randint(1, 3)):
        ops.append(['sethf', rng.randrange(N), rng.choice(HF_VALUES)])
        if rng.random() < 0.3: ops.append(['refresh', rng.choice(['A', 'B'])])
    if rng.random() < 0.85: ops.append(['refresh', 'A'])
    if case.get('pkg') == 'B' and rng.random() < 0.85: ops.append(['refresh', 'B'])
    if rng.random() < 0.1: ops.append(['sethf', rng.randrange(N), rng.choice(HF_VALUES)])    # an edit that is NOT propagated
    return ops

# ------------------------------------------------------------------ generators
COEFS = [F(1), F(1), F(2), F(1, 2), F(3), F(3, 2), F(1, 4)]
XS = [F(1, 2), F(1, 4), F(1, 8), F(3, 4), F(1), F(1), F(0), F(3, 8)]
BIG = [F(64), F(128), F(256), F(512), F(96), F(160)]
SMALL = [F(1), F(2), F(4), F(1, 2), F(3), F(0), F(1, 4)]
TS = [TREF, TREF, 280.0, 320.0, 350.0, 400.0, 450.0]
QS = [0.0, 0.0, 1024.0, -512.0, 4096.0, 65536.0, -2048.0, 0.5]

def gen_rxn(rng, phases, basis):
    k = rng.randint(2, 4)
    chems = rng.sample(range(N), k)
    nneg = rng.randint(1, k - 1)
    st = {c: (-rng.choice(COEFS) if i < nneg else rng.choice(COEFS)) for i, c in enumerate(chems)}
    negs = [c for c in chems if st[c] < 0]
    reactant = rng.choice(negs) if rng.random() < 0.9 else rng.choice(chems)
    construct_basis = basis if rng.random() < 0.5 else 'mol'
    coef = {c: (v * MW[c] if construct_basis == 'wt' else v) for c, v in st.items()}
    form = rng.choice(['str', 'dict'])
    order = [c for c in chems if coef[c] < 0] + [c for c in chems if coef[c] > 0]
    terms = [[rng.choice(phases) if phases else None, IDS[c], float(coef[c])] for c in order]
    spec = {'terms': terms, 'form': form, 'reactant': IDS[reactant], 'X': float(rng.choice(XS)),
            'basis': construct_basis, 'rebase': basis if construct_basis != basis else None}
    real = [p for p in phases if p in 'gls']
    if len(real) >= 2 and 'L' not in phases:
        u = rng.random()
        if u < 0.3:
            # defined from a (phase x chemical) array: a chemical other than the reactant may sit in two phases
            spec['form'] = 'array'
            for t in list(terms):
                if t[1] != spec['reactant'] and rng.random() < 0.6:
                    other = rng.choice([p for p in real if p != t[0]])
                    spec['terms'].append([other, t[1], float(rng.choice(COEFS)) * (MW[IDS.index(t[1])] if construct_basis == 'wt' else 1)
                                          * (1 if t[2] > 0 else -1)])
        elif u < 0.55:
            # the sum of two reactions with the same reactant whose other species sit in other phases
            second = [[(rng.choice([p for p in real if p != t[0]]) if t[1] != spec['reactant'] and rng.random() < 0.7 else t[0]),
                       t[1], t[2]] for t in terms]
            spec['plus'] = {'terms': second, 'X': float(rng.choice(XS))}
    return spec

def groups_of(case):
    return [[case['kind'], list(range(len(case['rxns'])))]] if case['kind'] != 'system' else case['parts']

def gen_xhist(rng, case):
    """assignments of conversions through the set, its items, slices and the system, in any order"""
    groups = groups_of(case)
    sets = [g for g, (k, idx) in enumerate(groups) if k != 'single']
    n = len(case['rxns'])
    ops = []
    def x(): return float(rng.choice(XS))
    for _ in range(rng.randint(1, 4)):
        kinds = ['itemX'] + (['setX', 'setX', 'setXs', 'idxX', 'sliceX'] if sets else []) + (['sysX'] if case['kind'] == 'system' else [])
        o = rng.choice(kinds)
        if o == 'itemX': ops.append([o, rng.randrange(n), x()])
        elif o == 'sysX': ops.append([o, [[x() for _ in idx] if k != 'single' else x() for k, idx in groups]])
        else:
            g = rng.choice(sets); m = len(groups[g][1])
            if o == 'setX': ops.append([o, g, [x() for _ in range(m)]])
            elif o == 'setXs': ops.append([o, g, x()])
            elif o == 'idxX': ops.append([o, g, rng.randrange(m), x()])
            else:
                lo = rng.randrange(m)
                ops.append([o, g, lo, [x() for _ in range(m - lo)]])
    return ops

def flat_writes(case):
    """the same history as writes into the conversions of the members, in member order"""
    groups = groups_of(case)
    w = []
    for op in case.get('xhist', []):
        o = op[0]
        if o == 'itemX': w.append(['w', op[1], op[2]])
        elif o == 'sysX':
            for (k, idx), v in zip(groups, op[1]):
                w.append(['r', idx[0], v if k != 'single' else [v]])
        else:
            idx = groups[op[1]][1]
            if o == 'setX': w.append(['r', idx[0], op[2]])
            elif o == 'setXs': w.append(['r', idx[0], [op[2]] * len(idx)])
            elif o == 'idxX': w.append(['w', idx[0] + op[2], op[3]])
            elif o == 'sliceX': w.append(['r', idx[0] + op[2], op[3]])
    return w

def final_X(case):
    xs = [s['X'] for s in case['rxns']]
    for w in flat_writes(case):
        if w[0] == 'w': xs[w[1]] = w[2]
        else:
            for k, v in enumerate(w[2]): xs[w[1] + k] = v
    return xs

def gen_case(rng):
    phases = rng.choice([[], [], [], [], ['g', 'l'], ['l', 's'], ['g', 'l', 's'], ['L', 'g', 'l']])
    kind = rng.choice(['single', 'single', 'single', 'parallel', 'series', 'system'])
    basis = rng.choice(['mol', 'mol', 'wt'])
    case = {'phases': phases, 'kind': kind}
    def rx(): return gen_rxn(rng, phases, basis)
    if kind == 'single':
        case['rxns'] = [rx()]
    elif kind in ('parallel', 'series'):
        case['rxns'] = [rx() for _ in range(rng.randint(1, 4))]
    else:
        parts, rxns = [], []
        for _ in range(rng.randint(1, 3)):
            k = rng.choice(['single', 'single', 'parallel', 'series'])
            n = 1 if k == 'single' else rng.randint(1, 2)
            parts.append([k, list(range(len(rxns), len(rxns) + n))])
            rxns += [rx() for _ in range(n)]
        case['rxns'] = rxns; case['parts'] = parts
    if rng.random() < 0.06:
        case['rxns'][0]['X'] = float(rng.choice([F(3, 2), F(2), F(-1, 2)]))
    P = max(1, len(phases))
    reactants = {s['reactant'] for s in case['rxns']}
    u = rng.random()
    if u < 0.05:
        flows = [0.0] * (P * N)
    elif u < 0.15:
        flows = [float(rng.choice(SMALL + BIG)) for _ in range(P * N)]
    else:
        flows = [float(rng.choice(SMALL if IDS[k % N] in reactants else BIG)) for k in range(P * N)]
    if kind != 'single' and rng.random() < 0.3:
        # an inactive member: no conversion, or none of its reactant in the feed
        r = rng.choice(case['rxns'][:-1] or case['rxns'])
        if rng.random() < 0.5: r['X'] = 0.0
        else:
            j = IDS.index(r['reactant'])
            for p in range(P): flows[p * N + j] = 0.0
    case['flows'] = flows
    case['T'] = rng.choice(TS)
    case['op'] = 'dH' if 'L' in phases else rng.choice(['adiabatic', 'adiabatic', 'isothermal'])
    case['Q'] = rng.choice(QS) if case['op'] == 'adiabatic' else 0.0
    case['not_stream'] = case['op'] == 'adiabatic' and rng.random() < 0.04
    if not phases:
        # single-phase Stream: its phase, and the phases in which the (stubbed) H/T solver raises
        case['sphase'] = rng.choice(['l', 'l', 'g', 's'])
        case['solve_fail'] = ([] if rng.random() < 0.75 or case['op'] != 'adiabatic' else
                              rng.choice([['l'], ['g'], ['g', 'l'], ['s'], ['l', 's'], ['g', 'l', 's']]))
        case['pkg'] = 'B' if rng.random() < 0.3 else 'A'       # the stream may live on another package than the reaction
        if case['op'] != 'dH' and not case['not_stream'] and rng.random() < 0.35:
            case['pre'], case['via'] = gen_pre(rng, case)
    if rng.random() < 0.2:
        case['pkg_hist'] = gen_pkg_hist(rng, case)
    if not any('plus' in r for r in case['rxns']) and rng.random() < 0.3:
        case['xhist'] = gen_xhist(rng, case)
    elif 'L' not in phases and rng.random() < 0.45:
        case['history'] = gen_rhist(rng, case)
    return case

def gen_rhist(rng, case):
    """operations on COPIES of the member reactions (copy, copy of a copy, basis setter on either, backwards) before the
    heats of reaction of the members and of every copy are read"""
    ids_in = sorted({t[1] for s_ in case['rxns'] for t in s_['terms']})
    ops = [['itemcopy', rng.randrange(16), rng.choice([None, None, 'mol', 'wt'])]]
    for _ in range(rng.randint(1, 5)):
        o = rng.choice(['itemcopy', 'copy', 'copy', 'setbasis', 'setbasis', 'setbasis', 'itembackwards', 'backwards'])
        i = rng.randrange(16)
        if o == 'itemcopy': ops.append([o, i, rng.choice([None, None, 'mol', 'wt'])])
        elif o == 'copy': ops.append([o, i, rng.choice([None, None, 'mol', 'wt'])])
        elif o == 'setbasis': ops.append([o, i, rng.choice(['mol', 'wt', 'wt'])])
        else: ops.append([o, i, rng.choice([None] + ids_in), rng.choice([None, None, 0.5, 0.25])])
    return ops

def gen_pre(rng, case):
    """what happens to the stream, through it, through proxies of it and through COPIES of it (and of those), before the
    reaction is applied through one of the handles: property reads (memoised), changes of T / flows / phase and changes back.
    ['copy', handle, how]: how = 'copy' (stream.copy()), 'thermo' (stream.copy(thermo=its own package)), 'copy.copy'"""
    Ta = case['T']; Tb = rng.choice([t for t in TS if t != Ta])
    alt = [float(rng.choice(SMALL + BIG)) for _ in range(N)]
    def how(): return rng.choice(['copy', 'copy', 'thermo', 'copy.copy'])
    u = rng.random()
    if u < 0.3:
        # state A read through two handles, state B read through one, back to exactly A, use the other
        change, back = rng.choice([(['setT', 0, Tb], ['setT', 1, Ta]), (['setflows', 1, alt], ['setflows', 0, list(case['flows'])]),
                                   (['setphase', 0, 'g' if case['sphase'] != 'g' else 'l'], ['setphase', 0, case['sphase']])])
        ops = [['proxy', 0], ['readH', 0], ['readH', 1], change, [rng.choice(['readH', 'readH', 'readC']), rng.randrange(2)], back]
        return ops, rng.randrange(2)
    if u < 0.6:
        # a stream whose properties were read is copied; the copy moves to another state and is read; then the original
        # is read again and / or copied again, and the reaction goes through any of them
        ops = [['proxy', 0]] if rng.random() < 0.3 else []
        n = 1 + len(ops)                       # number of handles so far
        src = rng.randrange(n)
        ops.append([rng.choice(['readH', 'readH', 'readH', 'readC']), rng.randrange(n)])
        ops.append(['copy', src, how()]); c1 = n; n += 1
        for _ in range(rng.randint(1, 2)):
            ops.append(rng.choice([['setT', c1, Tb], ['setT', c1, Tb], ['setflows', c1, alt],
                                   ['setphase', c1, 'g' if case['sphase'] != 'g' else 'l']]))
        ops.append([rng.choice(['readH', 'readH', 'readH', 'readC']), c1])
        if rng.random() < 0.5: ops.append(['readH', rng.randrange(c1)])
        if rng.random() < 0.6:
            ops.append(['copy', rng.choice([src, src, c1]), how()]); n += 1
            if rng.random() < 0.3: ops.append(['readH', n - 1])
        return ops, rng.randrange(n)
    ops = [['proxy', 0]] if rng.random() < 0.7 else []
    for _ in range(rng.randint(1, 7)):
        o = rng.choice(['proxy', 'copy', 'copy', 'readH', 'readH', 'readH', 'readC', 'setT', 'setT', 'setflows', 'setphase'])
        h = rng.randrange(8)
        if o == 'setT': ops.append([o, h, rng.choice([Ta, Ta, Tb])])
        elif o == 'setflows': ops.append([o, h, rng.choice([alt, list(case['flows'])])])
        elif o == 'setphase': ops.append([o, h, rng.choice(['l', 'g', 's', case['sphase']])])
        elif o == 'copy': ops.append([o, h, how()])
        else: ops.append([o, h])
    return ops, rng.randrange(8)

def _single(terms, reactant, X, basis='mol', rebase=None, phases=(), T=TREF, flows=None, op='isothermal', Q=0.0, kind='single', n=1):
    rx = {'terms': terms, 'form': 'str', 'reactant': reactant, 'X': X, 'basis': basis, 'rebase': rebase}
    P = max(1, len(phases))
    return {'phases': list(phases), 'kind': kind, 'rxns': [dict(rx) for _ in range(n)],
            'flows': flows or [64.0] * (P * N), 'T': T, 'op': op, 'Q': Q, 'not_stream': False}

ITEM = _single([[None, 'Da', -1.0], [None, 'Dc', -2.0], [None, 'Dd', 1.0]], 'Da', 0.5, kind='parallel', n=2)
ITEM['rxns'][1] = dict(ITEM['rxns'][1], X=0.25, terms=[[None, 'Db', -1.0], [None, 'De', 2.0]], reactant='Db')
CORPUS = [ITEM,
          _single([[None, 'Da', -1.0], [None, 'Dc', -2.0], [None, 'Dd', 1.0]], 'Da', 0.5, op='adiabatic', Q=1024.0, T=350.0),
          _single([['g', 'Da', -2.0], ['l', 'Db', 1.0], ['g', 'Dc', 2.0]], 'Da', 0.5, phases=('g', 'l', 's'), op='adiabatic', T=320.0, Q=100.0),
          _single([[None, 'Da', -1.0], [None, 'Dd', 1.0]], 'Da', 1.0, flows=[0.0] * N, op='adiabatic', Q=5.0),
          _single([[None, 'Da', -1.0], [None, 'Dd', 1.0]], 'Da', 1.0, flows=[0.0] * N, op='adiabatic', Q=0.0),
          _single([[None, 'Da', -1.0], [None, 'Dd', 4.0]], 'Da', 0.5, basis='mol', rebase='wt', op='isothermal')]
WITNESSES = []

def gen_eos_case(rng):
    """gas streams on an equation-of-state package: temperature solves (adiabatic_reaction, H setter) interleaved with
    enthalpy reads of the same and of other streams through the same mixture object"""
    kind = rng.choice(['single', 'single', 'parallel', 'series'])
    basis = rng.choice(['mol', 'mol', 'wt'])
    rxns = [gen_rxn(rng, [], basis) for _ in range(1 if kind == 'single' else rng.randint(1, 3))]
    for r in rxns: r['X'] = float(rng.choice([F(1, 8), F(1, 4), F(1, 2), F(3, 4), F(1)]))
    reactants = {r['reactant'] for r in rxns}
    def feed(): return [float(rng.choice(SMALL[:5] if IDS[k] in reactants else BIG)) for k in range(N)]
    steps = []
    for _ in range(rng.randint(2, 6)):
        o = rng.choice(['adiabatic', 'adiabatic', 'readH', 'readH', 'setH', 'newstream', 'isothermal'])
        if o == 'adiabatic': steps.append([o, rng.choice(QS)])
        elif o == 'setH': steps.append([o, rng.choice([1024.0, -512.0, 65536.0])])
        elif o == 'newstream': steps.append([o, feed(), rng.choice(TS)])
        else: steps.append([o])
    steps.append(['readH'])
    return {'eos': True, 'phases': [], 'kind': kind, 'rxns': rxns, 'flows': feed(), 'T': rng.choice(TS), 'op': 'eos',
            'Q': 0.0, 'not_stream': False, 'steps': steps}

def gen_cases(rng, tier):
    n = 300 if tier == 'quick' else 5000
    return [gen_case(rng) for _ in range(n)] + [gen_eos_case(rng) for _ in range(n // 10)]

def search_cases(rng, tier):
    """used only after something broke: isothermal runs of sets and systems (the clause that involves every member)"""
    out = []
    while len(out) < (150 if tier == 'quick' else 1500):
        c = gen_case(rng)
        if c['kind'] == 'single' or 'L' in c['phases']: continue
        c['op'] = 'isothermal'; c['Q'] = 0.0; c['not_stream'] = False
        if 'solve_fail' in c: c['solve_fail'] = []
        out.append(c)
    return out

# ------------------------------------------------------------------ implementation side
def errname(ex):
    return ERR.get(type(ex).__name__, 'EOther')

def rxn_arg(case, spec, terms=None):
    ph = case['phases']
    terms = spec['terms'] if terms is None else terms
    if spec['form'] == 'array':
        a = [[0.0] * N for _ in ph]
        for p, i, c in terms: a[ph.index(p)][IDS.index(i)] = c
        return a
    if spec['form'] == 'str':
        def t(p, i, c):
            return f'{abs(c)!r} ' + (f'{i},{p}' if ph else i)
        return (' + '.join(t(*x) for x in terms if x[2] < 0) + ' -> '
                + ' + '.join(t(*x) for x in terms if x[2] > 0))
    return {i: ((p, c) if ph else c) for p, i, c in terms}

def build_rxn(case, spec):
    tmo = env()['tmo']
    kw = dict(reactant=spec['reactant'], basis=spec['basis'], phases=''.join(case['phases']) or None)
    if case.get('eos'): kw['chemicals'] = env()['eos_used'].chemicals
    r = tmo.Reaction(rxn_arg(case, spec), X=spec['X'], **kw)
    if spec.get('plus'):
        r = r + tmo.Reaction(rxn_arg(case, spec, spec['plus']['terms']), X=spec['plus']['X'], **kw)
    if spec['rebase']:
        r = r.copy(spec['rebase'])
    return r

def flat_ridx(r):
    if r._phases:
        p, j = r._reactant_index
        return int(p) * N + int(j)
    return int(r._reactant_index)

def resolve_reactant(r, ident):
    """flat index Reaction.backwards(reactant=ident) selects"""
    j = IDS.index(ident)
    if r._phases:
        col = np.asarray(r._stoichiometry.to_array(), float)[:, j]
        p = len(col) - 1
        for k, x in enumerate(col):
            if x:
                p = k
                break
        return p * N + j
    return j

def apply_rhist(case, obj, members, gobjs, extra):
    """every step takes its handle afresh from the object; only copies are changed"""
    tmo = env()['tmo']
    groups = groups_of(case)
    def handle(m):
        for (gk, idx), g in zip(groups, gobjs):
            if m in idx: return g if gk == 'single' else g[idx.index(m)]
    n = len(case['rxns'])
    derived, lineage, ops, oks = [], [], [], []
    for op in case['history']:
        name = op[0]
        if name in ('copy', 'setbasis', 'backwards') and not derived:
            op = ['itemcopy', op[1], None]; name = 'itemcopy'
        try:
            if name == 'itemcopy':
                m = op[1] % n; ops.append(['itemcopy', m, op[2]])
                derived.append(handle(m).copy(op[2])); lineage.append(m)
            elif name == 'copy':
                j = op[1] % len(derived); ops.append(['copy', j, op[2]])
                derived.append(derived[j].copy(op[2])); lineage.append(lineage[j])
            elif name == 'setbasis':
                j = op[1] % len(derived); ops.append(['setbasis', j, op[2]])
                derived[j].basis = op[2]
            elif name == 'itembackwards':
                m = op[1] % n; h = handle(m)
                ops.append(['itembackwards', m, None if op[2] is None else resolve_reactant(h, op[2]), op[3]])
                derived.append(h.backwards(reactant=op[2], X=op[3])); lineage.append(None)
            elif name == 'backwards':
                j = op[1] % len(derived)
                ops.append(['backwards', j, None if op[2] is None else resolve_reactant(derived[j], op[2]), op[3]])
                derived.append(derived[j].backwards(reactant=op[2], X=op[3])); lineage.append(None)
            oks.append(True)
        except Exception:
            oks.append(False)
    extra.update(hist_ops=ops, hist_oks=oks, derived=derived, lineage=lineage[:len(derived)])

def build_obj(case, extra=None):
    """returns (callable object, member handles obtained BEFORE any later assignment).  extra (dict) receives the
    per-group objects and, after the conversion history has run, what the different handles read."""
    tmo = env()['tmo']
    rs = [build_rxn(case, s) for s in case['rxns']]
    k = case['kind']
    if k == 'single':
        obj, members, gobjs = rs[0], [rs[0]], [rs[0]]
    elif k in ('parallel', 'series'):
        obj = tmo.ParallelReaction(rs) if k == 'parallel' else tmo.SeriesReaction(rs)
        members, gobjs = [obj[i] for i in range(len(rs))], [obj]
    else:
        parts, members = [], []
        for pk, idx in case['parts']:
            sub = [rs[i] for i in idx]
            if pk == 'single':
                parts.append(sub[0]); members.append(sub[0])
            else:
                o = tmo.ParallelReaction(sub) if pk == 'parallel' else tmo.SeriesReaction(sub)
                parts.append(o); members += [o[i] for i in range(len(sub))]
        obj, gobjs = tmo.ReactionSystem(*parts), parts
    if case.get('history'):
        apply_rhist(case, obj, members, gobjs, extra if extra is not None else {})
    if case.get('xhist'):
        groups = groups_of(case)
        # every handle is taken before the first assignment: items (above), slices and items of slices
        slices = {}
        for op in case['xhist']:
            if op[0] == 'sliceX' and (op[1], op[2]) not in slices:
                sl = gobjs[op[1]][op[2]:]
                slices[(op[1], op[2])] = (sl, [sl[i] for i in range(len(groups[op[1]][1]) - op[2])])
        for op in case['xhist']:
            o = op[0]
            if o == 'itemX': members[op[1]].X = op[2]
            elif o == 'sysX': obj.X = op[1]
            elif o in ('setX', 'setXs'): gobjs[op[1]].X = op[2]
            elif o == 'idxX': gobjs[op[1]].X[op[2]] = op[3]
            elif o == 'sliceX': slices[(op[1], op[2])][0].X = op[3]
        if extra is not None:
            fresh = []
            for (gk, idx), g in zip(groups, gobjs):
                fresh += [float(g.X)] if gk == 'single' else [float(g[i].X) for i in range(len(idx))]
            seen = {'old_items': [float(m.X) for m in members], 'fresh_items': fresh,
                    'set_arrays': [x for (gk, idx), g in zip(groups, gobjs) for x in ([float(g.X)] if gk == 'single' else [float(v) for v in g.X])]}
            for (g, lo), (sl, items) in slices.items():
                v = list(fresh); off = groups[g][1][0] + lo
                v[off:off + len(items)] = [float(x) for x in sl.X]
                seen[f'slice_{g}_{lo}'] = v
                v = list(fresh); v[off:off + len(items)] = [float(i.X) for i in items]
                seen[f'slice_items_{g}_{lo}'] = v
            extra['seen'] = seen
    return obj, members

def to_pkg(case, v):
    """a per-chemical vector given in the reaction's order, in the order of the stream's package"""
    return [v[i] for i in ORDER_B] if case.get('pkg') == 'B' else list(v)

def from_pkg(case, v):
    if case.get('pkg') != 'B': return list(v)
    out = [0.0] * N
    for j, i in enumerate(ORDER_B): out[i] = v[j]
    return out

def fresh_stream(case, flows_pkg, T, phase):
    tmo = env()['tmo']
    kw = dict(thermo=env()['thermoB']) if case.get('pkg') == 'B' else {}
    s = tmo.Stream(None, T=T, phase=phase, **kw)
    s.imol.data[:] = np.array(flows_pkg, float)
    return s

def make_stream(case):
    tmo = env()['tmo']
    ph = case['phases']
    flows = np.array(case['flows'], float)
    if ph:
        s = tmo.MultiStream(None, phases=ph, T=case['T'])
        s.imol.data[:] = flows.reshape(len(ph), N)
        return s
    return fresh_stream(case, to_pkg(case, case['flows']), case['T'], case.get('sphase', 'l'))

def state_of(s):
    return {'mol': [float(x) for x in np.asarray(s.imol.data.to_array(), float).reshape(-1)], 'T': float(s.T), 'phase': s.phase}

def run_stream(case, obj):
    """single-phase Stream: the pre-history through the handles (the stream, its proxies, copies of any of them and
    their proxies), then the operation through one of them, then H read back through every stream.
    Returns the reads, the state before the operation, the exception, the states after, and Hnet of both states
    evaluated on FRESH streams (no memo involved).  Streams are numbered in order of creation (0 = the original,
    then each copy); a proxy is another handle of the same stream."""
    import copy as _copy
    s = make_stream(case)
    handles = [s]; hg = [0]; groups = [s]
    reads = []; pre = []; true_reads = []
    def true_H(g):
        st_ = state_of(groups[g]); return float(fresh_stream(case, st_['mol'], st_['T'], st_['phase']).H)
    for op in case.get('pre', []):
        k = op[1] % len(handles)
        h = handles[k]; g = hg[k]
        name = op[0]
        if name == 'proxy': handles.append(h.proxy()); hg.append(g); pre.append(['proxy'])
        elif name == 'copy':
            c = h.copy() if op[2] == 'copy' else (h.copy(thermo=h.thermo) if op[2] == 'thermo' else _copy.copy(h))
            handles.append(c); groups.append(c); hg.append(len(groups) - 1); pre.append(['copy', g])
        elif name == 'readH':
            reads.append(float(h.H)); pre.append(['readH', g]); true_reads.append(true_H(g))
        elif name == 'readC': h.C; pre.append(['readC', g])
        elif name == 'setT': h.T = op[2]; pre.append(['setT', op[2], g])
        elif name == 'setflows': h.imol.data[:] = np.array(to_pkg(case, op[2]), float); pre.append(['setflows', to_pkg(case, op[2]), g])
        elif name == 'setphase': h.phase = op[2]; pre.append(['setphase', op[2], g])
    kt = case.get('via', 0) % len(handles)
    target = handles[kt]; tg = hg[kt]; ts = groups[tg]
    before = state_of(ts)
    f0 = fresh_stream(case, before['mol'], before['T'], before['phase'])
    r = {'reads': reads, 'true_reads': true_reads, 'pre': pre, 'before': before, 'err': None, 'via_stream': tg,
         'Hnet0': float(f0.Hnet), 'H0': float(f0.H)}
    try:
        with failing_solver(s, case.get('solve_fail', [])):
            if case['op'] == 'adiabatic':
                obj.adiabatic_reaction(np.array(case['flows']) if case['not_stream'] else target, case['Q'])
            else:
                obj(target)
    except Exception as ex:
        r['err'] = errname(ex); r['err_cls'] = type(ex).__name__
    broken = bool(r['err']) and ts.imol.chemicals is not ts.chemicals
    if broken:
        # an exception on another package leaves the flows indexed by the reaction's chemicals: only the class is compared
        r['after'] = {'mol': [], 'T': float(ts.T), 'phase': ts.phase}; r['Hnet'] = 0.0
    else:
        r['after'] = state_of(ts)
        f1 = fresh_stream(case, r['after']['mol'], r['after']['T'], r['after']['phase'])
        r['Hnet'] = float(f1.Hnet); r['H1'] = float(f1.H)
    # every stream after the operation (what must not have changed included), and H read back through each of them
    r['afters'] = [r['after'] if g == tg else state_of(x) for g, x in enumerate(groups)]
    r['post'] = [0.0 if (broken and g == tg) else float(x.H) for g, x in enumerate(groups)]
    r['post_true'] = [0.0 if (broken and g == tg) else true_H(g) for g in range(len(groups))]
    return r

def canon_dH(x):
    a = np.asarray(x, float).reshape(-1)
    return [fr_json(frac(v)) for v in a]

def run_impl(case):
    env()
    with edited_package(case):
        return run_impl_(case)

def run_impl_(case):
    out = {}
    extra = {}
    try:
        obj, members = build_obj(case, extra)
    except Exception as ex:
        # the object cannot be built (e.g. r1 + r2 with conversions that cancel: the lumped stoichiometry is divided by
        # X1 + X2 = 0): the model must reject it with the same class of error
        return {'ctor_err': errname(ex), 'ctor_cls': type(ex).__name__}
    dhs = []
    for m in members:
        try:
            dhs.append([None, canon_dH(m.dH)])
        except Exception as ex:
            dhs.append([errname(ex), []])
    out['dH'] = dhs
    if case.get('history'):
        dd = []
        for d in extra.get('derived', []):
            try: dd.append([None, canon_dH(d.dH)])
            except Exception as ex: dd.append([errname(ex), []])
        out.update(dH_derived=dd, hist_ops=extra.get('hist_ops', []), hist_oks=extra.get('hist_oks', []))
    if 'seen' in extra:
        out['seen'] = {k: [fr_json(frac(x)) for x in v] for k, v in extra['seen'].items()}
    if case['op'] == 'dH':
        return out
    if case['op'] == 'eos':
        r = run_eos(case, obj)
        out.update(table=[fr_json(frac(x)) for x in r['table']], mops=r['ops'], reads=[fr_json(frac(x)) for x in r['reads']],
                   flags=r['flags'], err=None)
        return out
    if flip_case(case):
        r = run_stream(case, obj)
        out.update(err=r['err'], err_cls=r.get('err_cls'), reads=[fr_json(frac(x)) for x in r['reads']], pre=r['pre'],
                   Hnet0=fr_json(frac(r['Hnet0'])), mol=[fr_json(frac(x)) for x in r['after']['mol']],
                   T=fr_json(frac(r['after']['T'])), phase=r['after']['phase'], Hnet=fr_json(frac(r['Hnet'])),
                   via_stream=r['via_stream'],
                   afters=[[[fr_json(frac(x)) for x in a['mol']], fr_json(frac(a['T'])), a['phase']] for a in r['afters']],
                   post=[fr_json(frac(x)) for x in r['post']])
        return out
    s = make_stream(case)
    out['Hnet0'] = fr_json(frac(s.Hnet))
    out['err'] = None
    try:
        if case['op'] == 'adiabatic':
            obj.adiabatic_reaction(np.array(case['flows']) if case['not_stream'] else s, case['Q'])
        else:
            obj(s)
    except Exception as ex:
        out['err'] = errname(ex); out['err_cls'] = type(ex).__name__
    if out['err'] is None:
        out['mol'] = [fr_json(frac(x)) for x in np.asarray(s.imol.data.to_array(), float).reshape(-1)]
        out['T'] = fr_json(frac(s.T))
        out['Hnet'] = fr_json(frac(s.Hnet))
    return out

def run_eos(case, obj):
    """returns the model-visible history: mixture operations (reads / solves by state number), the enthalpies read through
    the package in use, the same states evaluated by the never-solved package, whether the mixture's argument
    dictionary was empty after each operation, and the energy records of the solves"""
    e = env(); tmo = e['tmo']
    used, fresh = e['eos_used'], e['eos_fresh']
    def stream(th, flows, T):
        st = tmo.Stream(None, T=T, phase='g', thermo=th); st.imol.data[:] = np.array(flows, float); return st
    s = stream(used, case['flows'], case['T'])
    mix = s.mixture
    table, ops, reads, flags, energy = [], [], [], [], []
    def state():
        st = state_of(s)
        f = stream(fresh, st['mol'], st['T'])
        table.append(float(f.H)); return len(table) - 1, f
    def flag(): flags.append(len(mix._free_energy_args) == 0)
    for step in case['steps']:
        name = step[0]
        if name == 'readH':
            k, _ = state(); reads.append(float(s.H)); ops.append(['read', k]); flag()
        elif name == 'newstream':
            s = stream(used, step[1], step[2])
        elif name == 'isothermal':
            try: obj(s)
            except Exception: pass
        elif name in ('adiabatic', 'setH'):
            _, f0 = state()
            before = float(f0.H) + (float(f0.Hf) if name == 'adiabatic' else 0.0)
            ok = True
            try:
                if name == 'adiabatic': obj.adiabatic_reaction(s, step[1])
                else: s.H = float(f0.H) + step[1]
            except Exception as ex:
                ok = False
            k1, f1 = state()
            ops.append(['solve', k1, ok]); flag()
            after = float(f1.H) + (float(f1.Hf) if name == 'adiabatic' else 0.0)
            if ok: energy.append([name, before, step[1], after])
            k2, _ = state(); reads.append(float(s.H)); ops.append(['read', k2]); flag()
    return {'table': table, 'ops': ops, 'reads': reads, 'flags': flags, 'energy': energy}

def flip_case(case):
    """a single-phase Stream is reacted: modelled with the H memo shared by the handles, the H setter's phase fallback and,
    for another package, the index remapping; the state is compared even after an exception"""
    return case['op'] not in ('dH', 'eos') and not case['phases']

import contextlib
@contextlib.contextmanager
def failing_solver(stream, fails):
    """oracle substitution: mixture.solve_T_at_HP raises in the given phases, is the real solver otherwise"""
    if not fails:
        yield; return
    cls = type(stream.mixture)                  # the mixture object has slots: substitute on its class
    had = 'solve_T_at_HP' in cls.__dict__
    orig = cls.solve_T_at_HP
    def stub(self, phase, mol, H, T_guess, P):
        if phase in fails: raise RuntimeError('H/T solver stub: no solution in phase ' + phase)
        return orig(self, phase, mol, H, T_guess, P)
    cls.solve_T_at_HP = stub
    try:
        yield
    finally:
        if had: cls.solve_T_at_HP = orig
        else: del cls.solve_T_at_HP

# ------------------------------------------------------------------ model side
def cerr(e):
    return 'None' if e is None else f'(Some {e})'

def crxn(case, spec):
    ph = case['phases']; P = max(1, len(ph))
    def one(terms, X):
        ts = clist([f'({cnat(ph.index(p) if ph else 0)}, {cnat(IDS.index(i))}, {q(c)})' for p, i, c in terms])
        return (f'(mk_reaction {cbool(spec["form"] == "str")} {cnat(N)} {cnat(P)} {ts} '
                f'(Some {cnat(IDS.index(spec["reactant"]))}) {q(X)} {cbool(spec["basis"] == "wt")} '
                f'{clist([PH[p] for p in ph], cnat)})')
    t = one(spec['terms'], spec['X'])
    if spec.get('plus'):
        t = f'(rsum {qlist(MW * P)} {t} {one(spec["plus"]["terms"], spec["plus"]["X"])})'
    if spec['rebase']:
        t = f'(rebase {qlist(MW * P)} {t} {cbool(spec["rebase"] == "wt")})'
    return t

KIND = {'single': 'KSingle', 'parallel': 'KParallel', 'series': 'KSeries'}
def cobj(case):
    rs = [crxn(case, s) for s in case['rxns']]
    if case['kind'] != 'system':
        return f'(mk_simple (mk_set {KIND[case["kind"]]} {clist(rs)}))'
    parts = [f'(mk_set {KIND[k]} {clist([rs[i] for i in idx])})' for k, idx in case['parts']]
    return f'(mk_system {clist(parts)})'

def cxops(case):
    return clist([f'(XWrite {cnat(w[1])} {q(w[2])})' if w[0] == 'w' else f'(XRange {cnat(w[1])} {qlist(w[2])})'
                  for w in flat_writes(case)])

def cobj_after(case):
    """the object as the call sees it: after the conversion history, if there is one"""
    return f'(xhist_res {cobj(case)} {cxops(case)})' if case.get('xhist') else cobj(case)

def hf_term(case, pkg='A'):
    """the heats-of-formation array of a package as the model derives it from the edit history"""
    if not case.get('pkg_hist'):
        return qlist(HF if pkg == 'A' else [HF[i] for i in ORDER_B])
    ops = clist([f'(PSetHf {cnat(o[1])} {q(o[2])})' if o[0] == 'sethf' else ('PRefreshA' if o[1] == 'A' else 'PRefreshB')
                 for o in case['pkg_hist']])
    ob = clist(ORDER_B, cnat)
    return f'({"arrA" if pkg == "A" else "arrB"} (prun {ob} (compiled {ob} {qlist(HF)}) {ops}))'

def chem_term(case):
    return f'(mkchem {hf_term(case)} {qlist(MW)} {qlist(HVAP)} {qlist(HFUS)} {clist([PH[p] for p in PREF], cnat)})' 

def coq_case(case, out):
    P = max(1, len(case['phases']))
    if out.get('ctor_err'):
        return f'(match {cobj_after(case)} with Err e_ => err_eqb e_ {out["ctor_err"]} | Ok _ => false end)'
    exp = []
    for e, v in out['dH']:
        if e is None and len(v) != 1:
            return 'false'                      # dH is not a scalar: nothing the model could equal
        exp.append(f'({cerr(e)}, {q(F(v[0])) if e is None else "0"})')
    t = f'(dHs_eqb {chem_term(case)} {cobj_after(case)} members_of {clist(exp)})'
    if case.get('history'):
        dexp = []
        for e, v in out['dH_derived']:
            if e is None and len(v) != 1: return 'false'
            dexp.append(f'({cerr(e)}, {q(F(v[0])) if e is None else "0"})')
        cb = lambda b: copt(None if b is None else cbool(b == 'wt'))
        def chop(o):
            if o[0] == 'itemcopy': return f'(HItemCopy 0%nat {cnat(o[1])} {cb(o[2])})'
            if o[0] == 'copy': return f'(HCopy {cnat(o[1])} {cb(o[2])})'
            if o[0] == 'setbasis': return f'(HSetBasis {cnat(o[1])} {cbool(o[2] == "wt")})'
            if o[0] == 'itembackwards': return f'(HItemBackwards {cnat(o[1])} {copt(o[2], cnat)} {copt(o[3], q)})'
            if o[0] == 'backwards': return f'(HBackwards {cnat(o[1])} {copt(o[2], cnat)} {copt(o[3], q)})'
        t = (f'(dHs_hist_eqb {chem_term(case)} {qlist(MW * P)} {cobj(case)} {clist([chop(o) for o in out["hist_ops"]])} '
             f'{clist(out["hist_oks"], cbool)} {clist(exp)} {clist(dexp)})')
    if case.get('xhist'):
        seen = clist([qlist([F(x) for x in v]) for k, v in sorted(out.get('seen', {}).items())])
        t = f'({t} && xs_eqb {cobj(case)} {cxops(case)} {seen})'
    if case['op'] == 'dH':
        return t
    if case['op'] == 'eos':
        mops = clist([f'(MRead {cnat(o[1])})' if o[0] == 'read' else f'(MSolve {cnat(o[1])} {cbool(o[2])})' for o in out['mops']])
        return (f'({t} && mix_eqb {qlist([F(x) for x in out["table"]])} {mops} {qlist([F(x) for x in out["reads"]])} '
                f'{clist(out["flags"], cbool)})')
    ok = out['err'] is None
    if flip_case(case):
        def csop(o):
            if o[0] == 'proxy': return None                      # a proxy is another name for the same state and memo
            if o[0] == 'readH': return 'SReadH'
            if o[0] == 'readC': return 'SReadOther'
            if o[0] == 'setT': return f'(SSetT {q(o[1])})'
            if o[0] == 'setflows': return f'(SSetFlows {qlist(o[1])})'
            if o[0] == 'setphase': return f'(SSetPhase {cnat(PH[o[1]])})'
        pre = clist([x for x in map(csop, out['pre']) if x])
        if case.get('pkg') == 'B':
            fwd = clist(ORDER_B, lambda x: f'(Some {cnat(x)})')
            bwd = clist([ORDER_B.index(i) for i in range(N)], lambda x: f'(Some {cnat(x)})')
            callf = f'(fun o => call_other {qlist(MW)} o {cnat(N)} {fwd} {bwd})'
        else:
            callf = f'(fun o => call_stream {qlist(MW)} o)'
        heap = any(o[0] == 'copy' for o in out['pre'])
        if heap:
            # copies were made: the streams form a heap, every operation names the stream it went through
            pre = clist([f'(HCopyS {cnat(o[1])})' if o[0] == 'copy' else f'(HOn {cnat(o[-1])} {csop(o)})'
                         for o in out['pre'] if o[0] != 'proxy'])
        th = (f'(thermal_cached_eqb {qlist(to_pkg(case, CN))} {hf_term(case, case.get("pkg", "A"))} '
              f'{clist([PH[p] for p in case.get("solve_fail", [])], cnat)} {cobj_after(case)} {callf} '
              f'{cbool(case["op"] == "adiabatic")} {cbool(not case["not_stream"])} (mkP {qlist(to_pkg(case, case["flows"]))} '
              f'{q(case["T"])} {cnat(PH[case.get("sphase", "l")])}) {pre} {qlist([F(x) for x in out["reads"]])} {q(case["Q"])} '
              f'{cerr(out["err"])} {qlist([F(x) for x in out["mol"]])} {q(F(out["T"]))} {cnat(PH[out["phase"]])} '
              f'{q(F(out["Hnet0"]))} {q(F(out["Hnet"]))})')
        if heap:
            afters = clist([f'({qlist([F(x) for x in m])}, {q(F(T_))}, {cnat(PH[p_])})' for m, T_, p_ in out['afters']])
            th = (f'(thermal_heap_eqb {qlist(to_pkg(case, CN))} {hf_term(case, case.get("pkg", "A"))} '
                  f'{clist([PH[p] for p in case.get("solve_fail", [])], cnat)} {cobj_after(case)} {callf} '
                  f'{cbool(case["op"] == "adiabatic")} {cbool(not case["not_stream"])} (mkP {qlist(to_pkg(case, case["flows"]))} '
                  f'{q(case["T"])} {cnat(PH[case.get("sphase", "l")])}) {pre} {qlist([F(x) for x in out["reads"]])} '
                  f'{cnat(out["via_stream"])} {q(case["Q"])} {cerr(out["err"])} {afters} '
                  f'{q(F(out["Hnet0"]))} {q(F(out["Hnet"]))} {qlist([F(x) for x in out["post"]])})')
        return f'({t} && {th})'
    th = (f'(thermal_eqb {qlist(CN * P)} (tile {cnat(P)} {hf_term(case)}) {qlist(MW * P)} {cobj_after(case)} {cbool(case["op"] == "adiabatic")} '
          f'{cbool(not case["not_stream"])} (mkS {qlist(case["flows"])} {q(case["T"])}) {q(case["Q"])} {q(F(out["Hnet0"]))} '
          f'{cerr(out["err"])} {qlist([F(x) for x in out["mol"]]) if ok else "[]"} {q(F(out["T"])) if ok else "0"} '
          f'{q(F(out["Hnet"])) if ok else "0"})')
    return f'({t} && {th})'

def coq_show(case, out):
    P = max(1, len(case['phases']))
    return (f'(match {cobj_after(case)} with Ok o => (map (dH {chem_term(case)}) (members_of o), '
            f'adiabatic (stubH {qlist(CN * P)}) (stubSolve {qlist(CN * P)}) (tile {cnat(P)} {hf_term(case)}) true {qlist(MW * P)} o '
            f'(mkS {qlist(case["flows"])} {q(case["T"])}) {q(case["Q"])}) | Err e => ([], (Some e, mkS [] 0)) end)')

def nontrivial(case, out):
    if out.get('ctor_err'): return True
    if any(e is not None or any(F(x) != 0 for x in v) for e, v in out['dH']): return True
    return bool(out.get('err')) or out.get('mol') != [fr_json(F(x)) for x in case['flows']]

def classify(case, out):
    if case.get('eos'): return ['kind:' + case['kind'], 'op:eos'] + ['eos:' + o[0] for o in out.get('mops', [])]
    if out.get('ctor_err'): return ['kind:' + case['kind'], 'ctor_error:' + out.get('ctor_cls', '?')]
    ks = ['kind:' + case['kind'], 'phases:' + (''.join(case['phases']) or 'none'), 'op:' + case['op'],
          'basis:' + (case['rxns'][0]['rebase'] or case['rxns'][0]['basis']), 'T:%g' % case['T']]
    for r in case['rxns']:
        if r['form'] == 'array': ks.append('form:array')
        if r.get('plus'): ks.append('form:sum')
        cnt = {}
        for t in r['terms'] + (r['plus']['terms'] if r.get('plus') else []): cnt.setdefault(t[1], set()).add(t[0])
        if any(len(v) > 1 for v in cnt.values()): ks.append('chemical-in-two-phases')
    for o in case.get('xhist', []): ks.append('xhist:' + o[0])
    for o in case.get('pkg_hist', []): ks.append('package:' + o[0] + (o[1] if o[0] == 'refresh' else ''))
    for o in case.get('pre', []): ks.append('pre:' + o[0])
    if any(o[0] == 'copy' for o in case.get('pre', [])): ks.append('pre:heap-of-copies')
    for o, ok in zip(out.get('hist_ops', []), out.get('hist_oks', [])): ks.append('rhist:' + o[0] + (':ok' if ok else ':raise'))
    if case.get('pkg') == 'B': ks.append('stream-on-other-package')
    if case.get('solve_fail'): ks.append('solver-raises-in:' + ''.join(case['solve_fail']) + ':stream-' + case.get('sphase', 'l') + '->' + str(out.get('phase')))
    if out.get('err'): ks.append('error:' + out.get('err_cls', '?'))
    elif case['op'] != 'dH': ks.append('returned')
    for e, v in out['dH']:
        ks.append('dH:' + (e or ('scalar' if len(v) == 1 else 'array')))
    return ks

# ------------------------------------------------------------------ direct oracle
LAT = {('l', 'g'): lambda k: HVAP[k], ('l', 's'): lambda k: -HFUS[k], ('g', 'l'): lambda k: -HVAP[k],
       ('g', 's'): lambda k: -(HVAP[k] + HFUS[k]), ('s', 'l'): lambda k: HFUS[k], ('s', 'g'): lambda k: HFUS[k] + HVAP[k]}

def heat_per_reactant(case, spec, terms):
    """sum((Hf + latent) * molar stoichiometry) per mole of reactant; None if a phase has no latent-heat meaning"""
    ph = case['phases']
    st = {}
    for p, i, c in terms:
        st[(p, i)] = F(c) / (MW[IDS.index(i)] if spec['basis'] == 'wt' else 1)
    rkeys = [k for k in st if k[1] == spec['reactant'] and st[k] != 0]
    r = min(rkeys, key=lambda k: ph.index(k[0]) if ph else 0)     # first phase row in which the reactant appears
    tot = F(0)
    for (p, i), c in st.items():
        k = IDS.index(i)
        lat = 0
        if p is not None and p != PREF[k]:
            if (PREF[k], p) not in LAT: return None
            lat = LAT[(PREF[k], p)](k)
        tot += (F(hf_oracle(case)[k]) + lat) * c / -st[r]
    return tot

def expected_dH(case, spec, X=None, as_basis=None):
    """conversion x stoichiometry-weighted heats of formation incl. latent heats (per mass on a wt basis)"""
    basis = as_basis or spec['rebase'] or spec['basis']
    h = heat_per_reactant(case, spec, spec['terms'])
    if h is None: return None
    tot = F(spec['X'] if X is None else X) * h
    if spec.get('plus'):
        h2 = heat_per_reactant(case, spec, spec['plus']['terms'])
        if h2 is None: return None
        tot += F(spec['plus']['X']) * h2
    if basis == 'wt': tot /= MW[IDS.index(spec['reactant'])]
    return tot

def approx(a, b, scale=1.0, tol=1e-9):
    return abs(a - b) <= tol * max(1.0, scale, abs(a), abs(b))

def oracle(case):
    env()
    with edited_package(case):
        return oracle_(case)

def oracle_(case):
    e = env(); tmo = e['tmo']
    try:
        obj, members = build_obj(case)
    except Exception as ex:
        cancels = any(r_.get('plus') and r_['X'] + r_['plus']['X'] == 0 for r_ in case['rxns'])
        if cancels and type(ex).__name__ in ('ZeroDivisionError', 'FloatingPointError'):
            return None      # r1 + r2 with X1 + X2 = 0 has no per-reactant stoichiometry; the property is about reactions that exist
        return f'construct: well-formed reaction rejected with {type(ex).__name__}: {ex}'
    ph = case['phases']; P = max(1, len(ph))
    # clause 1: reported heat of reaction
    dhs = []
    Xf = final_X(case)          # the conversions the object works with after every assignment
    via = ' (member handle obtained before the conversions were reassigned)' if case.get('xhist') else ''
    for m, spec, xk in zip(members, case['rxns'], Xf):
        exp = expected_dH(case, spec, xk)
        try:
            got = m.dH
        except Exception as ex:
            if exp is None: dhs.append(None); continue
            return f'dH: raised {type(ex).__name__}: {ex}'
        if np.ndim(got) != 0:
            return f'dH-item: dH of a {type(m).__name__} is an array {np.asarray(got).tolist()}, expected the number {float(exp) if exp is not None else None}'
        if exp is not None and not approx(float(got), float(exp)):
            return f'dH: reported {float(got)}{via}, conversion x sum((Hf+latent)*stoichiometry) = {float(exp)} with X = {xk}'
        dhs.append(float(got))
    if case.get('history'):
        extra_ = {}
        build_obj(case, extra_)
        for d, m_ in zip(extra_.get('derived', []), extra_.get('lineage', [])):
            if m_ is None: continue
            exp = expected_dH(case, case['rxns'][m_], Xf[m_], as_basis=d._basis)
            if exp is None: continue
            try: got = float(d.dH)
            except Exception as ex: return f'dH-copy: dH of a copy raised {type(ex).__name__}: {ex}'
            if not approx(got, float(exp)):
                return (f'dH-copy: a copy of member {m_} (now by {d._basis}) reports {got}, conversion x sum((Hf+latent)*stoichiometry) '
                        f'= {float(exp)} after {[o[0] for o in extra_["hist_ops"]]}')
    if case['op'] == 'dH' or case['not_stream']: return None
    if case['op'] == 'eos':
        r = run_eos(case, obj)
        for o, got_, fl in zip([o for o in r['ops'] if o[0] == 'read'], r['reads'], [f for o, f in zip(r['ops'], r['flags']) if o[0] == 'read']):
            true_ = r['table'][o[1]]
            if not approx(got_, true_, abs(true_)):
                return (f'eos: Stream.H of a gas stream on an equation-of-state package is {got_}; the same state evaluated by a '
                        f'package on which no temperature was ever solved has H = {true_}')
        for name, before, q_, after in r['energy']:
            if not approx(after, before + q_, abs(before) + abs(q_), tol=1e-6):
                return f'eos-{name}: enthalpy (incl. formation) after {after} != before {before} + {q_} (evaluated by the never-solved package)'
        return None
    T_op = case['T']
    if flip_case(case):
        r = run_stream(case, obj)
        for got_, true_ in zip(r['reads'], r['true_reads']):
            if not approx(got_, true_, abs(true_)):
                return f'memo: Stream.H read through a handle returned {got_}, the state it was read in has H = {true_}'
        for g_, (got_, true_) in enumerate(zip(r['post'], r['post_true'])):
            if not approx(got_, true_, abs(true_)):
                return (f'memo: after the {case["op"]} call through stream {r["via_stream"]}, Stream.H of stream {g_} (0 = original, '
                        f'others = copies in order of creation) reads {got_}, the state that stream is in has H = {true_}; '
                        f'history before the call: {[o[0] for o in r["pre"]]}')
        before = r['before']; T_op = before['T']
        mol0 = np.array(from_pkg(case, before['mol']), float)
        hfo = np.array(hf_oracle(case, case.get('pkg', 'A')), float)      # per chemical, reaction order
        hf0 = float(np.dot(hfo, mol0))
        hnet0 = r['H0'] + hf0                                               # independent of the library's Hf array
        scale = abs(hnet0) + abs(case['Q']) + abs(hf0)
        if case['op'] == 'adiabatic':
            if r['err']:
                fails = case.get('solve_fail', [])
                if r['err_cls'] == 'InfeasibleRegion': return None
                if not mol0.any() or not np.array(r['after']['mol']).any(): return None   # nothing to heat
                if r['err_cls'] in ('UndefinedChemicalAlias',): return None
                ph0 = before['phase']
                other = {'g': 'l', 'l': 'g'}.get(ph0)
                if ph0 in fails and (other is None or other in fails): return None   # no phase left in which T can be found
                return f'adiabatic: raised {r["err_cls"]} (stream phase {ph0}, solver unavailable in {fails})'
            hnet1 = r['H1'] + float(np.dot(hfo, np.array(from_pkg(case, r['after']['mol']), float)))
            if not approx(hnet1, hnet0 + case['Q'], scale):
                return (f'adiabatic: Hnet after {hnet1} != Hnet before {hnet0} + Q {case["Q"]} (H from fresh streams, Hf from the '
                        f'chemicals as of the last refresh; '
                        f'history before the call: {[o[0] for o in r["pre"]]}, package {case.get("pkg", "A")})')
            return None
        s = fresh_stream(case, before['mol'], before['T'], before['phase'])
        shadow_flows, shadow_phase = mol0, before['phase']
    else:
        s = make_stream(case)
        hfo = np.array(hf_oracle(case) * P, float)
        mol0 = np.asarray(s.imol.data.to_array(), float).reshape(-1).copy()
        hf0 = float(np.dot(hfo, mol0)); hnet0 = s.H + hf0
        scale = abs(hnet0) + abs(case['Q']) + abs(hf0)
        if case['op'] == 'adiabatic':
            try:
                obj.adiabatic_reaction(s, case['Q'])
            except Exception as ex:
                if type(ex).__name__ == 'InfeasibleRegion': return None
                if not mol0.any() or not np.asarray(s.imol.data.to_array()).any(): return None   # nothing to heat
                return f'adiabatic: raised {type(ex).__name__}: {ex}'
            hnet1 = s.H + float(np.dot(hfo, np.asarray(s.imol.data.to_array(), float).reshape(-1)))
            if not approx(hnet1, hnet0 + case['Q'], scale):
                return f'adiabatic: Hnet after {hnet1} != Hnet before {hnet0} + Q {case["Q"]} (Hf from the chemicals as of the last refresh)'
            return None
    # isothermal: follow the reactant fed to every member on a shadow stream
    if flip_case(case):
        shadow = tmo.Stream(None, T=T_op, phase=shadow_phase); shadow.imol.data[:] = shadow_flows   # on the reaction's package
    else:
        shadow = make_stream(case)
    fed = []
    try:
        def amount(st, m):
            v = st.imol.data if (m._basis == 'mol') else st.imass.data
            return float(v[m._reactant_index])
        fresh = [build_rxn(case, spec) for spec in case['rxns']]    # independent single reactions, same definitions
        if case.get('xhist'):
            for r_, xk in zip(fresh, Xf): r_.X = xk
        groups = [[case['kind'], list(range(len(members)))]] if case['kind'] != 'system' else case['parts']
        for pk, idx in groups:
            if pk == 'parallel':
                # every member acts on the feed: apply each one alone to a copy of the feed and add the changes up
                fed += [amount(shadow, fresh[i]) for i in idx]
                feed = np.asarray(shadow.imol.data.to_array(), float).copy()
                total = feed.copy()
                for i in idx:
                    shadow.imol.data[:] = feed
                    fresh[i].force_reaction(shadow)
                    total += np.asarray(shadow.imol.data.to_array(), float) - feed
                shadow.imol.data[:] = total
            else:
                for i in idx:
                    fed.append(amount(shadow, fresh[i])); fresh[i].force_reaction(shadow)
        obj(s)
    except Exception as ex:
        if type(ex).__name__ == 'InfeasibleRegion': return None
        return f'isothermal: raised {type(ex).__name__}: {ex}'
    if any(d is None for d in dhs): return None
    mol1 = np.asarray(s.imol.data.to_array(), float).reshape(-1)
    if flip_case(case): mol1 = np.array(from_pkg(case, mol1.tolist()), float)
    ref = np.asarray(shadow.imol.data.to_array(), float).reshape(-1)
    if not np.allclose(mol1, ref, rtol=1e-9, atol=1e-9):
        if (ref < 0).any(): return None    # the clamp fired: the clause is about the unclamped extent
        return (f'isothermal: flows after the call {mol1.tolist()} are not those of the members applied one by one '
                f'(each to the feed for parallel, to the running composition for series) {ref.tolist()}')
    if flip_case(case) and hf_oracle(case, 'A') != hf_oracle(case, case.get('pkg', 'A')):
        # the two packages were refreshed at different points of the edit history: the reaction's dH and the stream's Hf use
        # different heats of formation, and the identity (one set of heats, C06_isothermal_object) has nothing to say
        return None
    heat = sum(d * f for d, f in zip(dhs, fed))
    # sensible (and, for the stub, phase-independent) enthalpy of each species at T, from the implementation
    h = []
    for p in range(P):
        for i in IDS:
            one = tmo.Stream(None, T=T_op, **{i: 1.0})
            h.append(one.H)
    lat = [0.0] * (P * N)
    for spec in case['rxns']:
        for p, i, c in spec['terms'] + (spec['plus']['terms'] if spec.get('plus') else []):
            if p is not None and p != PREF[IDS.index(i)]:
                lat[ph.index(p) * N + IDS.index(i)] = float(LAT[(PREF[IDS.index(i)], p)](IDS.index(i)))
    kirchhoff = float(np.dot(np.array(h) - np.array(lat), mol1 - mol0))
    d = s.H + float(np.dot(hfo, mol1)) - hnet0
    if T_op == TREF and not ph:
        if not approx(d, heat, scale):
            return f'isothermal: at the reference state Hnet changed by {d}, heat of reaction x reactant fed = {heat}'
    if not approx(d, heat + kirchhoff, scale):
        return f'isothermal: Hnet changed by {d}, dH x fed + sum h_i(T) dm_i = {heat + kirchhoff}'
    return None

def finding_key(case, msg):
    return 'C06:' + msg.split(':')[0]

def mismatch_key(case, out):
    return f"{case['op']}/{'pt' if case['phases'] else 'pl'}/{case['kind']}/{out.get('err')}"
