"""C20 — separation helper functions (thermosteam/separations.py).
Correspondence harness, generators and direct oracle."""
import warnings
import numpy as np
from fractions import Fraction as F
from vf import q, qlist, clist, cbool, cnat, copt

ID = 'C20'
COQ_DIR = 'C20'
COQ_HEADER = 'From V Require Import Common.Num C20.Model.\nOpen Scope Q_scope.'
RULE = ('one call of a separation helper per case on real Stream / MultiStream objects over a stub package of six '
        'user-defined chemicals (Water with CAS 7732-18-5 and MW 18.01528, five with dyadic MW and distinct densities): '
        'handle_infeasible_flow_rates, mix_and_split (1-4 inlets, scalar/vector splits, outlets aliased with inlets), '
        'adjust_moisture_content and mix_and_split_with_moisture_content (ID None / given, strict None/True/False, '
        'Stream and MultiStream retentate/permeate, water in the vapour phase), partition and phase_fraction (1-4 equilibrium '
        'chemicals, K = 2^k and malformed K < 0, forced top/bottom chemicals, stale outlet contents, strict on/off; the '
        'phase-fraction solver replaced from the harness by a table value in one stream and left real in another, its arguments '
        'recorded and compared, its result handed to the model as the oracle value), lle / vle wrappers with the equilibrium '
        'call replaced by a table-driven (conserving or arbitrary) split, efficiencies, top_chemical, multi_stream with the '
        'right and wrong phases, phase_split, chemical_splits, material_balance(flow) with the real np.linalg solver '
        '(arguments A, b recorded and compared, contract A x = b checked on the returned x), the two-component closed form of '
        'binary_phase_fraction.phase_fraction and the Rachford-Rice residual function; material_balance(composition) on targets '
        'built from a positive scaling of the inlets (feasible) or arbitrary ones, every pass of its while loop recorded (A, b, x), '
        'the loop replayed in the model with the recorded answers (right-hand side of every pass, stop test, shift of negative factors, '
        'final scaling compared; contract A x = b checked every pass), TypeError / AttributeError / ValueError entries; partition '
        '(a third of the cases), lle and vle with top or bottom being the feed object itself or a Stream linked with it (shared flow vector); the real-solver stream also with ONE '
        'equilibrium chemical. In the real-solver stream only '
        'flx.find_bracket / IQ_interpolation is an oracle: phase_fraction / solve_phase_fraction_Rashford_Rice (exits on '
        'the range of K guarded by the forced fractions, bracket ends, sign tests, as_valid_fraction) are modelled, the '
        'value the numeric stage returned is recorded and handed to the model, with many cases having every K on one side of 1 '
        'and forced top/bottom chemicals; phase_fraction is also called directly with 1-3 chemicals and forced fractions. '
        'mix_and_split / mix_and_split_with_moisture_content also get a bottom outlet on another property package (superset, '
        'reordered superset, subset) that is usually reused (already holds flows) and often receives nothing. State kept between calls: the lle / vle multi_stream argument is usually one that still holds flows of an earlier call, and the equilibrium stub is in most cases relative (it splits whatever material the working stream holds, i.e. a conserving equilibrium; the rows it saw are compared with the rows of the model); phase_split feeds carry a history (per-phase views fetched, an earlier split, flows rewritten, phase set changed; half of the histories are view/split -> phases -> set) executed on the real MultiStream and on the cached-view state machine. mix_and_split also gets a MultiStream top outlet with inlets in the phases L, g, l, s (owned by the top, other-case twin of an owned phase, or new) on the same or another property package. mix_hist: histories of 1-3 mix_and_split calls on the same outlet objects with inlets of the receiving or other packages whose flows are entered chemical by chemical in chosen orders (the same chemicals in different orders recur within and across calls), run against the model of indexer.index_overlap with its per-package index cache (cleared at the start of each case). phase_split also gets outlets on other packages and feed rows entered in chosen orders. A few calls per run use the REAL flash on Water / Ethanol (V, and x / y specifications within 1e-6 of the feed composition): the wrapper must hand the rows through and the flash must honour its contract (rows add up to the feed, none negative). Compared: every outlet / '
        'mutated inlet flow per phase (1e-9 relative), returned phase fraction, exception class, number of infeasibility '
        'warnings, phases of the outlets. non-trivial = the call returned normally and moved material, or took an '
        'infeasibility / clipping branch; distinct = distinct case hash. '
        'Round 6: vle_hist = two to four vle(..., multi_stream=ms) calls on ONE holder (phases lg / lgs / Llg / Lgls, empty or '
        'holding flows) whose feeds are Streams of phase l/g/L/s or MultiStreams of any of ten phase sets with rows that may be '
        'empty, so the holder expands and its rows shift between calls; the table-driven flash of these cases reads and writes '
        'the rows by position (not through the key index), per call the outlets, the rows the flash saw, the holder phases, '
        'outlet phases and the untouched feed are compared. moisture / mix_moisture cases carry for each Stream outlet a '
        'history of 1-5 steps from {imass read, fresh partner.link_with(stream), stream.unlink()} applied before the call')
ASSUMPTIONS = [
    'float rounding is not modelled: values are compared to 1e-9 relative; generators avoid inputs whose branch decision '
    '(sign of the remaining permeate water, density tie, clip tie) is not decided by a clear margin in exact arithmetic',
    'oracle: in the partition theorems the phase-fraction solver returns an arbitrary number; partition_K_root assumes it is a '
    'root of the Rachford-Rice residual; partition_real_root derives that from the modelled wrapper plus the contract of the '
    'numeric root finder (flx.find_bracket + flx.IQ_interpolation: an interior value it returns is a root)',
    'oracle: the LLE / VLE call of the working stream writes arbitrary rows; conservation of the wrappers is proved under '
    'the contract rowL + rowl = feed (rowg + rowl = feed)',
    'oracle: np.linalg.solve / lstsq with the contract A x = b (checked on every returned x in the correspondence)',
    'oracle: Stream.rho (density of a phase) is an arbitrary function in the theorems; the stub package value is used in the correspondence',
    'in-place calls (top or bottom of partition / lle / vle IS the feed object) are modelled as the code behaves (live reference '
    'feed_mol in partition, mixing computed from the overwritten feed in lle) and compared on every run; the property text does not '
    'name them, so what the faithful model refutes (C20_partition_top_is_feed_refuted, C20_partition_bottom_is_feed_refuted, '
    'C20_lle_outlet_is_feed_refuted) is a proposed finding: WITNESS_CANDIDATES become WITNESSES once listed in known_findings.txt; '
    'outlets that merely share data with the feed through Stream.link_with / proxies are not modelled',
    'material_balance(composition): the while loop is modelled with fuel (number of recorded solver calls + 1); the theorem is about every '
    'terminating run; divergence (NaN factors after overflow) is outside the generator',
    'SparseVector division rule used by chemical_splits is probed at start-up (present heuristic or raise-on-any-zero-divisor); '
    'the theorem holds for both',
]
TRUSTED = ['model coq/C20/Model.v is hand-written from thermosteam/separations.py and equilibrium/binary_phase_fraction.py '
           '(no translator; DESIGN mentions one for handle_infeasible_flow_rates, the tie is the correspondence check on every run)',
           'the real-flash cases rely on the lever-rule repair of /repo commit dd55412 (vapour clipped to the material present); C20_1..6 are applied in /repo',
    'the model follows the source with pending_fixes/C20_1..6 applied; on a tree without them the CORPUS cases '
           'reproduce each defect (mismatch + direct oracle message)',
           'MultiStageEquilibrium is not modelled; vle with an outlet that is the feed uses the same model as the call with separate '
           'outlets (the flash runs on a copy and the feed is not read after the first write): established by the correspondence only',
           'link / unlink / imass (Stream.link_with, Stream.unlink, indexer.by_mass) and MaterialIndexer.copy_like / _expand_phases / '
           '_set_cache / _get_index_data for phase keys are modelled by hand as object-identity state machines (lstate, vstate); '
           'the vle_hist flash stub writes rows by position; trim_cache eviction is covered by the theorem holding for any valid cache content']
CASE_TIMEOUT = 60

IDS = ['Water', 'A_', 'B_', 'C_', 'D_', 'E_']
N = 6
MWS = [18.01528, 16., 32., 8., 4., 64.]
RHOS = [1024., 512., 2048., 128., 256., 4096.]
MWC = 18.01528
ERR = {'InfeasibleRegion': 'EInfeasible', 'FloatingPointError': 'EZeroDiv', 'ZeroDivisionError': 'EZeroDiv',
       'ValueError': 'EValue', 'RuntimeError': 'ERuntime', 'IndexError': 'EIndex', 'AttributeError': 'EOther',
       'LinAlgError': 'EDim', 'UndefinedChemicalAlias': 'EKey', 'UndefinedPhase': 'EUndefPhase', 'TypeError': 'EType',
       'KeyError': 'EKey'}

PKGS = {'sup': IDS + ['X_'], 'perm': ['E_', 'X_', 'Water', 'C_', 'A_', 'B_', 'D_'], 'sub': ['Water', 'A_', 'B_', 'C_', 'E_']}

def pkg_pos(pkg):
    names = PKGS[pkg]
    return [names.index(n) if n in names else None for n in IDS]

_env = {}
def env():
    if not _env:
        import thermosteam as tmo
        ch = {n: tmo.Chemical(n, search_db=False, MW=mw, Hf=0., Cn=64., phase='l', default=True, rho=rho,
                              **({'CAS': '7732-18-5'} if n == 'Water' else {}))
              for n, mw, rho in zip(IDS + ['X_'], MWS + [2.], RHOS + [64.])}
        thermo = tmo.Thermo(tmo.Chemicals([ch[n] for n in IDS]))
        tmo.settings.set_thermo(thermo)
        _env['tmo'] = tmo
        _env['thermo'] = thermo
        # other property packages over the same chemical objects (superset, reordered superset, subset)
        _env['pkgs'] = {k: tmo.Thermo(tmo.Chemicals([ch[n] for n in names])) for k, names in PKGS.items()}
        from thermosteam.base.sparse import SparseVector
        try:
            r = SparseVector([1., 0., 2.]) / SparseVector([0., 1., 2.])
            _env['heur'] = True
        except ZeroDivisionError:
            _env['heur'] = False
    else:
        _env['tmo'].settings.set_thermo(_env['thermo'])
    return _env

# ------------------------------------------------------------------ value alphabets (dyadic)
FLOWS = [F(0), F(0), F(1, 4), F(1, 2), F(1), F(3, 2), F(2), F(3), F(4), F(8), F(1, 1024), F(1024), F(5, 8), F(1), F(2)]
SPLITS = [F(0), F(1), F(1, 2), F(1, 4), F(3, 4), F(1, 8), F(7, 8)]
PHIS = [F(1, 2), F(1, 4), F(3, 4), F(1, 8), F(7, 8), F(1, 1024), F(1023, 1024), F(1, 2), F(3, 8)]
PHIS_EDGE = [F(0), F(1), F(-1, 2), F(3, 2)]
MCS = [F(1, 2), F(1, 4), F(3, 4), F(1, 8), F(7, 8), F(15, 16), F(1, 16), F(3, 8)]
EFFS = [F(0), F(1, 4), F(1, 2), F(3, 4), F(1), F(7, 8), F(1)]

def fl(x):
    return float(x)

def flows(rng, nz=None, neg=False):
    """a flow vector with 1..6 non-zero chemicals"""
    k = rng.randint(1, N) if nz is None else nz
    idx = rng.sample(range(N), k)
    v = [0.] * N
    for i in idx:
        x = rng.choice(FLOWS[2:])
        if neg and rng.random() < 0.3:
            x = -x
        v[i] = fl(x)
    return v

def maybe_empty(rng, p=0.7):
    return [0.] * N if rng.random() < p else flows(rng)

# ------------------------------------------------------------------ generators
def gen_clip(rng):
    n = rng.randint(1, 6)
    alpha = [F(0), F(1), F(-1), F(1, 2), F(-1, 2), F(2), F(4), F(-4), F(1, 1024), F(-1, 1024), F(1024), F(3)]
    mx = [fl(rng.choice([F(0), F(1), F(2), F(1, 2), F(4), F(1024), F(3)])) for _ in range(n)]
    mode = rng.random()
    if mode < 0.3:      # feasible
        mol = [fl(F(m) * rng.choice([F(0), F(1, 2), F(1), F(1, 4)])) for m in mx]
    else:
        mol = [fl(rng.choice(alpha)) for _ in range(n)]
    if rng.random() < 0.08:
        mx = [fl(rng.choice([F(-1), F(1), F(0)])) for _ in range(n)]   # malformed: negative maximum
    return {'fn': 'clip', 'mol': mol, 'max': mx, 'strict': rng.random() < 0.4}

def gen_mix_split(rng):
    k = rng.randint(1, 4)
    ins = [flows(rng) if rng.random() < 0.85 else [0.] * N for _ in range(k)]
    if rng.random() < 0.5:
        split = fl(rng.choice(SPLITS))
    else:
        split = [fl(rng.choice(SPLITS)) for _ in range(N)]
    if rng.random() < 0.08:   # malformed: split outside [0, 1]
        split = [fl(rng.choice(SPLITS + [F(-1, 2), F(3, 2)])) for _ in range(N)]
    alias = rng.choice([None, None, None, 'top', 'bottom'])
    c = {'fn': 'mix_split', 'ins': ins, 'split': split, 'alias': alias,
         'top0': maybe_empty(rng), 'bot0': maybe_empty(rng), 'pkg': None}
    if rng.random() < 0.4:
        # MultiStream top outlet; inlets in various phases (also phases the top lacks, with and without a same-letter
        # twin it owns) and on other property packages (same chemicals, other order / superset)
        k = rng.randint(1, 4)
        c['ins'] = [flows(rng) if rng.random() < 0.9 else [0.] * N for _ in range(k)]
        c['top_phases'] = rng.choice(['gl', 'gl', 'ls', 'Ll', 'gls', 'Lg', 'gs'])
        c['in_phases'] = [rng.choice('llLLgs') for _ in range(k)]
        c['in_pkgs'] = [rng.choice([None, None, 'sup', 'perm']) for _ in range(k)]
        if rng.random() < 0.5 and k > 1:
            c['ins'][1] = [fl(F(x) * rng.choice([F(1), F(2), F(1, 2)])) for x in c['ins'][0]]      # same chemicals as inlet 0
        c['in_orders'] = [shuffled_names(rng, v) if rng.random() < 0.8 else None for v in c['ins']]
        c['alias'] = None
        c['top0'] = {p: (flows(rng) if rng.random() < 0.4 else [0.] * N) for p in c['top_phases']}
        if not set('lL') & set(c['top_phases']):
            # NOT EXERCISED (defect found by the thorough tier, not modelled yet): a reused liquid bottom Stream that still holds
            # flows while the MultiStream top has no liquid phase makes MultiStream.split_to raise UndefinedPhase in
            # `s2.phases = phases` (Stream.phases setter: the class is already switched to MultiStream when
            # to_material_indexer fails, the outlet object is left inconsistent); see EXCLUDED_DEFECT_INPUTS
            c['bot0'] = [0.] * N
        return c
    if rng.random() < 0.4:
        # bottom outlet on another property package, usually reused (already holding flows)
        c['pkg'] = pkg = rng.choice(['sup', 'perm', 'perm', 'sub'])
        c['alias'] = None if alias == 'bottom' else alias
        m = len(PKGS[pkg])
        c['bot0'] = [fl(rng.choice(FLOWS[2:])) if rng.random() < 0.5 else 0. for _ in range(m)] if rng.random() < 0.75 else [0.] * m
        if rng.random() < 0.35:      # nothing reaches the bottom
            c['split'] = 1.0 if rng.random() < 0.5 else [1.0 if any(v[i] for v in ins) else fl(rng.choice(SPLITS)) for i in range(N)]
    return c

def moisture_exact(R, P, w, mc, by_mass):
    """remaining permeate moisture flow in exact arithmetic (repaired source)"""
    mws = [F(x) for x in MWS]
    tot = [F(a) + F(b) for a, b in zip(R[0], R[1])]
    fm = sum(t * m for t, m in zip(tot, mws))
    mw = mws[w] if by_mass else F(MWC)
    rw = tot[w]
    dry = fm - mw * rw
    water = dry * mc / (1 - mc) / mw
    return F(P[0][w]) - (water - rw)

def gen_moisture(rng):
    for _ in range(100):
        kinds = rng.choice(['SS', 'SS', 'SS', 'SS', 'MM', 'MM', 'SM', 'MS'])
        ident = rng.choice([None, None, 'Water', 'Water', 'B_', 'D_'])
        w = 0 if ident is None else IDS.index(ident)
        mc = rng.choice(MCS)
        if rng.random() < 0.06:
            mc = rng.choice([F(0), F(1), F(3, 2), F(-1, 2)])   # malformed
        def strm(kind, wet):
            liq = flows(rng)
            if wet:
                liq[w] = fl(rng.choice([F(8), F(16), F(64), F(1024), F(2), F(256)]))
            elif rng.random() < 0.5:
                liq[w] = 0.
            oth = [0.] * N
            if kind == 'M' and rng.random() < 0.6:
                oth = flows(rng, nz=rng.randint(1, 2))
                if rng.random() < 0.6:
                    oth[w] = fl(rng.choice([F(1, 4), F(1), F(2)]))
            return [liq, oth]
        R = strm(kinds[0], False)
        P = strm(kinds[1], rng.random() < 0.7)
        strict = rng.choice([None, True, False, False])
        by_mass = ident is not None
        if mc != 1:
            rem = moisture_exact(R, P, w, mc, by_mass)
            exact_path = by_mass and w != 0 and mc in (F(1, 2), F(3, 4), F(7, 8))
            if rem == 0 and not exact_path:
                continue
            if rem != 0 and abs(rem) < F(1, 10 ** 6):
                continue
        c = {'fn': 'moisture', 'kinds': kinds, 'R': R, 'P': P, 'ID': ident, 'mc': fl(mc), 'strict': strict}
        # what happened to the two Stream objects before the call: imass read, a pass-through partner linked, unlink()
        for key, kind in (('prepR', kinds[0]), ('prepP', kinds[1])):
            c[key] = gen_link_hist(rng) if kind == 'S' and rng.random() < 0.6 else []
        return c
    raise RuntimeError('gen_moisture')

LINK_OPS = ['mass', 'link', 'unlink']
def gen_link_hist(rng):
    return [rng.choice(LINK_OPS) for _ in range(rng.randint(1, 5))]

def apply_link_hist(s, ops, partners):
    for op in ops:
        if op == 'mass':
            s.imass
        elif op == 'link':
            partner = mkstream([0.] * N)
            partner.link_with(s)
            partners.append(partner)
        else:
            s.unlink()

def lops_term(ops):
    return clist(ops, lambda o: {'mass': 'LMass', 'link': 'LLink', 'unlink': 'LUnlink'}[o])

def gen_mix_moisture(rng):
    for _ in range(100):
        k = rng.randint(1, 3)
        ins = [flows(rng) for _ in range(k)]
        ident = rng.choice([None, 'Water', 'C_'])
        w = 0 if ident is None else IDS.index(ident)
        ins[0][w] = fl(rng.choice([F(16), F(64), F(1024), F(1)]))
        split = [fl(rng.choice(SPLITS)) for _ in range(N)]
        split[w] = fl(rng.choice([F(0), F(1, 8), F(1, 4)]))
        mc = rng.choice(MCS)
        strict = rng.choice([None, True, False])
        tot = [sum(F(s[i]) for s in ins) for i in range(N)]
        top = [t * F(s) for t, s in zip(tot, split)]
        bot = [t - a for t, a in zip(tot, top)]
        rem = moisture_exact([top, [0] * N], [bot, [0] * N], w, mc, ident is not None)
        if abs(rem) < F(1, 10 ** 6):
            continue
        c = {'fn': 'mix_moisture', 'ins': ins, 'split': split, 'ID': ident, 'mc': fl(mc), 'strict': strict,
             'pkg': rng.choice([None, 'sup']), 'top0': maybe_empty(rng, 0.4)}
        m = len(PKGS[c['pkg']]) if c['pkg'] else N
        c['bot0'] = [fl(rng.choice(FLOWS[2:])) if rng.random() < 0.5 else 0. for _ in range(m)] if rng.random() < 0.6 else [0.] * m
        if c['pkg'] is None:      # both outlets on the main package: they may have been linked / unlinked before
            c['prepR'] = gen_link_hist(rng) if rng.random() < 0.6 else []
            c['prepP'] = gen_link_hist(rng) if rng.random() < 0.6 else []
        return c
    raise RuntimeError('gen_mix_moisture')

ONE_PLUS, ONE_MINUS, X_LO, X_HI = F(1.0 + 1e-9), F(1.0 - 1e-9), F(1e-16), F(1 - 1e-16)

def rr_obj_exact(phi, z, K, za, zb):
    s_ = sum(-zi * (k - 1) / (1 + phi * (k - 1)) for zi, k in zip(z, K))
    return s_ - (za / phi if za > 0 else 0) + (zb / (1 - phi) if zb > 0 else 0)

def rr_stage(z, K, za, zb):
    """which statement of phase_fraction / solve_phase_fraction_Rashford_Rice returns, in exact arithmetic;
    None when a comparison is too close to be decided the same way in floating point"""
    z = [F(x) for x in z]; K = [F(x) for x in K]; za = F(za); zb = F(zb)
    if not (za or zb or len(z) > 2):
        return 'closed'
    if max(K) <= ONE_PLUS and not za: return 'exit0'
    if min(K) >= ONE_MINUS and not zb: return 'exit1'
    y0 = rr_obj_exact(X_LO if za else F(0), z, K, za, zb)
    y1 = rr_obj_exact(X_HI if zb else F(1), z, K, za, zb)
    if min(abs(y0), abs(y1)) < F(1, 10 ** 9) or abs(y0 - y1) <= F(1, 10 ** 9) * max(abs(y0), abs(y1)):
        return None
    if y0 > y1 > 0 or y0 < y1 < 0: return 'sign1'
    if y1 > y0 > 0 or y1 < y0 < 0: return 'sign0'
    return 'numeric'

def partition_stage(c):
    involved = c['ids'] + c['topc'] + c['botc']
    Ft = sum(F(c['feed'][i]) for i in involved)
    if Ft == 0:
        return 'empty'
    return rr_stage([F(c['feed'][i]) / Ft for i in c['ids']], c['K'],
                    sum(F(c['feed'][i]) for i in c['topc']) / Ft, sum(F(c['feed'][i]) for i in c['botc']) / Ft)

def gen_partition(rng, real=False, fn='partition'):
    for _ in range(200):
        c = gen_partition1(rng, real, fn)
        if not real or partition_stage(c) is not None:
            return c
    raise RuntimeError('gen_partition')

def gen_partition1(rng, real=False, fn='partition'):
    nid = rng.choice([1, 2, 2, 3, 3, 4]) if not real else rng.choice([1, 1, 2, 2, 3, 4])
    perm = rng.sample(range(N), N)
    ids = perm[:nid]
    rest = perm[nid:]
    topc, botc = [], []
    r = rng.random()
    if r < 0.25:
        topc = rest[:1]
    elif r < 0.45:
        botc = rest[:1]
    elif r < 0.6:
        topc, botc = rest[:1], rest[1:2]
    feed = flows(rng, nz=rng.randint(1, N))
    for i in ids:
        if rng.random() < 0.85 and feed[i] == 0:
            feed[i] = fl(rng.choice(FLOWS[2:]))
    K = [fl(F(2) ** rng.randint(-10, 10)) for _ in ids]
    if real and rng.random() < 0.45:
        # every K on the same side of 1 (the early exits of the Rachford-Rice wrapper), mostly with forced chemicals
        side = rng.choice([1, -1])
        K = [fl(F(2) ** (side * rng.randint(0 if rng.random() < 0.3 else 1, 8))) for _ in ids]
        if rng.random() < 0.8 and not (topc or botc):
            if rng.random() < 0.5: botc = rest[:1]
            else: topc = rest[:1]
        for i in topc + botc:
            if rng.random() < 0.85 and feed[i] == 0:
                feed[i] = fl(rng.choice(FLOWS[2:]))
    malformed = None
    m = rng.random()
    if not real:
        if m < 0.10:
            malformed = 'negK'
            j = rng.randrange(nid)
            K[j] = fl(rng.choice([F(-1, 2), F(-4), F(-1), F(-1, 8), F(-7)]))
        elif m < 0.13:
            malformed = 'dup'
            ids = ids + [ids[0]]
            K = K + [fl(F(2) ** rng.randint(-3, 3))]
        elif m < 0.16:
            malformed = 'overlap'
            topc = [ids[0]]
        elif m < 0.19:
            malformed = 'empty'
            feed = [0.] * N
            if rng.random() < 0.5:
                feed[rest[-1]] = 1.
    if real:
        phi = None
    else:
        phi = fl(rng.choice(PHIS if rng.random() < 0.8 else PHIS_EDGE))
    c = {'fn': fn, 'feed': feed, 'ids': ids, 'K': K, 'topc': topc, 'botc': botc,
         'strict': rng.random() < 0.3, 'phi': phi, 'malformed': malformed}
    if fn == 'partition':
        c['top0'] = maybe_empty(rng, 0.6)
        c['bot0'] = maybe_empty(rng, 0.75)
        # one outlet IS the feed object (in-place partition); 'o0' is what the other outlet held
        c['alias'] = rng.choice([None, None, None, 'top', 'top', 'bottom'])
        if c['alias']:
            c['o0'] = c['bot0'] if c['alias'] == 'top' else c['top0']
            c['share'] = rng.choice(['same', 'link'])      # the very object, or another Stream linked to it (shared flow vector)
    return c

def rho_exact(row):
    tot = sum(F(x) for x in row)
    if tot == 0:
        return None
    return sum(F(x) * F(m) for x, m in zip(row, MWS)) / sum(F(x) * F(m) / F(r) for x, m, r in zip(row, MWS, RHOS))

def gen_eq_rows(rng, feed):
    """table-driven result of the equilibrium call: (row_first, row_second)"""
    r = rng.random()
    if r < 0.65:       # conserving split
        a = [fl(F(x) * rng.choice(SPLITS)) for x in feed]
        b = [fl(F(x) - F(y)) for x, y in zip(feed, a)]
    elif r < 0.75:     # everything in one phase
        a, b = list(feed), [0.] * N
        if rng.random() < 0.5:
            a, b = b, a
    elif r < 0.85:     # both empty (solver lost everything)
        a, b = [0.] * N, [0.] * N
    else:              # arbitrary, not conserving
        a, b = flows(rng), flows(rng)
    return a, b

def eq_extras(rng, c, feed, first_row):
    """equilibrium stub mode and the state of a reused multi_stream"""
    # 'rel': the stub splits whatever material the working stream holds (a conserving equilibrium), with the split that
    # gives the rows above when it holds exactly the feed; 'abs': it writes the rows above
    conserving = all(F(a) + F(b) == F(f) for a, b, f in zip(first_row, c['l'], feed))
    exact_split = all(f != 0 or a == 0 for a, f in zip(first_row, feed))
    c['eq_mode'] = 'rel' if (conserving and exact_split and rng.random() < 0.7) else 'abs'
    c['split'] = [fl(F(a) / F(f)) if f else 0. for a, f in zip(first_row, feed)]
    if c['eq_mode'] == 'rel' and any(F(s_) * F(f) != F(a) for s_, f, a in zip(c['split'], feed, first_row)):
        c['eq_mode'] = 'abs'        # the split is not a dyadic number
    c['ms0'] = None
    if c['ms'] and rng.random() < 0.65:     # the caller's multi_stream was used before: it still holds flows
        c['ms0'] = {p: (flows(rng) if rng.random() < 0.8 else [0.] * N) for p in c['ms']}

def gen_lle(rng):
    for _ in range(100):
        feed = flows(rng, nz=rng.randint(2, N))
        L, l = gen_eq_rows(rng, feed)
        rL, rl = rho_exact(L), rho_exact(l)
        if rL is not None and rl is not None and rL == rl and L != l:
            continue          # density tie decided by rounding
        if rL is not None and rl is not None and rL != rl and abs(rL - rl) < F(1, 10 ** 6) * rL:
            continue
        eff = rng.choice(EFFS)
        if rng.random() < 0.06:
            eff = rng.choice([F(3, 2), F(-1, 2)])
        ms = rng.choice([None, None, 'lL', 'lL', 'lL', 'gl', 'Lls'])
        # a feed phase that the multi_stream lacks fails inside MultiStream.copy_like (DESIGN section 5 #22, property C13)
        feed_phase = 'l' if ms else rng.choice(['l', 'l', 'g', 'L'])
        c = {'fn': 'lle', 'feed': feed, 'feed_phase': feed_phase, 'L': L, 'l': l,
             'top_chemical': rng.choice([None, None, 'A_', 'Water']), 'eff': fl(eff), 'ms': ms,
             'top0': maybe_empty(rng), 'bot0': maybe_empty(rng)}
        eq_extras(rng, c, feed, L)
        c['alias'] = rng.choice([None, None, None, 'top', 'bottom'])      # one outlet IS the feed object
        c['share'] = rng.choice(['same', 'link'])                       # ... or a Stream linked to it (shared flow vector)
        return c
    raise RuntimeError('gen_lle')

def gen_vle(rng):
    feed = flows(rng, nz=rng.randint(1, N))
    g, l = gen_eq_rows(rng, feed)
    c = {'fn': 'vle', 'feed': feed, 'feed_phase': rng.choice(['l', 'g']), 'g': g, 'l': l,
         'ms': rng.choice([None, 'lg', 'lg']), 'top0': maybe_empty(rng), 'bot0': maybe_empty(rng),
         'spec': rng.choice([{'V': 0.5, 'P': 101325.}, {'T': 320., 'P': 101325.}, {'P': 101325., 'Q': 0.}])}
    eq_extras(rng, c, feed, g)
    c['alias'] = rng.choice([None, None, 'top', 'bottom'])      # one outlet IS the feed object
    c['share'] = rng.choice(['same', 'link'])
    return c

MS_HOLDERS = ['lg', 'lg', 'lg', 'lgs', 'Llg', 'Lgls']
FEED_PHASES = ['l', 'g', 'L', 's']
FEED_MULTI = ['lL', 'lg', 'Lg', 'ls', 'Ls', 'gs', 'Llg', 'lgs', 'Lgs', 'Lgls']
def gen_vle_hist(rng):
    """two to four vle(...) calls handed the same multi_stream; feeds are Streams of any phase or MultiStreams of any
    phase set (rows may be empty), so the holder's phases grow between calls"""
    holder = rng.choice(MS_HOLDERS)
    ms0 = {p: (flows(rng) if rng.random() < 0.5 else [0.] * N) for p in holder} if rng.random() < 0.5 else None
    calls = []
    for _ in range(rng.randint(2, 4)):
        if rng.random() < 0.45:
            feed = {'phase': rng.choice(FEED_PHASES), 'v': flows(rng, nz=rng.randint(1, N))}
            total = feed['v']
        else:
            phases = rng.choice(FEED_MULTI)
            rows = {p: (flows(rng, nz=rng.randint(1, 3)) if rng.random() < 0.55 else [0.] * N) for p in phases}
            feed = {'phases': phases, 'rows': rows}
            total = [fl(sum(F(rows[p][i]) for p in phases)) for i in range(N)]
        call = {'feed': feed, 'total': total}
        if rng.random() < 0.6:
            call['split'] = [fl(rng.choice(SPLITS)) for _ in range(N)]
        else:
            call['g'], call['l'] = gen_eq_rows(rng, total)
        calls.append(call)
    return {'fn': 'vle_hist', 'holder': holder, 'ms0': ms0, 'calls': calls}

def gen_phase_split(rng):
    r = rng.random()
    if r < 0.15:
        phases = rng.choice(['l', 'g'])
        rows = [flows(rng)]
        multi = False
    else:
        phases = ''.join(sorted(rng.sample('glsL', rng.randint(2, 4))))
        rows = [flows(rng) if rng.random() < 0.85 else [0.] * N for _ in phases]
        multi = True
    hist = []
    final = phases
    if multi and rng.random() < 0.7:
        # history of the feed object before the split: per-phase views taken, an earlier split, flows rewritten, phases changed
        cur = {p: list(r) for p, r in zip(phases, rows)}
        # half of the histories follow the life of a reused flowsheet stream: views are taken (or a split is run),
        # then the phase set changes, then new flows are written; the rest is random
        script = []
        if rng.random() < 0.5:
            script = [rng.choice(['view', 'split']), 'phases', 'set'] + ([rng.choice(['view', 'set', 'phases'])] if rng.random() < 0.4 else [])
            if rng.random() < 0.3:
                script.insert(0, rng.choice(['set', 'view']))
        watched = None
        for step in range(len(script) if script else rng.randint(1, 5)):
            kind = script[step] if script else rng.choice(['view', 'view', 'split', 'set', 'set', 'phases', 'phases', 'phases'])
            if kind == 'view':
                watched = rng.choice(sorted(cur))
                hist.append(['view', watched])
            elif kind == 'split':
                hist.append(['split'])
            elif kind == 'set':
                p = watched if (watched in cur and rng.random() < 0.7) else rng.choice(sorted(cur))
                v = flows(rng) if rng.random() < 0.85 else [0.] * N
                cur[p] = v; hist.append(['set', p, v])
            else:
                absent = [p for p in 'Lgls' if p not in cur]
                r2 = rng.random()
                if absent and (r2 < 0.5 or len(cur) == 2):
                    new = dict(cur); new[rng.choice(absent)] = [0.] * N            # add a phase
                elif len(cur) > 2:
                    drop = rng.choice([p for p in sorted(cur) if p != watched] or sorted(cur))
                    new = {p: v for p, v in cur.items() if p != drop}
                    if any(cur[drop]):
                        other = {'l': 'L', 'L': 'l'}.get(drop)
                        if other in new:
                            new[other] = [fl(F(a) + F(b)) for a, b in zip(new[other], cur[drop])]
                        elif rng.random() < 0.8:
                            continue                                            # would raise UndefinedPhase; mostly avoided
                        else:
                            hist.append(['phases', ''.join(sorted(new))]); break
                else:
                    continue
                cur = new; hist.append(['phases', ''.join(sorted(cur))])
        final = ''.join(sorted(cur))
    nout = len(final) if rng.random() < 0.8 else rng.choice([1, 2, 3, 4, 5])
    c = {'fn': 'phase_split', 'phases': phases, 'rows': rows, 'multi': multi, 'hist': hist,
         'outs0': [maybe_empty(rng) for _ in range(nout)]}
    if multi and rng.random() < 0.5:
        # outlets defined on other property packages; the rows of the feed were entered chemical by chemical; two phases
        # often hold the same chemicals
        if len(rows) > 1 and rng.random() < 0.6:
            rows[1] = [fl(F(x) * rng.choice([F(2), F(1, 2), F(3)])) for x in rows[0]]
        c['out_pkgs'] = [rng.choice([None, 'sup', 'perm', 'perm']) for _ in range(nout)]
        c['row_orders'] = [shuffled_names(rng, r) if rng.random() < 0.8 else None for r in rows]
    return c

def gen_splits(rng):
    a = flows(rng)
    mode = rng.choice(['b', 'b', 'mixed', 'mixed', 'none', 'bad'])
    c = {'fn': 'splits', 'a': a, 'b': None, 'mixed': None}
    if mode == 'b':
        c['b'] = flows(rng) if rng.random() < 0.8 else [0.] * N
    elif mode == 'mixed':
        extra = flows(rng)
        c['mixed'] = [fl(F(x) + F(y)) for x, y in zip(a, extra)]
    elif mode == 'bad':     # mixed does not contain a
        c['mixed'] = flows(rng)
    return c

def det(M):
    n = len(M)
    M = [[F(x) for x in r] for r in M]
    d = F(1)
    for i in range(n):
        p = next((r for r in range(i, n) if M[r][i] != 0), None)
        if p is None:
            return F(0)
        if p != i:
            M[i], M[p] = M[p], M[i]; d = -d
        d *= M[i][i]
        for r in range(i + 1, n):
            f = M[r][i] / M[i][i]
            M[r] = [a - f * b for a, b in zip(M[r], M[i])]
    return d

def gen_balance(rng):
    for _ in range(200):
        k = rng.choice([1, 2, 2, 3, 3])
        ids = rng.sample(range(N), k)
        vin = [flows(rng, nz=rng.randint(1, 4)) for _ in range(k)]
        for j, s in enumerate(vin):
            if rng.random() < 0.8:
                s[ids[j]] = fl(rng.choice([F(4), F(8), F(2), F(16)]))
        A = [[vin[j][i] for j in range(k)] for i in ids]
        d = det(A)
        want_singular = rng.random() < 0.06
        if (d == 0) != want_singular:
            continue
        cin = [flows(rng) for _ in range(rng.choice([0, 1, 1, 2]))]
        cout = [flows(rng) for _ in range(rng.choice([1, 1, 2, 2, 0] if rng.random() < 0.3 else [1, 2]))]
        if d != 0 and cout:
            # exact solution by Cramer's rule; ill-conditioned systems (huge factors) are left out: the solver's
            # own rounding would exceed the comparison tolerance
            b = [sum(F(s_[i]) for s_ in cout) - sum(F(s_[i]) for s_ in cin) for i in ids]
            xs = [det([[b[r_] if c_ == j else A[r_][c_] for c_ in range(k)] for r_ in range(k)]) / d for j in range(k)]
            if max(abs(x) for x in xs) > 4096:
                continue
        c = {'fn': 'balance', 'ids': ids, 'vin': vin, 'cin': cin, 'cout': cout,
             'is_exact': rng.random() < 0.7, 'balance': 'flow', 'singular': d == 0}
        r = rng.random()
        if r < 0.04:
            c['vin'] = []
        elif r < 0.08:
            c['balance'] = 'total'
        return c
    raise RuntimeError('gen_balance')

def comp_sim(ids, vin, cin, cout, maxit=30):
    """float replay of the while loop of material_balance(balance='composition'); number of passes, or None when it does
    not settle within maxit passes, leaves the finite numbers, or a stop test is too close to its threshold"""
    try:
        with np.errstate(all='raise'):
            A_ = np.array(vin, float).T; A = A_[ids, :]
            mol_out = np.sum(np.array(cout, float), 0); Fo = mol_out.sum()
            f = (mol_out / Fo if Fo else mol_out)[ids]
            g_ = np.sum(np.array(cin, float), 0); O = g_.sum() * f - g_[ids]
            xg = np.ones(len(ids)); shifted = False
            for it in range(maxit):
                x = np.linalg.solve(A, (A_ * xg).sum() * f + O)
                if (x < 0).any():
                    x = x - x[x < 0].min(); shifted = True
                den = xg.copy(); den[den == 0] = 1.
                m = float((((x - xg) / den) ** 2).sum())
                if not np.isfinite(m) or abs(m - 1e-6) < 1e-8 or np.abs(x).max() > 1e6:
                    return None
                xg = x
                if m <= 1e-6:
                    return it + 1, shifted
    except (FloatingPointError, np.linalg.LinAlgError, ValueError):
        return None
    return None

def gen_balance_comp(rng):
    """material_balance(balance='composition'): the outlets usually have the composition that some positive scaling x*
    of the variable inlets gives (a feasible target), sometimes an arbitrary one"""
    for _ in range(400):
        k = rng.choice([1, 2, 2, 3])
        ids = rng.sample(range(N), k)
        vin = []
        for j in range(k):
            v = [0.] * N
            v[ids[j]] = fl(rng.choice([F(1), F(2), F(4), F(8)]))
            for i in ids:
                if i != ids[j] and rng.random() < 0.3:
                    v[i] = fl(rng.choice([F(1, 4), F(1, 2), F(1)]))
            if rng.random() < 0.25:
                v[rng.choice([i for i in range(N) if i not in ids])] = fl(rng.choice([F(1, 4), F(1, 2)]))
            vin.append(v)
        if det([[vin[j][i] for j in range(k)] for i in ids]) == 0:
            continue
        cin = [flows(rng, nz=rng.randint(1, 4)) for _ in range(rng.choice([1, 1, 2]))]
        xs = [rng.choice([F(1, 2), F(1), F(2), F(3), F(4), F(8)]) for _ in range(k)]
        mixed = [sum(x * F(v[i]) for x, v in zip(xs, vin)) + sum(F(c_[i]) for c_ in cin) for i in range(N)]
        sc = rng.choice([F(1), F(2), F(1, 2), F(4)])
        if rng.random() < 0.75:
            a = rng.choice(SPLITS[2:])
            cout = [[fl(m * sc * a) for m in mixed], [fl(m * sc * (1 - a)) for m in mixed]] if rng.random() < 0.5 else [[fl(m * sc) for m in mixed]]
        else:
            cout = [flows(rng) for _ in range(rng.choice([1, 2]))]
        c = {'fn': 'balance_comp', 'ids': ids, 'vin': vin, 'cin': cin, 'cout': cout, 'is_exact': rng.random() < 0.7}
        r = rng.random()
        if r < 0.04: c['vin'] = []
        elif r < 0.08: c['cin'] = []
        elif r < 0.12: c['cout'] = []
        else:
            sim = comp_sim(ids, vin, cin, cout)
            if sim is None:
                continue
        return c
    raise RuntimeError('gen_balance_comp')

KBIN = [F(2) ** k for k in range(-6, 7)] + [F(1), F(1) + F(1, 2 ** 20), F(1) - F(1, 2 ** 20), F(1) + F(1, 2 ** 40),
                                            F(1) - F(1, 2 ** 40), F(3, 2), F(3, 4)]

def gen_binary(rng):
    """equilibrium.binary_phase_fraction.phase_fraction for two components without forced chemicals"""
    z1 = rng.choice([F(1, 2), F(1, 4), F(3, 4), F(1, 8), F(1), F(0), F(5, 8), F(2)])
    z2 = 1 - z1 if rng.random() < 0.7 else rng.choice([F(1, 2), F(1, 4), F(0), F(3), F(1)])
    if rng.random() < 0.05:
        z1, z2 = F(0), F(0)
    if rng.random() < 0.4:
        return {'fn': 'binary', 'z': [fl(z1), fl(z2)], 'K': [fl(rng.choice(KBIN)), fl(rng.choice(KBIN))], 'za': 0., 'zb': 0.}
    for _ in range(200):       # the general entry: 1-3 chemicals, forced fractions, K on one or both sides of 1
        n = rng.choice([1, 2, 3, 3])
        za = rng.choice([F(0), F(0), F(1, 8), F(1, 4)]); zb = rng.choice([F(0), F(0), F(1, 8), F(1, 16)])
        w = [rng.choice([F(1), F(2), F(3), F(1, 2)]) for _ in range(n)]
        z = [x * (1 - za - zb) / sum(w) for x in w]
        side = rng.choice([0, 0, 1, -1])
        K = [F(2) ** (rng.randint(-8, 8) if side == 0 else side * rng.randint(0, 8)) for _ in range(n)]
        c = {'fn': 'binary', 'z': [fl(x) for x in z], 'K': [fl(k) for k in K], 'za': fl(za), 'zb': fl(zb)}
        st = rr_stage(c['z'], c['K'], c['za'], c['zb'])
        if st is not None and not (st == 'closed' and n != 2 and min(K) < ONE_MINUS and max(K) > ONE_PLUS and rng.random() < 0.7):
            return c
    raise RuntimeError('gen_binary')

def gen_rr(rng):
    """phase_fraction_objective_function, the residual handed to the root finder"""
    n = rng.randint(1, 4)
    za = rng.choice([F(0), F(0), F(1, 8), F(1, 4)])
    zb = rng.choice([F(0), F(0), F(1, 8), F(1, 16)])
    w = [rng.choice([F(1), F(2), F(3), F(1, 2)]) for _ in range(n)]
    z = [x * (1 - za - zb) / sum(w) for x in w]
    return {'fn': 'rr', 'z': [fl(x) for x in z], 'K': [fl(F(2) ** rng.randint(-10, 10)) for _ in range(n)],
            'za': fl(za), 'zb': fl(zb), 'phi': fl(rng.choice(PHIS))}

def gen_vle_real(rng):
    """separations.vle on database chemicals (Water / Ethanol) with the REAL flash, including x / y specifications
    close to the feed composition (the lever rule's tolerance band)"""
    fw, fe = fl(rng.choice([F(10), F(20), F(40), F(5)])), fl(rng.choice([F(10), F(20), F(30)]))
    z = fw / (fw + fe)
    kind = rng.choice(['y', 'y', 'x', 'x', 'V'])
    if kind == 'V':
        spec = {'V': fl(rng.choice([F(1, 4), F(1, 2), F(3, 4)])), 'P': 101325.}
    else:
        d = rng.choice([1e-6, 1e-6, -1e-6, 5e-7, -5e-7, 2e-7])
        spec = {kind: [z + d, 1 - z - d], 'P': 101325.}
    return {'fn': 'vle_real', 'flows': [fw, fe], 'spec': spec, 'ms': rng.random() < 0.5}

GLOBAL_IDS = IDS + ['X_']          # global identity of a chemical = its position here

def gen_mix_hist(rng):
    """a history of mix_and_split calls on the same outlet objects; inlets on the receiving package or on others, their
    flows entered one by one in a chosen order (the iteration order of the sparse dict, which keys the receiver's
    index cache); several inlets carry the same set of chemicals in different orders"""
    calls = []
    base = rng.sample(range(N), rng.randint(2, 4))          # the chemicals that recur
    for _ in range(rng.randint(1, 3)):
        ins = []
        for _ in range(rng.randint(1, 3)):
            pkg = rng.choice([None, 'sup', 'perm', 'perm', 'sub', 'sub'])
            names = PKGS[pkg] if pkg else IDS
            chems = [IDS[i] for i in (base if rng.random() < 0.7 else rng.sample(range(N), rng.randint(1, 4)))]
            chems = [c_ for c_ in chems if c_ in names]
            if rng.random() < 0.05 and 'X_' in names:
                chems.append('X_')                           # malformed: a chemical the receiver's package lacks
            if rng.random() < 0.08:
                chems = []
            rng.shuffle(chems)
            ins.append({'pkg': pkg, 'entries': [[c_, fl(rng.choice(FLOWS[2:]))] for c_ in chems]})
        split = fl(rng.choice(SPLITS)) if rng.random() < 0.4 else [fl(rng.choice(SPLITS)) for _ in range(N)]
        calls.append({'ins': ins, 'split': split})
    return {'fn': 'mix_hist', 'calls': calls, 'top0': maybe_empty(rng), 'bot0': maybe_empty(rng)}

GENS = [('mix_hist', gen_mix_hist, 10), ('binary', gen_binary, 4), ('rr', gen_rr, 4), ('clip', gen_clip, 6), ('mix_split', gen_mix_split, 8), ('moisture', gen_moisture, 12),
        ('mix_moisture', gen_mix_moisture, 4),
        ('partition', gen_partition, 16), ('partition_real', lambda r: gen_partition(r, real=True), 8),
        ('phase_fraction', lambda r: gen_partition(r, real=r.random() < 0.4, fn='phase_fraction'), 4),
        ('lle', gen_lle, 10), ('vle', gen_vle, 5), ('vle_hist', gen_vle_hist, 9), ('phase_split', gen_phase_split, 5),
        ('splits', gen_splits, 6), ('balance', gen_balance, 8), ('balance_comp', gen_balance_comp, 8)]

def gen_cases(rng, tier):
    n = 330 if tier == 'quick' else 4000
    names = [g[0] for g in GENS]
    weights = [g[2] for g in GENS]
    fns = {g[0]: g[1] for g in GENS}
    cases = []
    for _ in range(2 if tier == 'quick' else 12):      # real flashes are slow: a fixed small number
        cases.append(gen_vle_real(rng))
    for g in GENS:                      # every helper at least a few times
        for _ in range(3):
            cases.append(g[1](rng))
    while len(cases) < n:
        name = rng.choices(names, weights)[0]
        cases.append(fns[name](rng))
    return cases

# ------------------------------------------------------------------ implementation side
def mkstream(v, phase='l', pkg=None):
    tmo = env()['tmo']
    s = tmo.Stream(None, phase=phase, thermo=env()['pkgs'][pkg] if pkg else None)
    s.mol[:] = np.array(v, float)
    return s

def mkmulti(phases, rows):
    tmo = env()['tmo']
    ms = tmo.MultiStream(None, phases=phases)
    for p, r in zip(phases, rows):
        ms.imol[p] = np.array(r, float)
    return ms

def entered(v, order, phase='l', pkg=None):
    """a Stream holding the flows v (main package's order) whose non-zero flows were entered one by one in the
    given order of chemical names (None: by one array assignment)"""
    if order is None:
        return mkstream(to_pkg(v, pkg), phase, pkg=pkg)
    s = mkstream([0.] * (len(PKGS[pkg]) if pkg else N), phase, pkg=pkg)
    for name in order:
        s.imol[name] = v[IDS.index(name)]
    return s

def from_pkg(v, pkg):
    """flows of a stream of another package in the main package's order, and the total of chemicals the main one lacks"""
    if not pkg:
        return list(v), 0.
    names = PKGS[pkg]
    return [v[names.index(n_)] if n_ in names else 0. for n_ in IDS], sum(abs(x) for n_, x in zip(names, v) if n_ not in IDS)

def shuffled_names(rng, v):
    names = [IDS[i] for i in range(N) if v[i]]
    rng.shuffle(names)
    return names

def to_pkg(v, pkg):
    """flows given in the main package's order, in the order of another package (extra chemicals: 0)"""
    if not pkg:
        return v
    out = [0.] * len(PKGS[pkg])
    for i, j in enumerate(pkg_pos(pkg)):
        out[j] = v[i]
    return out

def rows4(s):
    """rows of the four phase codes L, g, l, s (absent phases: zero rows) and the phase string"""
    tmo = env()['tmo']
    if isinstance(s, tmo.MultiStream) and not hasattr(s._imol, '_phases'):
        # an outlet whose class was switched to MultiStream by a failed Stream.phases assignment: still single-phase data
        ph = str(s._imol._phase._phase) if hasattr(s._imol._phase, '_phase') else str(s._imol._phase)
        a = [float(x) for x in np.asarray(s._imol.data.to_array(), float)]
        return [a if p == ph else [0.] * N for p in 'Lgls'], ph
    if isinstance(s, tmo.MultiStream):
        ph = [str(p) for p in s.phases]
        return [row(s, p) if p in ph else [0.] * N for p in 'Lgls'], ''.join(ph)
    return [arr(s) if p == str(s.phase) else [0.] * N for p in 'Lgls'], str(s.phase)

def arr(s):
    return [float(x) for x in np.asarray(s.mol.to_array(), float)]

def row(ms, p):
    return [float(x) for x in np.asarray(ms.imol[p], float)]

def errname(ex):
    return type(ex).__name__

class Catch:
    """run a call, record exception class and infeasibility warnings"""
    def __init__(self):
        self.err = None
        self.warns = 0
        self.value = None
    def run(self, f):
        with warnings.catch_warnings(record=True) as w:
            warnings.simplefilter('always')
            try:
                self.value = f()
            except Exception as ex:
                self.err = errname(ex)
                self.msg = str(ex)[:200]
        self.warns = sum(1 for x in w if issubclass(x.category, RuntimeWarning) and 'negative flow' in str(x.message))
        return self

def build_moist(kind, data):
    if kind == 'S':
        return mkstream(data[0])
    return mkmulti('lg', [data[0], data[1]])

def read_moist(s):
    tmo = env()['tmo']
    if isinstance(s, tmo.MultiStream):
        liq = row(s, 'l')
        tot = arr(s)
        return [liq, [float(F(a) - F(b)) for a, b in zip(tot, liq)] if len(s.phases) > 2 else row(s, 'g')]
    a = arr(s)
    return [a, [0.] * len(a)]

class PhiRecorder:
    def __init__(self, phi):
        self.phi = phi
        self.calls = []
    def __enter__(self):
        S = env()['tmo'].separations
        self.S = S
        self.real = S.compute_phase_fraction
        def rec(z, K, guess=None, za=0., zb=0.):
            r = self.real(z, K, guess, za, zb) if self.phi is None else self.phi
            self.calls.append([[float(x) for x in z], float(za), float(zb), float(r)])
            return r
        S.compute_phase_fraction = rec
        return self
    def __exit__(self, *a):
        self.S.compute_phase_fraction = self.real

class RRRecorder:
    """records, for every call of solve_phase_fraction_Rashford_Rice, whether the numeric root finder
    (flx.find_bracket / flx.IQ_interpolation) was reached and what the call returned"""
    def __enter__(self):
        import types
        bpf = env()['tmo'].equilibrium.binary_phase_fraction
        self.bpf, self.real_rr, self.real_flx = bpf, bpf.solve_phase_fraction_Rashford_Rice, bpf.flx
        self.calls = []
        state = {'numeric': False}
        def find_bracket(*a, **k):
            state['numeric'] = True
            return self.real_flx.find_bracket(*a, **k)
        def IQ(*a, **k):
            state['numeric'] = True
            return self.real_flx.IQ_interpolation(*a, **k)
        def rr(zs, Ks, guess, za=0, zb=0):
            state['numeric'] = False
            r = self.real_rr(zs, Ks, guess, za, zb)
            self.calls.append({'numeric': state['numeric'], 'ret': float(r)})
            return r
        bpf.flx = types.SimpleNamespace(find_bracket=find_bracket, IQ_interpolation=IQ)
        bpf.solve_phase_fraction_Rashford_Rice = rr
        return self
    def __exit__(self, *a):
        self.bpf.flx = self.real_flx
        self.bpf.solve_phase_fraction_Rashford_Rice = self.real_rr

class EqStub:
    """replace the equilibrium call of every stream by a table-driven split"""
    def __init__(self, cls, rows):
        self.cls, self.rows = cls, rows
    def __enter__(self):
        eq = env()['tmo'].equilibrium
        self.klass = getattr(eq, self.cls)
        self.real = self.klass.__call__
        rows = self.rows
        seen = self.seen = []
        def call(obj, *a, **k):
            data = np.asarray(obj._imol.data.to_array(), float)
            seen.append([list(map(str, obj._imol.phases)), data.tolist()])
            if callable(rows):
                first, second, pa, pb = rows(data.sum(0))
                for p in obj._imol.phases:
                    obj._imol[p] = 0.
                obj._imol[pa] = first; obj._imol[pb] = second
                return
            for p, r in rows.items():
                obj._imol[p] = np.array(r, float)
        self.klass.__call__ = call
        return self
    def __exit__(self, *a):
        self.klass.__call__ = self.real

class SolveRecorder:
    def __enter__(self):
        self.calls = []
        self.real_solve, self.real_lstsq = np.linalg.solve, np.linalg.lstsq
        def solve(A, b):
            self.calls.append(['solve', np.asarray(A, float).tolist(), np.asarray(b, float).tolist()])
            x = self.real_solve(A, b)
            self.calls[-1].append(np.asarray(x, float).tolist())
            return x
        def lstsq(A, b, rcond=None):
            self.calls.append(['lstsq', np.asarray(A, float).tolist(), np.asarray(b, float).tolist()])
            r = self.real_lstsq(A, b, rcond=rcond)
            self.calls[-1].append(np.asarray(r[0], float).tolist())
            return r
        np.linalg.solve, np.linalg.lstsq = solve, lstsq
        return self
    def __exit__(self, *a):
        np.linalg.solve, np.linalg.lstsq = self.real_solve, self.real_lstsq

class RawVLEStub(EqStub):
    """table-driven flash that reads and writes the rows of the working stream directly (by position in the phase tuple),
    as the solver's own arrays do, not through the key index of the indexer"""
    def __init__(self, spec):
        self.cls, self.spec = 'VLE', spec
    def __enter__(self):
        eq = env()['tmo'].equilibrium
        self.klass = getattr(eq, self.cls)
        self.real = self.klass.__call__
        seen = self.seen = []
        spec = self.spec
        def call(obj, *a, **k):
            imol = obj._imol
            phases = [str(p) for p in imol._phases]
            data = np.asarray(imol.data.to_array(), float)
            seen.append([phases, data.tolist()])
            rows = imol.data.rows
            if 'split' in spec[0]:
                total = data.sum(0)
                g = np.array(spec[0]['split'], float) * total
                l = total - g
                for r in rows: r[:] = 0.
            else:
                g, l = np.array(spec[0]['g'], float), np.array(spec[0]['l'], float)
            rows[phases.index('g')][:] = g
            rows[phases.index('l')][:] = l
        self.klass.__call__ = call
        return self

def eq_table(case, pa, pb):
    """what the stubbed equilibrium call does"""
    if case.get('eq_mode') == 'rel':
        s_ = np.array(case['split'], float)
        return lambda total: (s_ * total, total - s_ * total, pa, pb)
    return {pa: case[pa], pb: case[pb]}

def shared_with(feed, case):
    """the outlet of an in-place call: the feed object itself, or a fresh Stream linked with it (link_with: same flow
    vector, thermal condition and phase)"""
    if case.get('share') == 'link':
        s = mkstream([0.] * N)
        s.link_with(feed)
        return s
    return feed

def build_ms(case):
    tmo = env()['tmo']
    if not case['ms']:
        return None
    ms = tmo.MultiStream(None, phases=case['ms'])
    for p, r in (case.get('ms0') or {}).items():
        ms.imol[p] = np.array(r, float)
    return ms

def call_partition(case, feed, top, bot):
    S = env()['tmo'].separations
    ids = tuple(IDS[i] for i in case['ids'])
    topc = tuple(IDS[i] for i in case['topc']) or None
    botc = tuple(IDS[i] for i in case['botc']) or None
    K = np.array(case['K'], float)
    if case['fn'] == 'partition':
        return S.partition(feed, top, bot, ids, K, None, topc, botc, case['strict'])
    return S.phase_fraction(feed, ids, K, None, topc, botc, case['strict'])

def run_impl(case):
    e = env(); tmo = e['tmo']; S = tmo.separations
    fn = case['fn']
    if fn == 'clip':
        mol = np.array(case['mol'], float); mx = np.array(case['max'], float)
        c = Catch().run(lambda: S.handle_infeasible_flow_rates(mol, mx, case['strict']))
        return {'arr': mol.tolist(), 'err': c.err, 'warns': c.warns, 'max_after': mx.tolist()}
    if fn == 'mix_split' and case.get('top_phases'):
        orders = case.get('in_orders') or [None] * len(case['ins'])
        ins = [entered(v, o_, ph, pk) for v, o_, ph, pk in zip(case['ins'], orders, case['in_phases'], case['in_pkgs'])]
        top = mkmulti(case['top_phases'], [case['top0'][p] for p in case['top_phases']])
        bot = mkstream(case['bot0'])
        split = case['split'] if isinstance(case['split'], float) else np.array(case['split'], float)
        c = Catch().run(lambda: S.mix_and_split(ins, top, bot, split))
        tr, tp = rows4(top); br, bp = rows4(bot)
        return {'top': tr, 'bot': br, 'top_phases': tp, 'bot_phases': bp, 'err': c.err,
                'ins_kept': [arr(s_) for s_ in ins] == [to_pkg(v, pk) for v, pk in zip(case['ins'], case['in_pkgs'])]}
    if fn == 'mix_split':
        ins = [mkstream(v) for v in case['ins']]
        top = ins[0] if case['alias'] == 'top' else mkstream(case['top0'])
        bot = ins[-1] if case['alias'] == 'bottom' else mkstream(case['bot0'], pkg=case.get('pkg'))
        split = case['split'] if isinstance(case['split'], float) else np.array(case['split'], float)
        c = Catch().run(lambda: S.mix_and_split(ins, top, bot, split))
        others = [arr(s) for s in ins if s is not top and s is not bot]
        return {'top': arr(top), 'bot': arr(bot), 'err': c.err,
                'ins_kept': others == [v for v, s in zip(case['ins'], ins) if s is not top and s is not bot]}
    if fn == 'moisture':
        R = build_moist(case['kinds'][0], case['R']); P = build_moist(case['kinds'][1], case['P'])
        partners = []
        apply_link_hist(R, case.get('prepR') or [], partners); apply_link_hist(P, case.get('prepP') or [], partners)
        c = Catch().run(lambda: S.adjust_moisture_content(R, P, case['mc'], case['ID'], case['strict']))
        return {'R': read_moist(R), 'P': read_moist(P), 'err': c.err}
    if fn == 'mix_moisture':
        ins = [mkstream(v) for v in case['ins']]
        R = mkstream(case.get('top0', [0.] * N)); P = mkstream(case.get('bot0', [0.] * N), pkg=case.get('pkg'))
        partners = []
        apply_link_hist(R, case.get('prepR') or [], partners); apply_link_hist(P, case.get('prepP') or [], partners)
        c = Catch().run(lambda: S.mix_and_split_with_moisture_content(ins, R, P, np.array(case['split'], float),
                                                                      case['mc'], case['ID'], case['strict']))
        return {'R': read_moist(R), 'P': read_moist(P), 'err': c.err}
    if fn in ('partition', 'phase_fraction'):
        feed = mkstream(case['feed'])
        top = mkstream(case.get('top0', [0.] * N)); bot = mkstream(case.get('bot0', [0.] * N))
        if case.get('alias') == 'top': top = shared_with(feed, case)
        if case.get('alias') == 'bottom': bot = shared_with(feed, case)
        with PhiRecorder(case['phi']) as rec, RRRecorder() as rr:
            c = Catch().run(lambda: call_partition(case, feed, top, bot))
        return {'top': arr(top), 'bot': arr(bot), 'feed_after': arr(feed), 'err': c.err, 'warns': c.warns,
                'phi': None if c.value is None else float(c.value), 'calls': rec.calls, 'rr': rr.calls}
    if fn == 'lle':
        feed = mkstream(case['feed'], case['feed_phase'])
        top = mkstream(case['top0']); bot = mkstream(case['bot0'])
        if case.get('alias') == 'top': top = shared_with(feed, case)
        if case.get('alias') == 'bottom': bot = shared_with(feed, case)
        ms = build_ms(case)
        with EqStub('LLE', eq_table(case, 'L', 'l')) as st:
            c = Catch().run(lambda: S.lle(feed, top, bot, case['top_chemical'], case['eff'], ms))
        out = {'top': arr(top), 'bot': arr(bot), 'err': c.err, 'feed_after': arr(feed), 'seen': st.seen}
        if ms is not None and c.err is None:
            out['ms'] = [row(ms, 'L'), row(ms, 'l')]
            out['ms_total'] = arr(ms)
        return out
    if fn == 'vle':
        feed = mkstream(case['feed'], case['feed_phase'])
        top = mkstream(case['top0']); bot = mkstream(case['bot0'])
        if case.get('alias') == 'top': top = shared_with(feed, case)
        if case.get('alias') == 'bottom': bot = shared_with(feed, case)
        ms = build_ms(case)
        with EqStub('VLE', eq_table(case, 'g', 'l')) as st:
            c = Catch().run(lambda: S.vle(feed, top, bot, multi_stream=ms, **case['spec']))
        return {'top': arr(top), 'bot': arr(bot), 'err': c.err, 'feed_after': arr(feed), 'seen': st.seen,
                'phases': [str(top.phase), str(bot.phase)]}
    if fn == 'vle_hist':
        tmo = env()['tmo']
        ms = tmo.MultiStream(None, phases=case['holder'])
        for p, r in (case.get('ms0') or {}).items():
            ms.imol[p] = np.array(r, float)
        res = []
        for call in case['calls']:
            f = call['feed']
            if 'phase' in f:
                feed = mkstream(f['v'], f['phase'])
            else:
                feed = mkmulti(f['phases'], [f['rows'][p] for p in f['phases']])
            top = mkstream([0.] * N); bot = mkstream([0.] * N)
            spec = [call]
            with RawVLEStub(spec) as st:
                c = Catch().run(lambda: S.vle(feed, top, bot, multi_stream=ms, V=0.5, P=101325.))
            res.append({'top': arr(top), 'bot': arr(bot), 'err': c.err, 'seen': st.seen[0] if st.seen else None,
                        'feed_after': arr(feed), 'phases': [str(top.phase), str(bot.phase)],
                        'holder': [str(p) for p in ms.phases]})
        return {'calls': res, 'err': None}
    if fn == 'phase_split':
        feed = mkmulti(case['phases'], case['rows']) if case['multi'] else mkstream(case['rows'][0], case['phases'])
        for p, r, o_ in zip(case['phases'], case['rows'], case.get('row_orders') or []):
            if o_ is not None:          # enter the flows of this phase one by one
                feed.imol[p] = 0.
                for name in o_:
                    feed.imol[p, name] = r[IDS.index(name)]
        out_pkgs = case.get('out_pkgs') or [None] * len(case['outs0'])
        order = [str(p) for p in feed.phases]
        rows_in_order = [row(feed, p) for p in order] if case['multi'] else [arr(feed)]
        held = []
        for op in case.get('hist', []):
            def do(op=op):
                if op[0] == 'view': held.append(feed[op[1]])
                elif op[0] == 'set': feed.imol[op[1]] = np.array(op[2], float)
                elif op[0] == 'phases': feed.phases = op[1]
                else: S.phase_split(feed, [mkstream([0.] * N) for _ in feed.phases])
            c = Catch().run(do)
            if c.err:
                return {'order': order, 'rows': rows_in_order, 'outs': case['outs0'], 'err': c.err, 'hist_err': True,
                        'out_phases': []}
        order = [str(p) for p in feed.phases]
        rows_in_order = [row(feed, p) for p in order] if case['multi'] else [arr(feed)]     # read through feed.imol
        outs = [mkstream(to_pkg(v, pk), pkg=pk) for v, pk in zip(case['outs0'], out_pkgs)]
        c = Catch().run(lambda: S.phase_split(feed, outs))
        back = [from_pkg(arr(o), pk) for o, pk in zip(outs, out_pkgs)]          # by chemical, in the main package's order
        return {'order': order, 'rows': rows_in_order, 'outs': [b_[0] for b_ in back], 'err': c.err,
                'extra': sum(b_[1] for b_ in back), 'out_phases': [str(o.phase) for o in outs]}
    if fn == 'splits':
        a = mkstream(case['a'])
        b = mkstream(case['b']) if case['b'] is not None else None
        m = mkstream(case['mixed']) if case['mixed'] is not None else None
        c = Catch().run(lambda: S.chemical_splits(a, b, m))
        val = None if c.err else [float(x) for x in np.asarray(c.value.data.to_array(), float)]
        return {'val': val, 'err': c.err, 'heur': e['heur'], 'a_after': arr(a)}
    if fn == 'balance':
        vin = [mkstream(v) for v in case['vin']]
        cin = [mkstream(v) for v in case['cin']]
        cout = [mkstream(v) for v in case['cout']]
        ids = tuple(IDS[i] for i in case['ids'])
        with SolveRecorder() as rec:
            c = Catch().run(lambda: S.material_balance(ids, vin, cin, cout, case['is_exact'], case['balance']))
        return {'vin': [arr(s) for s in vin], 'err': c.err, 'calls': rec.calls,
                'const_kept': [arr(s) for s in cin + cout] == case['cin'] + case['cout']}
    if fn == 'balance_comp':
        vin = [mkstream(v) for v in case['vin']]
        cin = [mkstream(v) for v in case['cin']]
        cout = [mkstream(v) for v in case['cout']]
        ids = tuple(IDS[i] for i in case['ids'])
        with SolveRecorder() as rec:
            c = Catch().run(lambda: S.material_balance(ids, vin, cin, cout, case['is_exact'], 'composition'))
        return {'vin': [arr(s) for s in vin], 'err': c.err, 'calls': rec.calls,
                'const_kept': [arr(s) for s in cin + cout] == case['cin'] + case['cout']}
    if fn == 'mix_hist':
        for th in [e['thermo']] + list(e['pkgs'].values()):
            th.chemicals._index_cache.clear()             # the cache is state: every case starts from an empty one
        top = mkstream(case['top0']); bot = mkstream(case['bot0'])
        res_calls = []
        for call in case['calls']:
            ins = []
            for inl in call['ins']:
                s_ = tmo.Stream(None, thermo=e['pkgs'][inl['pkg']] if inl['pkg'] else None)
                for name, val in inl['entries']:
                    s_.imol[name] = val                      # entered one by one: fixes the insertion order
                ins.append(s_)
            snap = [[arr(s_), [int(k) for k in s_.mol.nonzero_keys()]] for s_ in ins]
            split = call['split'] if isinstance(call['split'], float) else np.array(call['split'], float)
            c = Catch().run(lambda: S.mix_and_split(ins, top, bot, split))
            res_calls.append({'ins': snap, 'top': arr(top), 'bot': arr(bot), 'err': c.err,
                              'ins_kept': [arr(s_) for s_ in ins] == [x[0] for x in snap]})
        return {'calls': res_calls, 'err': None}
    if fn == 'vle_real':
        th = we_thermo()
        feed = tmo.Stream(None, thermo=th); feed.mol[:] = np.array(case['flows'], float)
        vap = tmo.Stream(None, thermo=th); liq = tmo.Stream(None, thermo=th)
        ms = tmo.MultiStream(None, phases='gl', thermo=th)          # always given: it shows what the flash produced
        spec = {k: (np.array(v, float) if isinstance(v, list) else v) for k, v in case['spec'].items()}
        c = Catch().run(lambda: S.vle(feed, vap, liq, multi_stream=ms, **spec))
        f2 = lambda s_: [float(x) for x in np.asarray(s_.mol.to_array(), float)]
        return {'top': f2(vap), 'bot': f2(liq), 'err': c.err, 'feed_after': f2(feed),
                'g': [float(x) for x in np.asarray(ms.imol['g'], float)], 'l': [float(x) for x in np.asarray(ms.imol['l'], float)]}
    if fn == 'binary':
        bpf = tmo.equilibrium.binary_phase_fraction
        with RRRecorder() as rr:
            c = Catch().run(lambda: bpf.phase_fraction(np.array(case['z'], float), np.array(case['K'], float), None,
                                                       case['za'], case['zb']))
        return {'val': None if c.err else float(c.value), 'err': c.err, 'rr': rr.calls}
    if fn == 'rr':
        bpf = tmo.equilibrium.binary_phase_fraction
        z = np.array(case['z'], float); K = np.array(case['K'], float)
        c = Catch().run(lambda: bpf.phase_fraction_objective_function(case['phi'], -z * (K - 1.), K - 1., case['za'], case['zb']))
        return {'val': None if c.err else float(c.value), 'err': c.err}
    raise ValueError(fn)

# ------------------------------------------------------------------ model side
def cerr(name):
    return ERR.get(name, 'EOther')

def coerr(name):
    return 'None' if name is None else f'(Some {cerr(name)})'

def idx(xs):
    return clist(xs, cnat)

def cstrict(s):
    return 'None' if s is None else f'(Some {cbool(s)})'

def cstrm(d):
    return f'(mkS {qlist(d[0])} {qlist(d[1])})'

def cvopt(v):
    return 'None' if v is None else f'(Some {qlist(v)})'

def split_vec(s):
    return [s] * N if isinstance(s, float) else s

def moisture_args(case):
    w = 0 if case['ID'] is None else IDS.index(case['ID'])
    return f'{cnat(w)} {q(case["mc"])} {cbool(case["ID"] is not None)} {q(MWC)} {cstrict(case["strict"])}'

def root_of(rr):
    """the oracle value: what the numeric stage returned; a sentinel the model must never use otherwise"""
    return q(rr[0]['ret']) if rr and rr[0]['numeric'] else '(-7)'

def eq_term(case, first):
    if case.get('eq_mode') == 'rel':
        return f'(eq_rel {cnat(N)} {qlist(case["split"])})'
    return f'(eq_abs {qlist(case[first])} {qlist(case["l"])})'

def ms_model(case, out, feed_phase):
    """rows the working stream held before (in the phase order the equilibrium call saw), index of the feed's phase,
    and the comparison of what the equilibrium call saw with the model's rows"""
    if not out['seen']:
        return '[]', 0, 'false'
    phases, rows = out['seen'][0]
    ms0 = [(case.get('ms0') or {}).get(p, [0.] * N) for p in phases]
    k = phases.index(feed_phase)
    seen_ok = (f'vlist_approxb (ms_after_copy {clist(ms0, qlist)} {cnat(k)} {qlist(case["feed"])}) {clist(rows, qlist)}')
    return clist(ms0, qlist), k, seen_ok

PHCODE = {'L': 0, 'g': 1, 'l': 2, 's': 3}
def present_list(phases):
    return clist([p in phases for p in 'Lgls'], cbool)

def mop_term(op):
    if op[0] == 'view': return f'(MView {cnat(PHCODE[op[1]])})'
    if op[0] == 'set': return f'(MSet {cnat(PHCODE[op[1]])} {qlist(op[2])})'
    if op[0] == 'phases': return f'(MPhases {present_list(op[1])})'
    return 'MSplit'

def coq_case(case, out):
    fn = case['fn']
    if fn == 'clip':
        return (f'(clip_eqb (handle_infeasible {qlist(case["mol"])} {qlist(case["max"])} {cbool(case["strict"])}) '
                f'{qlist(out["arr"])} {coerr(out["err"])} {cnat(out["warns"])} && {cbool(out["max_after"] == case["max"])})')
    if fn == 'mix_split' and case.get('top_phases'):
        inl = clist([f'({cnat(PHCODE[ph])}, {qlist(v)})' for ph, v in zip(case['in_phases'], case['ins'])])
        return (f'(xsplit_eqb (mix_and_split_multi {cnat(N)} {present_list(case["top_phases"])} {inl} '
                f'{qlist(split_vec(case["split"]))}) {present_list(out["top_phases"])} {clist(out["top"], qlist)} '
                f'{clist(out["bot"], qlist)} && {cbool(out["err"] is None and out["ins_kept"] and out["bot_phases"] == out["top_phases"])})')
    if fn == 'mix_split' and case.get('pkg'):
        pos = clist(pkg_pos(case['pkg']), lambda x: copt(x, cnat))
        return (f'(osplit_eqb (mix_and_split_other {cnat(N)} {clist(case["ins"], qlist)} {qlist(split_vec(case["split"]))} '
                f'{cnat(len(PKGS[case["pkg"]]))} {pos}) {qlist(out["top"])} {qlist(out["bot"])} {coerr(out["err"])} '
                f'&& {cbool(out["ins_kept"])})')
    if fn == 'mix_split':
        return (f'(pair_approxb (mix_and_split {cnat(N)} {clist(case["ins"], qlist)} {qlist(split_vec(case["split"]))}) '
                f'{qlist(out["top"])} {qlist(out["bot"])} && {cbool(out["err"] is None and out["ins_kept"])})')
    if fn == 'moisture':
        return (f'(omres_eqb (adjust_moisture_hist {qlist(MWS)} {cstrm(case["R"])} {cstrm(case["P"])} '
                f'{lops_term(case.get("prepR") or [])} {lops_term(case.get("prepP") or [])} {moisture_args(case)}) '
                f'{qlist(out["R"][0])} {qlist(out["R"][1])} {qlist(out["P"][0])} {qlist(out["P"][1])} {coerr(out["err"])})')
    if fn == 'mix_moisture' and case.get('pkg'):
        pos = clist(pkg_pos(case['pkg']), lambda x: copt(x, cnat))
        return (f'(mres_eqb (mix_and_split_with_moisture_other {cnat(N)} {qlist(MWS)} {clist(case["ins"], qlist)} '
                f'{qlist(case["split"])} {cnat(len(PKGS[case["pkg"]]))} {pos} {moisture_args(case)}) '
                f'{qlist(out["R"][0])} {qlist(out["R"][1])} {qlist(out["P"][0])} {qlist(out["P"][1])} {coerr(out["err"])})')
    if fn == 'mix_moisture':
        return (f'(omres_eqb (mix_and_split_with_moisture_hist {cnat(N)} {qlist(MWS)} {clist(case["ins"], qlist)} '
                f'{qlist(case["split"])} {lops_term(case.get("prepR") or [])} {lops_term(case.get("prepP") or [])} '
                f'{moisture_args(case)}) '
                f'{qlist(out["R"][0])} {qlist(out["R"][1])} {qlist(out["P"][0])} {qlist(out["P"][1])} {coerr(out["err"])})')
    if fn in ('partition', 'phase_fraction'):
        calls = out['calls']
        if len(calls) > 1:
            raise ValueError('solver called more than once')
        phi_oracle = calls[0][3] if calls else 0.
        pf = f'(fun _ _ _ _ => {q(phi_oracle)})'
        if case['phi'] is None:
            # real solver: only the numeric root finder is an oracle, the in-repository wrapper is the model's
            if len(out['rr']) > 1:
                raise ValueError('Rachford-Rice wrapper called more than once')
            pf = f'(pf_real (fun _ _ _ _ => {root_of(out["rr"])}))'
        obs_args = f'(Ok ({qlist(calls[0][0])}, {q(calls[0][1])}, {q(calls[0][2])}))' if calls else '(Err EZeroDiv)'
        phi_res = f'(Err {cerr(out["err"])})' if out['err'] else f'(Ok {q(out["phi"])})'
        common = (f'{qlist(case["feed"])} {idx(case["ids"])} {qlist(case["K"])} {idx(case["topc"])} {idx(case["botc"])} '
                  f'{cbool(case["strict"])}')
        args = f'args_eqb (pf_args {qlist(case["feed"])} {idx(case["ids"])} {idx(case["topc"])} {idx(case["botc"])}) {obs_args}'
        feed_kept = cbool(out['feed_after'] == case['feed'])
        if fn == 'partition' and case.get('alias'):
            # the outlet that is the feed shows the feed's final content; nothing else to compare on the feed
            return (f'(pres_eqb (partition_alias {pf} {cbool(case["alias"] == "bottom")} {qlist(case["feed"])} '
                    f'{qlist(case["o0"])} {idx(case["ids"])} {qlist(case["K"])} {idx(case["topc"])} {idx(case["botc"])} '
                    f'{cbool(case["strict"])}) {qlist(out["top"])} {qlist(out["bot"])} {phi_res} {cnat(out["warns"])} '
                    f'&& {args})')
        if fn == 'partition':
            return (f'(pres_eqb (partition {pf} {qlist(case["feed"])} {qlist(case["top0"])} '
                    f'{qlist(case["bot0"])} {idx(case["ids"])} {qlist(case["K"])} {idx(case["topc"])} {idx(case["botc"])} '
                    f'{cbool(case["strict"])}) {qlist(out["top"])} {qlist(out["bot"])} {phi_res} {cnat(out["warns"])} '
                    f'&& {args} && {feed_kept})')
        untouched = cbool(out['top'] == [0.] * N and out['bot'] == [0.] * N)
        return (f'(respf_eqb (phase_fraction {pf} {common}) {phi_res} {cnat(out["warns"])} '
                f'&& {args} && {feed_kept} && {untouched})')
    if fn == 'lle':
        extra = 0 if not case['ms'] else len(set(case['ms']) - set('lL'))
        ms_ok = 'ms' not in out or out['ms'] == [case['L'], case['l']]
        ms0, k, seen_ok = ms_model(case, out, 'L' if case['feed_phase'] == 'L' else 'l')
        if 'ms_total' in out and case.get('eq_mode') == 'rel':
            ms_ok = ms_ok and out['ms_total'] == case['feed']      # the caller's multi_stream holds the feed, nothing else
        if case.get('alias'):
            o0 = case['bot0'] if case['alias'] == 'top' else case['top0']
            return (f'(eqres_eqb (lle_ms_alias (rho_stub {qlist(MWS)} {qlist([F(m) / F(r) for m, r in zip(MWS, RHOS)])}) '
                    f'{eq_term(case, "L")} {cnat(extra)} {ms0} {cnat(k)} {cbool(case["alias"] == "bottom")} {qlist(case["feed"])} '
                    f'{qlist(o0)} {cbool(case["top_chemical"] is not None)} {q(case["eff"])}) '
                    f'{qlist(out["top"])} {qlist(out["bot"])} {coerr(out["err"])} && {seen_ok} && {cbool(ms_ok)})')
        return (f'(eqres_eqb (lle_ms (rho_stub {qlist(MWS)} {qlist([F(m) / F(r) for m, r in zip(MWS, RHOS)])}) '
                f'{eq_term(case, "L")} {cnat(extra)} {ms0} {cnat(k)} {qlist(case["feed"])} '
                f'{qlist(case["top0"])} {qlist(case["bot0"])} {cbool(case["top_chemical"] is not None)} {q(case["eff"])}) '
                f'{qlist(out["top"])} {qlist(out["bot"])} {coerr(out["err"])} '
                f'&& {seen_ok} && {cbool(ms_ok and out["feed_after"] == case["feed"])})')
    if fn == 'vle':
        ms0, k, seen_ok = ms_model(case, out, case['feed_phase'])
        return (f'(pair_approxb (vle_ms {eq_term(case, "g")} {ms0} {cnat(k)} {qlist(case["feed"])}) '
                f'{qlist(out["top"])} {qlist(out["bot"])} && {seen_ok} '
                f'&& {cbool(out["err"] is None and out["phases"] == ["g", "l"] and (bool(case.get("alias")) or out["feed_after"] == case["feed"]))})')
    if fn == 'vle_hist':
        rows4 = [(case.get('ms0') or {}).get(p, [0.] * N) for p in 'Lgls']
        calls, exps, ok = [], [], True
        for call, o in zip(case['calls'], out['calls']):
            f = call['feed']
            if 'phase' in f:
                ft = f'(FStream {cnat(PHCODE[f["phase"]])} {qlist(f["v"])})'
            else:
                ft = (f'(FMulti {present_list(f["phases"])} '
                      f'{clist([f["rows"].get(p, [0.] * N) for p in "Lgls"], qlist)})')
            if 'split' in call:
                calls.append(f'(mkVC {ft} (eq_rel {cnat(N)} {qlist(call["split"])}) false)')
            else:
                calls.append(f'(mkVC {ft} (eq_abs {qlist(call["g"])} {qlist(call["l"])}) true)')
            seen = clist(o['seen'][1], qlist) if o['seen'] else '[]'
            if o['err']:
                exps.append(f'(Err {cerr(o["err"])}, {seen})')
            else:
                exps.append(f'(Ok ({qlist(o["top"])}, {qlist(o["bot"])}), {seen})')
                ok = ok and o['phases'] == ['g', 'l'] and o['seen'] is not None and o['seen'][0] == o['holder'] \
                    and o['feed_after'] == call['total']
        return (f'(vhist_eqb (vle_hist {cnat(N)} (vinit {present_list(case["holder"])} {clist(rows4, qlist)} []) '
                f'{clist(calls, lambda x: x)}) {clist(exps, lambda x: x)} && {cbool(ok)})')
    if fn == 'phase_split':
        exp = f'(Err {cerr(out["err"])})' if out['err'] else f'(Ok {clist(out["outs"], qlist)})'
        ok = True
        if out['err'] is None:
            ok = out['out_phases'] == out['order'] and not out.get('extra')     # each phase in its own outlet, labelled
        else:
            ok = out['outs'] == case['outs0']               # nothing written
        if case['multi']:
            rows4 = [dict(zip(case['phases'], case['rows'])).get(p, [0.] * N) for p in 'Lgls']
            expp = (f'(Err {cerr(out["err"])})' if out['err'] else
                    f'(Ok ({clist(out["outs"], qlist)}, {clist(out["rows"], qlist)}))')
            return (f'(pairvl_approxb (phase_split_hist {cnat(N)} {present_list(case["phases"])} {clist(rows4, qlist)} '
                    f'{clist(case.get("hist", []), mop_term)} {clist(case["outs0"], qlist)}) {expp} && {cbool(ok)})')
        return (f'(resvl_approxb (phase_split {clist(out["rows"], qlist)} {clist(case["outs0"], qlist)}) {exp} '
                f'&& {cbool(ok and sorted(out["order"]) == sorted(case["phases"]))})')
    if fn == 'splits':
        exp = f'(Err {cerr(out["err"])})' if out['err'] else f'(Ok {qlist(out["val"])})'
        return (f'(resv_approxb (chemical_splits {cbool(out["heur"])} {qlist(case["a"])} {cvopt(case["b"])} '
                f'{cvopt(case["mixed"])}) {exp} && {cbool(out["a_after"] == case["a"])})')
    if fn == 'mix_hist':
        gid = lambda pkg: clist([GLOBAL_IDS.index(n_) for n_ in (PKGS[pkg] if pkg else IDS)], cnat)
        calls = []
        for call, oc in zip(case['calls'], out['calls']):
            fins = [f'(mkFI {"None" if inl["pkg"] is None else "(Some " + gid(inl["pkg"]) + ")"} {qlist(flows_)} {idx(order)})'
                    for inl, (flows_, order) in zip(call['ins'], oc['ins'])]
            calls.append(f'({clist(fins)}, {qlist(split_vec(call["split"]))})')
        exp = clist([f'({qlist(oc["top"])}, {qlist(oc["bot"])}, {coerr(oc["err"])})' for oc in out['calls']])
        kept = all(oc['ins_kept'] for oc in out['calls'])
        return (f'(list_eqb call_eqb (run_calls {cnat(N)} {gid(None)} (mkPK {qlist(case["top0"])} {qlist(case["bot0"])} []) '
                f'{clist(calls)}) {exp} && {cbool(kept)})')
    if fn == 'vle_real':
        if out['err']:
            return cbool(out['err'] == 'InfeasibleRegion' and out['feed_after'] == case['flows'])
        # the wrapper hands the rows of the flash through; the flash itself must honour its contract
        return (f'(pair_approxb (vle_ms (eq_abs {qlist(out["g"])} {qlist(out["l"])}) [[0; 0]; [0; 0]] 1%nat {qlist(case["flows"])}) '
                f'{qlist(out["top"])} {qlist(out["bot"])} '
                f'&& eq_contract_okb {qlist(case["flows"])} {qlist(out["g"])} {qlist(out["l"])} '
                f'&& {cbool(out["feed_after"] == case["flows"])})')
    if fn == 'binary':
        exp = f'(Err {cerr(out["err"])})' if out['err'] else f'(Ok {q(out["val"])})'
        return (f'(resq_approxb (binary_phase_fraction {root_of(out["rr"])} {qlist(case["z"])} {qlist(case["K"])} '
                f'{q(case["za"])} {q(case["zb"])}) {exp})')
    if fn == 'rr':
        return (f'(qapproxb (rr_objective {q(case["phi"])} {qlist(case["z"])} {qlist(case["K"])} {q(case["za"])} '
                f'{q(case["zb"])}) {q(out["val"])} && {cbool(out["err"] is None)})')
    if fn == 'balance_comp':
        calls = out['calls']
        table = clist([f'(Ok {qlist(c_[3])})' if len(c_) == 4 else f'(Err {cerr(out["err"])})' for c_ in calls])
        solve = f'(fun (k : nat) (_ : list vec) (_ : vec) => nth k {table} (Err EOther))'
        m = (f'(material_balance_comp {solve} {cnat(N)} {idx(case["ids"])} {clist(case["vin"], qlist)} '
             f'{clist(case["cin"], qlist)} {clist(case["cout"], qlist)} {cnat(len(calls) + 1)})')
        if out['err']:
            t = f'(comp_err_eqb {m} {cerr(out["err"])} && {cbool(out["vin"] == case["vin"])}'
        else:
            t = f'(comp_res_eqb {m} {clist(out["vin"], qlist)} {clist([c_[2] for c_ in calls], qlist)}'
            A = f'(mb_matrix {idx(case["ids"])} {clist(case["vin"], qlist)})'
            for c_ in calls:          # what the solver was given and its contract A x = b, every pass
                t += f' && vlist_approxb {A} {clist(c_[1], qlist)} && vapproxb (matvec {A} {qlist(c_[3])}) {qlist(c_[2])}'
        return t + f' && {cbool(out["const_kept"])})'
    if fn == 'balance':
        calls = out['calls']
        if len(calls) > 1:
            raise ValueError('solver called more than once')
        if calls and len(calls[0]) == 4:
            solve = f'(fun _ _ => Ok {qlist(calls[0][3])})'
        elif calls:
            solve = f'(fun _ _ => Err {cerr(out["err"])})'       # the solver itself raised
        else:
            solve = '(fun _ _ => Err EOther)'
        exp = f'(Err {cerr(out["err"])})' if out['err'] else f'(Ok {clist(out["vin"], qlist)})'
        t = (f'(resvl_approxb (material_balance {solve} {cnat(N)} {idx(case["ids"])} {clist(case["vin"], qlist)} '
             f'{clist(case["cin"], qlist)} {clist(case["cout"], qlist)} {cbool(case["balance"] == "flow")}) {exp}')
        if calls:
            A = f'(mb_matrix {idx(case["ids"])} {clist(case["vin"], qlist)})'
            b = f'(mb_rhs {cnat(N)} {idx(case["ids"])} {clist(case["cin"], qlist)} {clist(case["cout"], qlist)})'
            t += f' && vlist_approxb {A} {clist(calls[0][1], qlist)} && vapproxb {b} {qlist(calls[0][2])}'
            if len(calls[0]) == 4 and not case['singular']:
                t += f' && vapproxb (matvec {A} {qlist(calls[0][3])}) {b}'       # contract of the solver
        if out['err']:
            t += f' && {cbool(out["vin"] == case["vin"])}'
        return t + f' && {cbool(out["const_kept"])})'
    raise ValueError(fn)

def coq_show(case, out):
    fn = case['fn']
    if fn == 'moisture':
        return f'(adjust_moisture {qlist(MWS)} {cstrm(case["R"])} {cstrm(case["P"])} {moisture_args(case)})'
    if fn == 'partition':
        phi = out['calls'][0][3] if out.get('calls') else 0.
        return (f'(partition (fun _ _ _ _ => {q(phi)}) {qlist(case["feed"])} {qlist(case["top0"])} '
                f'{qlist(case["bot0"])} {idx(case["ids"])} {qlist(case["K"])} {idx(case["topc"])} {idx(case["botc"])} '
                f'{cbool(case["strict"])}, pf_args {qlist(case["feed"])} {idx(case["ids"])} {idx(case["topc"])} {idx(case["botc"])})')
    return coq_case(case, out)

def nontrivial(case, out):
    fn = case['fn']
    if out.get('err'):
        return out['err'] == 'InfeasibleRegion'
    if fn in ('clip', 'binary', 'rr', 'vle_real'):
        return True
    if fn in ('mix_hist', 'vle_hist'):
        return any(any(oc['top']) or any(oc['bot']) for oc in out['calls'])
    if fn == 'mix_split' and case.get('top_phases'):
        return any(any(r) for r in out['top'] + out['bot'])
    if fn in ('mix_split', 'partition', 'lle', 'vle'):
        return any(out['top']) or any(out['bot'])
    if fn in ('moisture', 'mix_moisture'):
        return out['R'] != case.get('R') or fn == 'mix_moisture'
    if fn == 'phase_fraction':
        return out['phi'] is not None
    if fn == 'phase_split':
        return any(any(r) for r in out['outs'])
    if fn == 'splits':
        return any(out['val'])
    if fn in ('balance', 'balance_comp'):
        return out['vin'] != case['vin']
    return False

def classify(case, out):
    fn = case['fn']
    ks = ['fn:' + fn, 'outcome:' + (out.get('err') or 'ok')]
    if fn == 'mix_hist':
        ks.append(f'calls:{len(case["calls"])}')
        seen_sets = {}
        for call in case['calls']:
            for inl in call['ins']:
                if inl['pkg'] and inl['entries']:
                    names = tuple(n_ for n_, _ in inl['entries'])
                    prev = seen_sets.setdefault(frozenset(names), names)
                    if prev != names:
                        ks.append('same-chemicals-other-order')
        for oc in out.get('calls', []):
            ks.append('call:' + (oc['err'] or 'ok'))
        return ks
    if fn == 'vle_real':
        ks.append('spec:' + '+'.join(sorted(case['spec'])))
    if fn in ('partition', 'phase_fraction'):
        ks.append('solver:' + ('real' if case['phi'] is None else 'table'))
        if case['phi'] is None:
            ks.append('rr_stage:' + str(partition_stage(case)))
        ks.append(f'n_ids:{len(case["ids"])}')
        if case['topc'] or case['botc']:
            ks.append('forced:' + ('top' if case['topc'] else '') + ('bottom' if case['botc'] else ''))
        if case['malformed']:
            ks.append('malformed:' + case['malformed'])
        if out.get('warns'):
            ks.append('clipped')
        if out.get('phi') is not None:
            ks.append('phi:' + ('0' if out['phi'] <= 0 else '1' if out['phi'] >= 1 else 'interior'))
    if fn == 'mix_moisture' and (case.get('prepR') or case.get('prepP')):
        ks.append('link-history:' + '+'.join(sorted(set((case.get('prepR') or []) + (case.get('prepP') or [])))))
    if fn == 'moisture':
        ks.append('kinds:' + case['kinds'])
        ks.append('strict:' + str(case['strict']))
        ks.append('ID:' + str(case['ID']))
        if case.get('prepR') or case.get('prepP'):
            ks.append('link-history:' + '+'.join(sorted(set((case.get('prepR') or []) + (case.get('prepP') or [])))))
    if fn == 'vle_hist':
        grown = any(sorted(oc['holder']) != sorted(case['holder']) for oc in out['calls'])
        ks.append('holder:' + ('phases-grew' if grown else 'phases-kept'))
        if any(oc['holder'] and oc['holder'][0] == 'L' and 'L' not in case['holder'] for oc in out['calls']):
            ks.append('holder:rows-shifted')
        ks.append('feeds:' + '+'.join(sorted({'stream' if 'phase' in c_['feed'] else 'multi' for c_ in case['calls']})))
    if fn in ('lle', 'vle'):
        ks.append('eq_stub:' + case.get('eq_mode', 'abs'))
        if case.get('ms0'):
            ks.append('multi_stream:reused')
    if fn == 'phase_split' and any(case.get('out_pkgs') or []):
        ks.append('outlets:other-package')
    if fn == 'phase_split' and case.get('hist'):
        ks.append('history:' + '+'.join(sorted({o[0] for o in case['hist']})))
    if fn == 'lle':
        ks.append('ms:' + str(case['ms']))
        ks.append('eff<1' if case['eff'] < 1 else 'eff>=1')
    if fn in ('balance', 'balance_comp'):
        ks.append('is_exact:' + str(case['is_exact']))
    if fn == 'balance_comp' and not out.get('err'):
        ks.append(f'passes:{min(len(out["calls"]), 9)}')
        if any(min(c_[3]) < 0 for c_ in out['calls'] if len(c_) == 4):
            ks.append('shifted-to-feasible')
    if fn in ('partition', 'lle', 'vle') and case.get('alias'):
        ks.append('outlet-is-feed:' + case['alias'] + (':linked' if case.get('share') == 'link' else ''))
    if fn == 'mix_split' and case['alias']:
        ks.append('alias:' + case['alias'])
    if fn == 'mix_split' and case.get('top_phases'):
        ks.append('top:MultiStream')
        for ph, pk in zip(case['in_phases'], case['in_pkgs']):
            twin = ph.swapcase() in case['top_phases'] and ph not in case['top_phases']
            ks.append('inlet:' + ('alias-phase' if twin else 'own-phase' if ph in case['top_phases'] else 'new-phase')
                      + (':other-package' if pk else ''))
    if fn in ('mix_split', 'mix_moisture') and case.get('pkg'):
        ks.append('bottom_package:' + case['pkg'] + (':reused' if any(case['bot0']) else ':fresh'))
    return ks

# ------------------------------------------------------------------ direct oracle (search step)
TOL = 1e-9

def close(a, b, tol=TOL):
    return len(a) == len(b) and all(abs(x - y) <= tol * max(1., abs(x), abs(y)) for x, y in zip(a, b))

def vadd(*vs):
    return [sum(c) for c in zip(*vs)]

def nonneg(v, tol=1e-12):
    return all(x >= -tol for x in v)

def inplace_reported(key):
    """In-place calls (an outlet IS the feed) are not named by the property text.  What the faithful model refutes for them
    is reported by the direct oracle once the finding is listed in known_findings.txt (then the witness is replayed on every
    run), and in the oracle self-test (VERIF_ORACLE_SELFTEST) so that the proposal is visible; otherwise the search step is
    not diverted to these inputs when something else broke."""
    import os
    return bool(os.environ.get('VERIF_ORACLE_SELFTEST')) or key in _listed_findings()

def oracle(case):
    """The C20 clauses evaluated directly on the implementation.  Returns a message or None."""
    e = env(); tmo = e['tmo']; S = tmo.separations
    fn = case['fn']
    if fn == 'real_eq':
        return oracle_real_eq(case)
    out = run_impl(case)
    err = out.get('err')
    if fn == 'mix_hist':
        for k, (call, oc) in enumerate(zip(case['calls'], out['calls'])):
            mixed = [0.] * N; foreign = False
            for inl in call['ins']:
                for name, val in inl['entries']:
                    if name == 'X_': foreign = True
                    else: mixed[IDS.index(name)] += val
            where = f'call {k + 1} of {len(case["calls"])} (inlet packages {[i_["pkg"] for i_ in call["ins"]]}, entry orders {[[n_ for n_, _ in i_["entries"]] for i_ in call["ins"]]})'
            if oc['err']:
                if foreign and oc['err'] == 'UndefinedChemicalAlias':
                    break          # reported: the receiver's package lacks a chemical; later calls start from that state
                return f'mix_and_split: raised {oc["err"]} in {where}'
            if foreign:
                return f'mix_and_split: a chemical the outlets cannot hold was dropped without an error in {where}'
            sp = split_vec(call['split'])
            if not close(vadd(oc['top'], oc['bot']), mixed):
                return (f'mix_and_split: per chemical {IDS}: inlets {mixed} but outlets '
                        f'{vadd(oc["top"], oc["bot"])} in {where}')
            if not close(oc['top'], [s_ * m_ for s_, m_ in zip(sp, mixed)]):
                return f'mix_and_split: top outlet {oc["top"]} is not split * mixed {mixed} in {where}'
        return None
    if fn == 'vle_hist':
        for k, (call, oc) in enumerate(zip(case['calls'], out['calls'])):
            f = call['feed']
            where = (f'call {k + 1} of {len(case["calls"])} with one multi_stream (created with phases {case["holder"]!r}); '
                     f'this feed: ' + (f'Stream of phase {f["phase"]!r}' if 'phase' in f else f'MultiStream of phases {f["phases"]!r}')
                     + f', multi_stream phases now {oc["holder"]}')
            if oc['err']:
                return f'vle-reused-multi_stream: raised {oc["err"]} in {where}'
            total = call['total']
            if 'split' in call:
                g = [s_ * t for s_, t in zip(call['split'], total)]
                l = [t - x for t, x in zip(total, g)]
            else:
                g, l = call['g'], call['l']
            if close(vadd(g, l), total) and not close(vadd(oc['top'], oc['bot']), total):
                return (f'vle-reused-multi_stream: vapour + liquid = {vadd(oc["top"], oc["bot"])} but the feed holds {total} '
                        f'(the flash wrote g = {g}, l = {l}) in {where}')
            if not (close(oc['top'], g) and close(oc['bot'], l)):
                return (f'vle-reused-multi_stream: vapour / liquid outlet {oc["top"]} / {oc["bot"]} is not the g / l row of the '
                        f'flash {g} / {l} in {where}')
            if nonneg(g) and nonneg(l) and not (nonneg(oc['top']) and nonneg(oc['bot'])):
                return f'vle-reused-multi_stream: negative outlet flow in {where}'
        return None
    if fn == 'vle_real':
        if err:
            return None if err == 'InfeasibleRegion' else f'vle (real flash, {case["spec"]}): raised {err}'
        Ft = sum(case['flows'])
        if min(out['top'] + out['bot']) < -1e-12 * Ft:
            return (f'vle (real flash, {case["spec"]}): negative flow without InfeasibleRegion: vapour {out["top"]} '
                    f'liquid {out["bot"]} for the feed {case["flows"]}')
        if not close(vadd(out['top'], out['bot']), case['flows']):
            return f'vle (real flash, {case["spec"]}): outlets {out["top"]} + {out["bot"]} differ from the feed {case["flows"]}'
        return None
    if fn == 'binary':
        if err:
            return None if sum(case['z']) == 0 else f'binary phase_fraction: raised {err}'
        phi = out['val']
        if not 0 <= phi <= 1:
            return f'binary phase_fraction: returned {phi}'
        if 0 < phi < 1 and sum(case['z']) > 0:
            res = (sum(z * (k - 1) / (1 + phi * (k - 1)) for z, k in zip(case['z'], case['K']))
                   + case['za'] / phi - case['zb'] / (1 - phi))
            if case['za'] or case['zb']:
                res *= phi * (1 - phi)
            if abs(res) > 1e-9 * max(1., max(case['K'])):
                return f'binary phase_fraction: Rachford-Rice residual {res} at the returned fraction {phi}'
        return None
    if fn == 'rr':
        if err:
            return f'rr objective: raised {err}'
        phi = case['phi']
        ref = (-sum(z * (k - 1) / (1 + phi * (k - 1)) for z, k in zip(case['z'], case['K']))
               - case['za'] / phi + case['zb'] / (1 - phi))
        if abs(ref - out['val']) > 1e-9 * max(1., abs(ref)):
            return f'rr objective: {out["val"]} instead of the Rachford-Rice residual {ref}'
        return None
    if fn == 'clip':
        if any(m < 0 for m in case['max']):
            return None
        viol = any(x < 0 for x in case['mol']) or any(max(x, 0.) > m for x, m in zip(case['mol'], case['max']))
        if case['strict']:
            if viol != (err == 'InfeasibleRegion'):
                return f'clip: strict mode raised {err} on a{"n in" if viol else " "}feasible array'
            return None
        if err:
            return f'clip: raised {err} although strict is off'
        if not all(0 <= r <= m for r, m in zip(out['arr'], case['max'])):
            return f'clip: result {out["arr"]} outside [0, {case["max"]}]'
        if (out['warns'] > 0) != viol:
            return 'clip: warning does not match infeasibility'
        return None
    if fn == 'mix_split' and case.get('top_phases'):
        if err:
            return f'mix_and_split: raised {err} (MultiStream top outlet)'
        mixed = vadd(*case['ins'])
        sp = split_vec(case['split'])
        tt, bt = vadd(*out['top']), vadd(*out['bot'])
        if not close(vadd(tt, bt), mixed):
            return (f'mix_and_split: outlets (all phases) {tt} + {bt} differ from the mixed inlets {mixed} '
                    f'(top phases {case["top_phases"]}, inlet phases {case["in_phases"]}, inlet packages {case["in_pkgs"]})')
        if not close(tt, [s_ * m_ for s_, m_ in zip(sp, mixed)]):
            return f'mix_and_split: top outlet {tt} is not split * mixed'
        if all(0 <= s_ <= 1 for s_ in sp) and not all(nonneg(r) for r in out['top'] + out['bot']):
            return 'mix_and_split: negative outlet flow'
        # every phase of an inlet is found in the outlets under its own letter or its other-case twin
        for ph, v in zip(case['in_phases'], case['ins']):
            if any(v) and not ({ph, ph.swapcase()} & set(out['top_phases'])):
                return f'mix_and_split: inlet phase {ph} has no row in the top outlet {out["top_phases"]}'
        return None
    if fn == 'mix_split' and case.get('pkg'):
        mixed = vadd(*case['ins'])
        sp = split_vec(case['split'])
        pos = pkg_pos(case['pkg'])
        lost = [IDS[i] for i in range(N) if pos[i] is None and mixed[i] * (1 - sp[i]) != 0]
        if err:
            return None if (lost and err == 'UndefinedChemicalAlias') else f'mix_and_split: raised {err} (bottom on package {case["pkg"]})'
        if lost:
            return f'mix_and_split: {lost} sent to a bottom outlet whose package lacks it, without an error'
        names = PKGS[case['pkg']]
        for j, n in enumerate(names):           # per chemical of the bottom's package
            i = IDS.index(n) if n in IDS else None
            t = out['top'][i] if i is not None else 0.
            f_ = mixed[i] if i is not None else 0.
            if abs(t + out['bot'][j] - f_) > TOL * max(1., abs(f_)):
                return (f'mix_and_split: {n}: inlets {f_} != outlets {t + out["bot"][j]} (bottom on package '
                        f'{case["pkg"]}, held {case["bot0"]} before)')
        if not close(out['top'], [s_ * m_ for s_, m_ in zip(sp, mixed)]):
            return f'mix_and_split: top outlet {out["top"]} is not split * mixed'
        return None
    if fn == 'mix_split':
        if err:
            return f'mix_and_split: raised {err}'
        if not close(vadd(out['top'], out['bot']), vadd(*case['ins'])):
            return f'mix_and_split: outlets {out["top"]} + {out["bot"]} differ from the mixed inlets {vadd(*case["ins"])}'
        sp = split_vec(case['split'])
        if all(0 <= s <= 1 for s in sp) and not (nonneg(out['top']) and nonneg(out['bot'])):
            return 'mix_and_split: negative outlet flow'
        if not close(out['top'], [s_ * m for s_, m in zip(sp, vadd(*case['ins']))]):
            return f'mix_and_split: top outlet {out["top"]} is not split * mixed'
        return None
    if fn in ('moisture', 'mix_moisture'):
        mc = case['mc']
        if not 0 < mc < 0.95:
            return None
        if fn == 'moisture':
            R0, P0 = case['R'], case['P']
            before = vadd(R0[0], R0[1], P0[0], P0[1])
            allnn = all(nonneg(v) for v in R0 + P0)
        else:
            before = vadd(*case['ins'])
            allnn = True
            if case.get('pkg'):          # bottom on the appended package: same leading indices, extras must be empty
                before = before + [0.] * (len(out['P'][0]) - N)
                out['R'] = [r + [0.] * (len(out['P'][0]) - N) for r in out['R']]
        after = vadd(out['R'][0], out['R'][1], out['P'][0], out['P'][1])
        w = 0 if case['ID'] is None else IDS.index(case['ID'])
        if err and err != 'InfeasibleRegion':
            return f'{fn}: raised {err} ({case.get("kinds", "SS")})'
        if not close(after, before):
            return (f'{fn}: retentate + permeate changed from {before} to {after} '
                    f'(kinds {case.get("kinds", "SS")}, strict {case["strict"]})')
        if err == 'InfeasibleRegion':
            if out['P'][0][w] >= 0:
                return f'{fn}: reported infeasibility although the permeate keeps {out["P"][0][w]} of the moisture chemical'
            return None
        clamped = False
        if case['strict'] is False:
            # enough moisture?  decided on the outcome: the permeate was emptied of it
            clamped = out['P'][0][w] == 0.
        if allnn and not (all(nonneg(v) for v in out['R']) and all(nonneg(v) for v in out['P'])):
            if fn == 'mix_moisture' or case['R'][1][w] == 0:
                return f'{fn}: negative flow without a report: {out["R"]} {out["P"]}'
        if not clamped:
            Rtot = vadd(out['R'][0], out['R'][1])
            mass = sum(x * m for x, m in zip(Rtot, MWS))
            # a retentate whose mass cancels to rounding noise (zero dry mass, opposite flows in two phases) has no fraction
            scale = sum(abs(x) * m for r_ in out['R'] for x, m in zip(r_, MWS))
            if mass > 1e-9 * scale and abs(Rtot[w] * MWS[w] / mass - mc) > 1e-9:
                return (f'{fn}: moisture fraction reached {Rtot[w] * MWS[w] / mass} instead of {mc} '
                        f'(kinds {case.get("kinds", "SS")})')
        return None
    if fn in ('partition', 'phase_fraction'):
        valid = (all(k > 0 for k in case['K']) and nonneg(case['feed']) and len(set(case['ids'])) == len(case['ids'])
                 and not set(case['ids']) & set(case['topc'] + case['botc']))
        if not valid:
            return None
        involved = case['ids'] + case['topc'] + case['botc']
        Ftot = sum(case['feed'][i] for i in involved)
        if err:
            if Ftot == 0 and err == 'FloatingPointError':
                return None       # nothing to partition: the division z = mol / F_mol is reported
            return f'{fn}: raised {err} on a valid input'
        if fn == 'phase_fraction':
            if not 0 <= out['phi'] <= 1:
                return f'phase_fraction: returned {out["phi"]}'
            ref = run_impl(dict(case, fn='partition', top0=[0.] * N, bot0=[0.] * N))
            if ref['err'] or abs(ref['phi'] - out['phi']) > 1e-9:
                return f'phase_fraction: returned {out["phi"]}, partition returns {ref["phi"]} ({ref["err"]})'
            return None
        feed, top, bot = case['feed'], out['top'], out['bot']
        if case.get('alias') == 'bottom':
            # in-place call, the bottom outlet IS the feed (proposed finding, C20_partition_bottom_is_feed_refuted)
            if inplace_reported('C20:partition-bottom-is-feed') and not close(vadd(top, bot), feed):
                return (f'partition-bottom-is-feed: partition(feed, top, bottom=feed) returned phi = {out["phi"]} but top + bottom = '
                        f'{vadd(top, bot)} differs from the feed {feed}: the top outlet is {top}')
            return None
        if case.get('alias') == 'top' and any(feed[i] for i in case['botc']):
            # in-place call, the top outlet IS the feed, a forced-bottom chemical carries flow (C20_partition_top_is_feed_refuted)
            if inplace_reported('C20:partition-top-is-feed') and (min(top) < 0 or not close(vadd(top, bot), feed)):
                return (f'partition-top-is-feed: partition(feed, top=feed, bottom, bottom_chemicals={[IDS[i] for i in case["botc"]]}) '
                        f'left the negative flow {min(top)} in the top outlet without a report; top + bottom = {vadd(top, bot)}, feed {feed}')
            return None
        if not close(vadd(top, bot), feed):
            return f'partition: top + bottom = {vadd(top, bot)} differs from the feed {feed}'
        # chemicals partition writes (equilibrium + forced) must come out non-negative whatever the outlets held;
        # the others only if the bottom did not hold more of them than the feed
        checked = [i for i in range(N) if i in involved or 0 <= case['bot0'][i] <= feed[i]]
        if any(top[i] < -1e-12 or bot[i] < -1e-12 for i in checked):
            return f'partition: negative flow without a report: top {top} bottom {bot} (previous bottom {case["bot0"]})'
        for i in case['topc']:
            if bot[i] != 0: return 'partition: forced top chemical found in the bottom'
        for i in case['botc']:
            if top[i] != 0: return 'partition: forced bottom chemical found in the top'
        phi = out['phi']
        if case['phi'] is None:
            # real solver: whenever both outlets hold equilibrium or forced material, every equilibrium chemical of
            # the feed must be present on both sides (finite K: y_i/x_i = K_i c with 0 < c < inf)
            T = sum(top[i] for i in involved); B = sum(bot[i] for i in involved)
            if T > 0 and B > 0:
                for i, k in zip(case['ids'], case['K']):
                    if feed[i] > 0 and not (top[i] > 0 and bot[i] > 0):
                        return (f'partition: both outlets are non-empty but {IDS[i]} (K = {k}) is only in one of them: '
                                f'(y/x)/K is not a common finite factor (phi = {phi}, top {top}, bottom {bot})')
        if 0 < phi < 1 and out['warns'] == 0:
            ratios = [top[i] / (bot[i] * k) for i, k in zip(case['ids'], case['K']) if bot[i] > 0 and top[i] > 0]
            if ratios and not all(abs(r - ratios[0]) <= 1e-7 * abs(ratios[0]) for r in ratios):
                return f'partition: (top_i/bottom_i)/K_i is not a common factor: {ratios}'
            if case['phi'] is None and ratios:
                # real solver: mole fractions over equilibrium + forced chemicals reproduce K
                T = sum(top[i] for i in involved); B = sum(bot[i] for i in involved)
                if T > 0 and B > 0 and 1e-6 < phi < 1 - 1e-6:
                    c = ratios[0] * B / T
                    if abs(c - 1) > 1e-5:
                        return f'partition: y_i/x_i = {c} K_i with the real Rachford-Rice solver (phi = {phi})'
        return None
    if fn in ('lle', 'vle'):
        a, b = (case['L'], case['l']) if fn == 'lle' else (case['g'], case['l'])
        if fn == 'lle' and case['ms'] and set(case['ms']) - set('lL'):
            return None
        if err:
            return f'{fn}: raised {err}'
        conserving = close(vadd(a, b), case['feed'])
        if fn == 'lle' and case.get('alias') and case['eff'] < 1:
            # in-place call with mixing (proposed finding, C20_lle_outlet_is_feed_refuted)
            if (inplace_reported('C20:lle-outlet-is-feed') and conserving and 0 <= case['eff']
                    and not close(vadd(out['top'], out['bot']), case['feed'])):
                return (f'lle-outlet-is-feed: lle(feed, {case["alias"]}=feed, efficiency={case["eff"]}): outlets add up to '
                        f'{vadd(out["top"], out["bot"])}, the feed was {case["feed"]} (mixing is computed from the overwritten feed)')
            return None
        if conserving and not close(vadd(out['top'], out['bot']), case['feed']):
            return f'{fn}: outlets {out["top"]} + {out["bot"]} differ from the feed {case["feed"]}'
        eff_ok = fn == 'vle' or 0 <= case['eff'] <= 1
        if eff_ok and nonneg(a) and nonneg(b) and not (nonneg(out['top']) and nonneg(out['bot'])):
            return f'{fn}: negative outlet flow'
        if fn == 'vle' and (out['top'] != a or out['bot'] != b):
            return 'vle: vapour / liquid outlet is not the g / l row of the flash'
        if fn == 'lle':
            eff = min(case['eff'], 1.)
            exp = sorted([[eff * x + (1 - eff) / 2 * f for x, f in zip(r, case['feed'])] for r in (a, b)])
            if eff >= 0 and not all(close(x, y) for x, y in zip(sorted([out['top'], out['bot']]), exp)):
                return (f'lle: outlets {out["top"]} / {out["bot"]} are not the two phases with a fraction '
                        f'{1 - eff} of the feed divided equally')
            if case['top_chemical'] is None and case['eff'] >= 1:
                rt, rb = rho_exact(out['top']), rho_exact(out['bot'])
                if rt is not None and rb is not None and rt > rb:
                    return f'lle: the denser phase ({float(rt)} kg/m3) went to the top outlet, the lighter ({float(rb)}) to the bottom'
                if rt is None and rb is not None:
                    return 'lle: the only non-empty phase went to the bottom outlet'
        return None
    if fn == 'phase_split':
        if out.get('hist_err'):
            return None           # the history itself was rejected (e.g. a non-empty phase dropped): no split took place
        if len(case['outs0']) != len(out['order']):
            return None if err == 'RuntimeError' else f'phase_split: {err} for a wrong number of outlets'
        if err:
            return f'phase_split: raised {err}'
        if out.get('extra'):
            return f'phase_split: an outlet of another package holds {out["extra"]} of a chemical the feed does not have'
        if out['outs'] != out['rows'] or out['out_phases'] != out['order']:
            hist = f' after the history {case["hist"]}' if case.get('hist') else ''
            if case.get('out_pkgs'):
                hist += f' (outlet packages {case["out_pkgs"]}, entry orders of the feed rows {case.get("row_orders")})'
            return (f'phase_split: outlets {out["outs"]} ({out["out_phases"]}) are not the phases of the feed '
                    f'{out["rows"]} ({out["order"]}){hist}')
        return None
    if fn == 'splits':
        if err:
            return None
        m = case['mixed'] if case['mixed'] is not None else vadd(case['a'], case['b'])
        for s, mi, ai in zip(out['val'], m, case['a']):
            if mi != 0 and abs(s * mi - ai) > TOL * max(1., abs(ai)):
                return f'chemical_splits: split * mixed = {s * mi} differs from the first stream {ai}'
        return None
    if fn == 'balance_comp':
        if not case['vin'] or not case['cout'] or not case['cin']:
            return None
        if err:
            return f'material_balance(composition): raised {err}'
        if any(len(c_) == 4 and min(c_[3]) < 0 for c_ in out['calls'][-1:]):
            return None           # infeasible target: the factors were shifted to be non-negative, the target is not met
        tot = vadd(*(out['vin'] + case['cin'])); Fi = sum(tot)
        mo = vadd(*case['cout']); Fo = sum(mo)
        if min(min(v) for v in out['vin']) < 0:
            return f'material_balance(composition): negative inlet flow {out["vin"]}'
        for i in case['ids']:
            if Fi > 0 and Fo > 0 and abs(tot[i] / Fi - mo[i] / Fo) > 5e-3:
                return (f'material_balance(composition): net inlet fraction of {IDS[i]} is {tot[i] / Fi}, the outlet fraction '
                        f'{mo[i] / Fo} (after {len(out["calls"])} passes)')
        for v0, v1 in zip(case['vin'], out['vin']):       # each variable inlet keeps its composition
            s0, s1 = sum(v0), sum(v1)
            if s0 and s1 and not close([x / s0 for x in v0], [x / s1 for x in v1], 1e-7):
                return 'material_balance(composition): a variable inlet changed composition'
        return None
    if fn == 'balance':
        if not case['vin'] or not case['cout'] or case['balance'] != 'flow' or case['singular']:
            return None
        if err:
            return f'material_balance(is_exact={case["is_exact"]}): raised {err} for an invertible inlet matrix'
        tot = vadd(*(out['vin'] + case['cin'] + [[-x for x in v] for v in case['cout']]))
        scale = max([1.] + [abs(x) for v in out['vin'] + case['cout'] for x in v])
        for i in case['ids']:
            if abs(tot[i]) > 1e-7 * scale:
                return f'material_balance(is_exact={case["is_exact"]}): inlets - outlets = {tot[i]} for chemical {IDS[i]}'
        for v0, v1 in zip(case['vin'], out['vin']):       # each variable inlet keeps its composition
            s0, s1 = sum(v0), sum(v1)
            if s0 and s1 and not close([x / s0 for x in v0], [x / s1 for x in v1], 1e-7):
                return 'material_balance: a variable inlet changed composition'
        return None
    return None

_db = {}
def we_thermo():
    if 'we' not in _db:
        tmo = env()['tmo']
        _db['we'] = tmo.Thermo(tmo.Chemicals(['Water', 'Ethanol'], cache=True))
    return _db['we']

# real LLE / VLE on database chemicals (search step only; no stubs)
def db_thermo():
    if not _db:
        tmo = env()['tmo']
        _db['thermo'] = tmo.Thermo(tmo.Chemicals(['Water', 'Ethanol', 'Octanol'], cache=True))
    return _db['thermo']

def oracle_real_eq(case):
    tmo = env()['tmo']; S = tmo.separations
    th = db_thermo()
    feed = tmo.Stream(None, thermo=th, **case['flows'])
    top = tmo.Stream(None, thermo=th); bot = tmo.Stream(None, thermo=th)
    if case['kind'] == 'lle':
        S.lle(feed, top, bot, top_chemical=case.get('top_chemical'), efficiency=case['eff'])
    else:
        S.vle(feed, top, bot, V=case['V'], P=101325.)
    res = np.asarray((top.mol + bot.mol - feed.mol).to_array(), float)
    scale = max(1., float(feed.F_mol))
    if np.abs(res).max() > 1e-9 * scale:
        return f'{case["kind"]} (real equilibrium): outlets - feed = {res.tolist()}'
    if min(float(top.mol.to_array().min()), float(bot.mol.to_array().min())) < 0:
        return f'{case["kind"]} (real equilibrium): negative outlet flow'
    return None

def search_cases(rng, tier):
    cases = []
    try:
        db_thermo()
    except Exception:
        return cases
    for _ in range(4 if tier == 'quick' else 20):
        fl_ = {'Water': float(rng.choice([10, 20, 40])), 'Ethanol': float(rng.choice([1, 5, 10])),
               'Octanol': float(rng.choice([10, 20, 30]))}
        if rng.random() < 0.5:
            cases.append({'fn': 'real_eq', 'kind': 'lle', 'flows': fl_, 'eff': float(rng.choice([1., 0.5, 0.875])),
                          'top_chemical': rng.choice([None, 'Octanol'])})
        else:
            cases.append({'fn': 'real_eq', 'kind': 'vle', 'flows': fl_, 'V': float(rng.choice([0.25, 0.5, 0.75]))})
    return cases

def finding_key(case, msg):
    return 'C20:' + msg.split(':')[0].split('(')[0].strip()

Z6 = [0.] * N
CORPUS = [   # minimised inputs of the defects found while building this check (pending_fixes/C20_1..5)
    {'fn': 'clip', 'mol': [-1.0], 'max': [1.0], 'strict': True},
    {'fn': 'moisture', 'kinds': 'SS', 'R': [[0.5, 2., 0., 0., 0., 0.], Z6], 'P': [[0.5, 2., 0., 0., 0., 0.], Z6],
     'ID': 'Water', 'mc': 0.5, 'strict': False},
    {'fn': 'moisture', 'kinds': 'SM', 'R': [[0.5, 2., 0., 0., 0., 0.], Z6], 'P': [[8., 1., 0., 0., 0., 0.], [1., 0., 0., 0., 0., 0.]],
     'ID': 'Water', 'mc': 0.5, 'strict': None},
    {'fn': 'moisture', 'kinds': 'MM', 'R': [[0.5, 2., 0., 0., 0., 0.], [0.25, 0., 0., 0., 0., 0.]],
     'P': [[8., 1., 0., 0., 0., 0.], Z6], 'ID': 'Water', 'mc': 0.5, 'strict': None},
    {'fn': 'partition', 'feed': [4., 2., 1., 0., 0., 0.], 'ids': [0, 1], 'K': [2., 0.5], 'topc': [], 'botc': [], 'strict': False,
     'phi': 1.0, 'malformed': None, 'top0': Z6, 'bot0': [1., 4., 0., 0., 0., 0.]},
    # reused bottom outlet on another property package that receives nothing (seeded change C20-3)
    {'fn': 'mix_split', 'ins': [[0., 10., 2., 0., 0., 0.]], 'split': 1.0, 'alias': None, 'top0': Z6,
     'bot0': [0., 7.5, 1., 0., 0., 0., 3.], 'pkg': 'sup'},
    {'fn': 'mix_split', 'ins': [[0., 10., 0., 0., 0., 0.]], 'split': [0.5, 1., 1., 0.25, 1., 1.], 'alias': None, 'top0': Z6,
     'bot0': [0., 5., 0., 0., 1., 0., 0.], 'pkg': 'perm'},
    # real flash, vapour composition specified 1e-6 above the feed's: the lever-rule fraction is clamped to 1 (defect repaired by /repo commit dd55412)
    {'fn': 'vle_real', 'flows': [20., 20.], 'spec': {'y': [0.500001, 0.499999], 'P': 101325.}, 'ms': True},
    # two inlets of another package carrying the same chemicals, entered in different orders (receiver's index cache)
    {'fn': 'mix_hist', 'top0': Z6, 'bot0': Z6, 'calls': [
        {'ins': [{'pkg': 'perm', 'entries': [['A_', 5.], ['B_', 7.], ['C_', 11.]]}], 'split': 0.5},
        {'ins': [{'pkg': 'perm', 'entries': [['C_', 1.], ['A_', 2.], ['B_', 4.]]},
                 {'pkg': 'sub', 'entries': [['B_', 8.], ['C_', 16.], ['A_', 32.]]}], 'split': [0.5, 1., 0.25, 0., 1., 1.]}]},
    # MultiStream top outlet, an inlet of another package in a phase the top only owns as its other-case twin
    {'fn': 'mix_split', 'ins': [[1., 2., 0., 0., 0., 0.], [0., 1., 4., 0., 0., 0.]], 'split': 0.5, 'alias': None, 'pkg': None,
     'top_phases': 'gl', 'in_phases': ['l', 'L'], 'in_pkgs': [None, 'perm'], 'top0': {'g': Z6, 'l': Z6}, 'bot0': Z6},
    # a feed whose per-phase view was cached before its phase set changed and new flows were written
    {'fn': 'phase_split', 'phases': 'gl', 'rows': [[1., 0., 0., 0., 0., 0.], [0., 2., 0., 0., 0., 0.]], 'multi': True,
     'hist': [['view', 'l'], ['phases', 'Lgl'], ['set', 'l', [0., 3., 1., 0., 0., 0.]]], 'outs0': [Z6, Z6, Z6]},
    # a caller-owned multi_stream that still holds the previous result, with an equilibrium that conserves what it is given
    {'fn': 'vle', 'feed': [2., 4., 0., 0., 0., 0.], 'feed_phase': 'l', 'g': [1., 1., 0., 0., 0., 0.], 'l': [1., 3., 0., 0., 0., 0.],
     'ms': 'lg', 'top0': Z6, 'bot0': Z6, 'spec': {'V': 0.5, 'P': 101325.}, 'eq_mode': 'rel', 'split': [0.5, 0.25, 0., 0., 0., 0.],
     'ms0': {'l': [1., 0., 0., 0., 0., 0.], 'g': [0., 2., 0., 8., 0., 0.]}},
    {'fn': 'balance', 'ids': [0, 1], 'vin': [[1., 1., 0., 0., 0., 0.], [0., 1., 2., 0., 0., 0.]], 'cin': [[4., 0., 0., 1., 0., 0.]],
     'cout': [[16., 8., 2., 0., 0., 0.], [0., 4., 0., 0., 1., 0.]], 'is_exact': False, 'balance': 'flow', 'singular': False},
]
# Witnesses of the `_refuted` theorems of the second deepening round (outlet IS the feed).  They are replayed on every run as
# soon as their `finding:` line is listed in known_findings.txt (read only here); until then they are proposals, so that the
# check of the unchanged repository stays silent about inputs the property text does not name (in-place calls).
# inputs the generators leave out because the unchanged repository fails on them and the failure is not modelled yet
EXCLUDED_DEFECT_INPUTS = [
    {'key': 'C20:mix_and_split-stale-liquid-bottom',
     'case': {'fn': 'mix_split', 'ins': [[8., 2., 4., 0., 4., 4.]], 'split': 0.0, 'alias': None,
              'top0': {'g': Z6, 's': Z6}, 'bot0': [0.625, 0., 2., 0., 0., 0.625], 'pkg': None, 'top_phases': 'gs',
              'in_phases': ['s'], 'in_pkgs': [None], 'in_orders': [None]}},
]

WITNESS_CANDIDATES = [
    {'key': 'C20:partition-top-is-feed',
     'case': {'fn': 'partition', 'feed': [4., 2., 1., 1., 3., 0.], 'ids': [0, 1], 'K': [2., 0.5], 'topc': [2], 'botc': [3],
              'strict': False, 'phi': 0.5, 'malformed': None, 'top0': Z6, 'bot0': Z6, 'alias': 'top', 'o0': Z6}},
    {'key': 'C20:partition-bottom-is-feed',
     'case': {'fn': 'partition', 'feed': [4., 2., 1., 1., 3., 0.], 'ids': [0, 1], 'K': [2., 0.5], 'topc': [], 'botc': [],
              'strict': False, 'phi': 0.5, 'malformed': None, 'top0': Z6, 'bot0': Z6, 'alias': 'bottom', 'o0': Z6}},
    {'key': 'C20:lle-outlet-is-feed',
     'case': {'fn': 'lle', 'feed': [2., 4., 0., 0., 0., 0.], 'feed_phase': 'l', 'L': [1., 1., 0., 0., 0., 0.], 'l': [1., 3., 0., 0., 0., 0.],
              'top_chemical': 'A_', 'eff': 0.5, 'ms': None, 'top0': Z6, 'bot0': Z6, 'eq_mode': 'abs', 'split': [0.5, 0.25, 0., 0., 0., 0.],
              'ms0': None, 'alias': 'top'}},
]

_listed_cache = []
def _listed_findings():
    import os, re
    if _listed_cache:
        return _listed_cache[0]
    path = os.path.join(os.path.dirname(os.path.dirname(os.path.abspath(__file__))), 'known_findings.txt')
    keys = set()
    if os.path.exists(path):
        for line in open(path):
            m = re.match(r'^finding:\s+property=C20\s+key=(\S+)\s', line.strip() + ' ')
            if m:
                keys.add(m.group(1))
    _listed_cache.append(keys)
    return keys

WITNESSES = [w for w in WITNESS_CANDIDATES if w['key'] in _listed_findings()]
