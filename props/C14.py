"""C14 — every derived stream property reflects the current state, never a stale one.
Correspondence harness (real tmo.Stream / tmo.MultiStream against coq/C14/Model.v), generators, direct oracle."""

import numpy as np
from fractions import Fraction as F
from vf import q, qlist, clist, cbool, cnat, frac, fr_json

ID = 'C14'
COQ_DIR = 'C14'
COQ_HEADER = 'From V Require Import Common.Num C14.Model C14.ModelPkg.\nOpen Scope Q_scope.'
MODEL_FILES = ('Model.v', 'Sprog.v', 'Gen_Solvers.v', 'ModelPkg.v')

def translate():
    """tie T: regenerate coq/C14/Gen_Solvers.v (control-flow skeletons of the four Mixture temperature solvers) from the
    current mixture.py; Props.v proves that the generated skeletons leave _free_energy_args empty on every exit"""
    import importlib.util, os
    from vf import VERIF, REPO
    spec = importlib.util.spec_from_file_location('C14_solvers', os.path.join(VERIF, 'tr', 'C14_solvers.py'))
    m = importlib.util.module_from_spec(spec)
    spec.loader.exec_module(m)
    return m.generate(REPO)
RULE = ('histories of 8-40 operations over a growing table of related stream objects (1-3 constructed Stream/MultiStream '
        'objects, then proxies, flow proxies, copies, linked streams and phase views created by the history itself): reads of '
        'H, h, S, C, Cn, V, kappa, mu, sigma, epsilon, Hvap interleaved with every public mutator (T, P, H and S assignment, phase, phases, '
        'imol[...] = v, scale, F_mol, empty, link_with with all flag combinations, unlink, copy_like, copy_flow, '
        'copy_thermal_condition, copy_phase, mix_from with and without energy balance, reset_cache, property-package '
        'reset between three packages of which two share the Chemicals object and differ only in their property functions); '
        'reads of the per-chemical volumetric flows `vol` (through indexer.by_volume and the _data_cache dict, with stub '
        'Chemical.V handles that depend on phase and T) are interleaved as well; one case in four is scripted: two streams in '
        'different phases linked with partial flag combinations and vol read on both in either order, or a stream and its '
        'copy / flow proxy / proxy / phase view diverging with the same properties read on both sides back to back, or a MultiStream with phase views reduced to one phase and made multi-phase again, or the first read after a state change raising inside the property package, or material moved between the phases of a MultiStream (directly or through its '
        'phase views) at constant T, P and bit-identical overall composition, or a switch between the two packages sharing '
        'their Chemicals, each with the same properties read before and after; the property package is a stub Mixture whose values are an affine dyadic function, with phase-dependent composition weights, of '
        '(package, name, phase, composition, T, P), so a stale value is always visible; executed on the real classes and on '
        'the Coq model; every read value (scalars and vol vectors), every raised exception class, the index of every returned object, and a final '
        'snapshot of every object (class, phases, flows, T, P, memo contents, which objects share memo dict / key / '
        'thermal condition / flow row / indexer) are compared (values to 1e-9 relative, structure exactly). '
        'a second family (one case in six) runs histories on streams of ONE stateful equation-of-state package -- the real EOSMixture '
        '(H / S / Cn, eos_args, _load_free_energy_args / _load_xfree_energy_args) and the real Mixture.solve_T_at_HP / xsolve_T_at_HP / '
        'solve_T_at_SP / xsolve_T_at_SP over a stub equation of state and ideal models valid for 64 <= T <= 2048 K: H / S specifications with '
        'feasible and infeasible values (the solver raises; Stream retries in the other fluid phase), each followed by composition-only / '
        'T-only / P-only / phase-only edits and reads on the same and on other streams of the package; the keys of _free_energy_args are '
        'compared after every operation, the outcome of every solver call (T or exception class) is recorded and given to the model; '
        'non-trivial = at least one read returned a value after a mutation; distinct = distinct case hash')
ASSUMPTIONS = ['the property-package functions are partial: they may raise (stub: kappa and mu raise RuntimeError at T = 384 K); '
               'the exception reaches the caller, which catches it and continues the history',
               'C14_vol_fresh holds on histories in which MultiStreams that link flows and T/P have the same phase tuple (run_adm); '
               'link_with does not check this and leaves _phases and data.rows of different lengths otherwise',
               'the property-package functions are deterministic functions of (phase, composition, T, P) that respect numeric '
               'equality of their arguments (calc1_ext / calcx_ext); nothing else is assumed about them',
               'float rounding is not modelled: inputs are dyadic so flows, totals and branch decisions are exact; values compared to 1e-9',
               'the temperature found by the H / S setters (directly or inside mix_from(energy_balance=True)) is an oracle value (any T)',
               'stateful packages: what the numerical part of a T solver does (returns a T or raises) is an oracle; eos_args is total '
               '(flows of the equation-of-state family are non-negative: with a zero row total it would divide by zero BEFORE the try block '
               'of the x-solvers, not examined); mix_from(energy_balance=True) and copy_like are not exercised in that family']
TRUSTED = ['stateful packages: coq/C14/ModelPkg.v hand-written from EOSMixture.H/S/Cn, _load_(x)free_energy_args and the H / S setters; the solver '
           'skeletons (load / try / finally clear) are regenerated from mixture.py on every run by tr/C14_solvers.py (fail-closed subset)',
           'the per-chemical (T, P, phase)-keyed molar-volume memo inside VolumetricFlowDict (dictionary_view.py) is C11\'s; '
           'here a volumetric view returns mol * 1000 * V_j(phase, T, P) for the phase container / phase and ThermalCondition it holds',
           'model coq/C14/Model.v is hand-written from thermosteam/_stream.py, _multi_stream.py, indexer.py, _phase.py; tie = correspondence check',
           'operations outside the modelled subset (MultiStream receivers of mix_from/copy_like, cross-package copies, proxy of a '
           'phase view, phase/phases assignment on a MultiStream proxy that has no _streams yet, phases= that drops the current phase of a Stream) are replaced by no-ops in the correspondence; the '
           'direct oracle still executes them']

SHARED = True   # the model is the repaired source (pending_fixes/C14_1): proxy shares the key cell with the memo dict

PH = {'g': 0, 'l': 1, 's': 2}
PHS = 'gls'
PROPS = {  # public property -> (name id, flow, nophase)
    'H': (0, True, False), 'h': (0, False, False), 'S': (1, True, False), 'C': (2, True, False),
    'Cn': (2, False, False), 'V': (3, False, False), 'kappa': (4, False, False), 'mu': (5, False, False),
    'sigma': (6, False, True), 'epsilon': (7, False, True), 'Hvap': (8, True, True)}
DERIVED = ['rho', 'Cp', 'nu', 'alpha', 'Pr', 'F_vol']
VECTOR = ['vol', 'z_vol']      # per-chemical volumetric flows (through indexer.by_volume and _data_cache)
NAMES = ['H', 'S', 'Cn', 'V', 'kappa', 'mu', 'sigma', 'epsilon', 'Hvap']
W = [1., .5, 2., .25, 4., .125, 8., .0625, 16.]
A = [[8., 16., 32.], [24., 40., 4.], [24., 40., 4.]]
ERR = {'AttributeError': 'EOther', 'RuntimeError': 'ERuntime', 'UndefinedPhase': 'EUndefPhase', 'ValueError': 'EValue',
       'IndexError': 'EIndex', 'KeyError': 'EKey', 'TypeError': 'EType'}
IDS = ['A_', 'B_', 'C_']

_env = {}
_FAM = ['stub']      # which property-package family the harness currently runs: 'stub' (stateless) or 'eos' (stateful)
def env():
    if _FAM[0] == 'eos':
        return env_eos()
    if _env:
        return _env
    import thermosteam as tmo
    from thermosteam.mixture.mixture import Mixture

    class StubMixture(Mixture):
        """values are an affine dyadic function of (package, name, phase, composition, T, P)"""
        __slots__ = ('MWs', 'pkg', 'include_excess_energies', '_free_energy_args')
        def __init__(self, MWs, pkg):
            self.MWs = MWs; self.pkg = pkg; self.include_excess_energies = False; self._free_energy_args = {}
        def _calc(self, name, phase, z, T, P):
            if name in (4, 5) and T == 384.:
                raise RuntimeError(f'{NAMES[name]} model is not valid at T={T} K')     # a model outside its validity range
            z = z.to_array() if hasattr(z, 'to_array') else np.asarray(z, float)
            a = A[self.pkg]
            return W[name] * (3. * (name + 1) + 7. * self.pkg + (5. * (PH[phase] + 1) if phase is not None else 0.)
                              + (1. + (PH[phase] + 1) / 2. if phase is not None else 1.) * float(a[0] * z[0] + a[1] * z[1] + a[2] * z[2])
                              + T / 64. + P / 16384.)
        def H(self, phase, mol, T, P): return self._calc(0, phase, mol, T, P)
        def S(self, phase, mol, T, P): return self._calc(1, phase, mol, T, P)
        def Cn(self, phase, mol, T, P=None): return self._calc(2, phase, mol, T, P)
        def V(self, phase, mol, T, P): return self._calc(3, phase, mol, T, P)
        def kappa(self, phase, mol, T, P): return self._calc(4, phase, mol, T, P)
        def mu(self, phase, mol, T, P): return self._calc(5, phase, mol, T, P)
        def sigma(self, mol, T, P): return self._calc(6, None, mol, T, P)
        def epsilon(self, mol, T, P): return self._calc(7, None, mol, T, P)
        def Hvap(self, mol, T, P): return self._calc(8, None, mol, T, P)
        def solve_T_at_HP(self, phase, mol, H, T_guess, P):
            return 256. + 16. * (int(round(abs(H))) % 8)
        def xsolve_T_at_HP(self, phase_mol, H, T_guess, P):
            return 256. + 16. * (int(round(abs(H))) % 8)
        def solve_T_at_SP(self, phase, mol, S, T_guess, P):
            return 264. + 16. * (int(round(abs(S))) % 8)
        def xsolve_T_at_SP(self, phase_mol, S, T_guess, P):
            return 264. + 16. * (int(round(abs(S))) % 8)

    from thermosteam.base import PhaseTPHandle
    class StubV:
        """Chemical.V of chemical j in phase q: dyadic, depends on the phase and on T"""
        def __init__(self, j, q): self.j = j; self.q = q
        def __call__(self, T, P=None): return (self.j + 1 + 4 * (self.q + 1)) / 1024. + T / 4194304.
        def copy(self): return self
    thermos = []
    for pkg in (0, 1):
        chems = tmo.Chemicals([tmo.Chemical(n, search_db=False, MW=mw, Hf=0., Cn=64., phase='l', default=True)
                               for n, mw in [('A_', 16.), ('B_', 32.), ('C_', 8.)]])
        chems.compile(skip_checks=True)
        for j, c in enumerate(chems):
            object.__setattr__(c, '_V', PhaseTPHandle('V', StubV(j, PH['s']), StubV(j, PH['l']), StubV(j, PH['g'])))
        thermos.append(tmo.Thermo(chems, mixture=StubMixture(np.array([16., 32., 8.]), pkg), skip_checks=True))
    # package 2 shares the Chemicals object of package 0 and differs only in its property functions
    thermos.append(tmo.Thermo(thermos[0].chemicals, mixture=StubMixture(np.array([16., 32., 8.]), 2), skip_checks=True))
    assert thermos[2].chemicals is thermos[0].chemicals and thermos[1].chemicals is not thermos[0].chemicals
    tmo.settings.set_thermo(thermos[0])
    _env.update(tmo=tmo, thermos=thermos)
    return _env

# ---- stateful property package: the REAL EOSMixture (H / S / Cn, eos_args, _load_(x)free_energy_args) and the REAL
# Mixture.solve_T_at_HP / xsolve_T_at_HP / solve_T_at_SP / xsolve_T_at_SP, over a stub equation of state and stub ideal models
_env_eos = {}
SOLVE_LOG = []
ERR_EOS = dict(ERR, ZeroDivisionError='EZeroDiv', OverflowError='EOther', FloatingPointError='EOther')
def env_eos():
    if _env_eos:
        return _env_eos
    import thermosteam as tmo
    from thermosteam.mixture.mixture import EOSMixture, Mixture

    class StubEOS:
        """departure terms: dyadic affine function of (property, g/l branch, T, P, zs); Tcs identify the chemicals"""
        def __init__(self, Tcs=None, Pcs=None, omegas=None, kijs=None, T=None, P=None, zs=None, only_g=False, only_l=False, fugacities=False):
            self.Tcs = list(Tcs); self.T = T; self.P = P; self.zs = list(zs)
        def to_TP_zs(self, T, P, zs, only_g=False, only_l=False, fugacities=False):
            return StubEOS(Tcs=self.Tcs, T=T, P=P, zs=zs)
        def _dep(self, name, q):
            return (name + 1.) * (2. * (q + 1) + sum(tc / 64. * z for tc, z in zip(self.Tcs, self.zs)) + self.T / 128. + self.P / 32768.)
        H_dep_g = property(lambda s: s._dep(0, 0)); H_dep_l = property(lambda s: s._dep(0, 1))
        S_dep_g = property(lambda s: s._dep(1, 0)); S_dep_l = property(lambda s: s._dep(1, 1))
        Cn_dep_g = property(lambda s: s._dep(2, 0)); Cn_dep_l = property(lambda s: s._dep(2, 1))

    class Ideal:
        """ideal-mixture stand-in: valid for 64 <= T <= 2048 K, raises RuntimeError outside (like a heat-capacity model that
        cannot be extrapolated)"""
        def __init__(self, name, phased=True): self.name = name; self.phased = phased
        def __call__(self, *args):
            if self.phased: phase, mol, T = args[:3]; P = args[3] if len(args) > 3 else None
            else: phase = None; mol, T = args[:2]; P = args[2] if len(args) > 2 else None
            if not (64. <= T <= 2048.):
                raise RuntimeError(f'Failed to extrapolate {NAMES[self.name]} model to T={T} K')
            z = mol.to_array() if hasattr(mol, 'to_array') else np.asarray(mol, float)
            return (self.name + 1.) * (3. + (5. * (PH[phase] + 1) if phase is not None else 0.)
                                       + (1. + (PH[phase] + 1) / 2. if phase is not None else 1.) * float(8. * z[0] + 16. * z[1] + 32. * z[2])
                                       + T / 4. + P / 16384.)

    Base = EOSMixture.subclass(StubEOS, 'StubEOSMixture')
    class LoggedMixture(Base):
        """the solvers are the inherited ones (Mixture.solve_T_at_HP ...); the wrappers only record what each call did"""
        pkg = 0
        def _logged(self, f, *a):
            try:
                T = f(self, *a)
            except Exception as ex:
                SOLVE_LOG.append(['err', type(ex).__name__]); raise
            SOLVE_LOG.append(['ok', fr_json(frac(T))]); return T
        def solve_T_at_HP(self, *a): return self._logged(Mixture.solve_T_at_HP, *a)
        def xsolve_T_at_HP(self, *a): return self._logged(Mixture.xsolve_T_at_HP, *a)
        def solve_T_at_SP(self, *a): return self._logged(Mixture.solve_T_at_SP, *a)
        def xsolve_T_at_SP(self, *a): return self._logged(Mixture.xsolve_T_at_SP, *a)

    from thermosteam.base import PhaseTPHandle
    class StubV:
        def __init__(self, j, q): self.j = j; self.q = q
        def __call__(self, T, P=None): return (self.j + 1 + 4 * (self.q + 1)) / 1024. + T / 4194304.
        def copy(self): return self
    chems = tmo.Chemicals([tmo.Chemical(n, search_db=False, MW=mw, Hf=0., Cn=64., phase='l', default=True, Tc=tc, Pc=1e6, omega=0.125)
                           for n, mw, tc in [('A_', 16., 128.), ('B_', 32., 256.), ('C_', 8., 512.)]])
    chems.compile(skip_checks=True)
    for j, c in enumerate(chems):
        object.__setattr__(c, '_V', PhaseTPHandle('V', StubV(j, PH['s']), StubV(j, PH['l']), StubV(j, PH['g'])))
    def make():
        mx = LoggedMixture(chems.tuple, chems.tuple, Ideal(2), Ideal(0), Ideal(1), Ideal(5), Ideal(3), Ideal(4),
                           Ideal(8, False), Ideal(6, False), Ideal(7, False), np.array([16., 32., 8.]))
        return tmo.Thermo(chems, mixture=mx, skip_checks=True)
    th = make()
    ref = make()     # an identical, independently built package: only the oracle's freshly created streams use it
    _env_eos.update(tmo=tmo, thermos=[th, th, th], reference=[ref, ref, ref])
    return _env_eos

def set_family(case):
    _FAM[0] = 'eos' if case.get('kind') == 'eos' else 'stub'
    e = env()
    e['tmo'].settings.set_thermo(e['thermos'][0])
    if _FAM[0] == 'eos':
        for t in e['thermos'] + e['reference']:
            t.mixture._free_energy_args.clear()
        del SOLVE_LOG[:]
    return e

# ------------------------------------------------------------------ generators
EOS_FLOWS = [F(0), F(0), F(1), F(1), F(2), F(3), F(1, 2), F(4), F(1, 4), F(8)]
EOS_H = [0., 1., 64., 100., 150., 200., 250., 300., 400., 600., 1000., -5., 1e7, -1e7]
EOS_READS = ['H', 'h', 'S', 'C', 'Cn', 'H', 'S', 'V', 'mu', 'sigma']

def gen_eos_new(rng):
    if rng.random() < 0.65:
        return ['new', [[float(rng.choice(EOS_FLOWS)) for _ in range(3)]], rng.choice(PHS), rng.choice(TS), rng.choice(PS), 0]
    phases = rng.choice(PHASE_SETS)
    return ['new', [[float(rng.choice(EOS_FLOWS)) for _ in range(3)] for _ in phases], phases, rng.choice(TS), rng.choice(PS), 0]

def gen_eos_case(rng):
    """histories on streams of ONE stateful (equation-of-state) package: energy specifications s.H = v / s.S = v with feasible
    and infeasible values (the solver raises; Stream retries in the other fluid phase, MultiStream does not), each followed by
    composition-only / T-only / P-only / phase-only edits and reads of H, h, S, C, Cn on the same stream and on OTHER streams
    of the package"""
    ops = [gen_eos_new(rng) for _ in range(rng.randint(1, 3))]
    for o in ops:
        o[1][0][rng.randrange(3)] = float(rng.choice([1, 2, 3]))
    for _ in range(rng.randint(2, 5)):
        i = rng.randrange(8)
        if rng.random() < 0.3:
            ops.append(['read', i, rng.choice(EOS_READS)])
        ops.append([rng.choice(['setH', 'setH', 'setS']), i, rng.choice(EOS_H)])
        for _ in range(rng.randint(2, 6)):
            r = rng.random(); j = rng.choice([i, i, rng.randrange(8)])
            if r < 0.45: ops.append(['read', j, rng.choice(EOS_READS)])
            elif r < 0.55: ops.append(['setflow', j, rng.choice(PHS), rng.randrange(3), float(rng.choice(EOS_FLOWS))])
            elif r < 0.63: ops.append(['setT', j, rng.choice(TS)])
            elif r < 0.71: ops.append(['setP', j, rng.choice(PS)])
            elif r < 0.79: ops.append(['setphase', j, rng.choice(PHS)])
            elif r < 0.84: ops.append(['scale', j, float(rng.choice([2, F(1, 2), 3]))])
            elif r < 0.88: ops.append(['copy', j])
            elif r < 0.92: ops.append(['view', j, rng.choice(PHS)])
            elif r < 0.95: ops.append(['empty', j])
            elif r < 0.97: ops.append(['reset_cache', j])
            else: ops.append(gen_eos_new(rng))
    return {'kind': 'eos', 'ops': ops}

FLOWS = [F(0), F(0), F(1), F(1), F(2), F(3), F(1, 2), F(4), F(-1), F(1, 4), F(8), F(1024), F(1, 1024), F(-2)]
KS = [F(2), F(1, 2), F(3), F(0), F(-1), F(4), F(1, 4), F(1)]
TS = [256., 300., 320., 384., 298.15]
PS = [65536., 101325., 131072., 32768.]
PHASE_SETS = ['gl', 'ls', 'gls', 'gs']
PKGS = [0, 0, 0, 0, 2, 2, 1]

def gen_new(rng):
    if rng.random() < 0.6:
        return ['new', [[float(rng.choice(FLOWS)) for _ in range(3)]], rng.choice(PHS), rng.choice(TS), rng.choice(PS), rng.choice(PKGS)]
    phases = rng.choice(PHASE_SETS)
    return ['new', [[float(rng.choice(FLOWS)) for _ in range(3)] for _ in phases], phases, rng.choice(TS), rng.choice(PS), rng.choice(PKGS)]

def gen_op(rng, derived=False):
    r = rng.random()
    i, j = rng.randrange(64), rng.randrange(64)
    if r < 0.34:
        if rng.random() < 0.15:
            return ['rvol', i]
        names = list(PROPS) + (DERIVED + VECTOR if derived else [])
        return ['read', i, rng.choice(names)]
    k = rng.choice(['setT', 'setT', 'setH', 'setS', 'setP', 'setphase', 'setflow', 'setflow', 'setflow', 'scale', 'scale', 'fmol', 'empty',
                    'proxy', 'proxy', 'flow_proxy', 'copy', 'link', 'link', 'unlink', 'copy_like', 'copy_tc', 'copy_phase',
                    'mix', 'mix', 'view', 'view', 'setphases', 'reset_cache', 'reset_thermo', 'new'])
    if k == 'setT': return [k, i, rng.choice(TS)]
    if k == 'setP': return [k, i, rng.choice(PS)]
    if k in ('setH', 'setS'): return [k, i, float(rng.choice([0, 0, 1, 3, 64, 1000, -5, F(1, 2)]))]
    if k == 'setphase': return [k, i, rng.choice(PHS)]
    if k == 'setflow': return [k, i, rng.choice(PHS), rng.randrange(3), float(rng.choice(FLOWS))]
    if k in ('scale', 'fmol'): return [k, i, float(rng.choice(KS))]
    if k in ('empty', 'proxy', 'flow_proxy', 'copy', 'unlink', 'reset_cache'): return [k, i]
    if k == 'link': return [k, i, j, rng.random() < 0.7, rng.random() < 0.7, rng.random() < 0.7]
    if k in ('copy_like', 'copy_tc', 'copy_phase'): return [k, i, j]
    if k == 'mix': return [k, i, [rng.randrange(64) for _ in range(rng.randint(1, 3))], rng.random() < 0.5]
    if k == 'view': return [k, i, rng.choice(PHS)]
    if k == 'setphases': return [k, i, rng.choice(PHASE_SETS + ['g', 'l', 'lg'])]
    if k == 'reset_thermo': return [k, i, rng.choice([0, 2, 2, 1])]
    return gen_new(rng)

def gen_history(rng, derived=False):
    ops = [gen_new(rng) for _ in range(rng.randint(1, 3))]
    n = rng.randint(8, 40 - len(ops))
    # a focus pair keeps most operations on related objects
    for _ in range(n):
        o = gen_op(rng, derived)
        if o[0] != 'new' and rng.random() < 0.5:
            o[1] = rng.randrange(4)
        ops.append(o)
    return {'ops': ops}

PHASE_PROPS = ['H', 'h', 'S', 'C', 'Cn', 'V', 'kappa', 'mu']
QUARTERS = [F(0), F(0), F(1, 4), F(1, 2), F(1), F(2), F(3), F(3, 4)]

def scripted_transfer(rng, derived=False):
    """material moved between the phases of a MultiStream at constant T, P and overall composition (total flow a power
    of two, so that the phase-summed normalised composition is bit-identical before and after), through imol[phase, ID]
    or through the phase views; the same properties are read before and after"""
    phases = rng.choice(PHASE_SETS)
    rows = [[rng.choice(QUARTERS) for _ in range(3)] for _ in phases]
    pf = rng.randrange(len(phases)); j = rng.randrange(3)
    if rows[pf][j] == 0: rows[pf][j] = F(1)
    tot = sum(sum(r) for r in rows)
    target = F(4)
    while target <= tot: target *= 2
    fix_p, fix_j = rng.randrange(len(phases)), rng.randrange(3)
    rows[fix_p][fix_j] += target - tot
    pt = rng.choice([k for k in range(len(phases)) if k != pf])
    x = rows[pf][j] * rng.choice([F(1), F(1, 2), F(1, 4)])
    ops = [['new', [[float(v) for v in r] for r in rows], phases, rng.choice(TS), rng.choice(PS), rng.choice([0, 2])]]
    names = rng.sample(PHASE_PROPS + (DERIVED if derived else []), rng.randint(2, 4))
    via_views = rng.random() < 0.5
    if via_views:
        ops += [['view', 0, phases[pf]], ['view', 0, phases[pt]]]        # objects 1 and 2
    if rng.random() < 0.3:
        ops.append(['read', 0, rng.choice(['sigma', 'Hvap'])])
    ops += [['read', 0, n] for n in names]
    if via_views:
        ops += [['setflow', 1, 'g', j, float(rows[pf][j] - x)], ['setflow', 2, 'g', j, float(rows[pt][j] + x)]]
    else:
        ops += [['setflow', 0, phases[pf], j, float(rows[pf][j] - x)], ['setflow', 0, phases[pt], j, float(rows[pt][j] + x)]]
    ops += [['read', 0, n] for n in names]
    if via_views:
        ops += [['read', 1, rng.choice(PHASE_PROPS)], ['read', 2, rng.choice(PHASE_PROPS)]]
    for _ in range(rng.randint(0, 6)):
        ops.append(gen_op(rng, derived))
    return {'ops': ops}

def scripted_unit_total(rng, derived=False):
    """special total flows (exactly 1.0 = mole-fraction basis, also 2 and 1/2): in-place edits that keep the total constant
    (material moved between phases, or between chemicals inside one row), directly or through a phase view, with reads of
    one kind (all phase-dependent or all phase-independent) before and after and nothing of the other kind in between"""
    multi = rng.random() < 0.7
    phases = rng.choice(PHASE_SETS) if multi else rng.choice(PHS)
    rows = [[rng.choice(QUARTERS) for _ in range(3)] for _ in phases]
    pf = rng.randrange(len(phases)); j = rng.randrange(3)
    if rows[pf][j] == 0: rows[pf][j] = F(1)
    tot = sum(sum(r) for r in rows)
    target = F(1)
    while target < tot: target *= 2
    rows[rng.randrange(len(phases))][rng.randrange(3)] += target - tot
    unit = rng.choice([F(1), F(1), F(1), F(2), F(1, 2)])
    rows = [[v * unit / target for v in r] for r in rows]
    ops = [['new', [[float(v) for v in r] for r in rows], phases, rng.choice(TS), rng.choice(PS), rng.choice([0, 2])]]
    kind = rng.choice([PHASE_PROPS, PHASE_PROPS, ['sigma', 'epsilon', 'Hvap']])
    via_view = multi and rng.random() < 0.5
    if via_view:
        ops += [['view', 0, p] for p in phases]                    # objects 1 .. len(phases)
    for _ in range(rng.randint(1, 3)):
        ops += [['read', 0, n] for n in rng.sample(kind, rng.randint(1, 2))]
        x = rows[pf][j] * rng.choice([F(1), F(1, 2), F(1, 4)])
        if multi and rng.random() < 0.6:
            pt, k = rng.choice([q for q in range(len(phases)) if q != pf]), j       # between phases
        else:
            pt, k = pf, rng.choice([q for q in range(3) if q != j])                 # between chemicals of one row
        rows[pf][j] -= x; rows[pt][k] += x
        if via_view:
            ops += [['setflow', 1 + pf, 'g', j, float(rows[pf][j])], ['setflow', 1 + pt, 'g', k, float(rows[pt][k])]]
        else:
            ops += [['setflow', 0, phases[pf], j, float(rows[pf][j])], ['setflow', 0, phases[pt], k, float(rows[pt][k])]]
        ops += [['read', 0, n] for n in rng.sample(kind, rng.randint(1, 2))]
        pf, j = pt, k
        if rows[pf][j] == 0: break
    for _ in range(rng.randint(0, 5)):
        ops.append(gen_op(rng, derived))
    return {'ops': ops}

def scripted_mix_expand(rng, derived=False):
    """a MultiStream whose volumetric view has been read receives, through mix_from, inlets that bring in a phase it does not
    have yet (the indexer's phases are expanded in place, without the phases setter); vol and scalar properties are read
    on it and on its phase views before and after, and again after further edits"""
    phases = rng.choice(['gl', 'ls', 'gs', 'gl'])
    rows = [[float(rng.choice([0, 1, 2, 3, F(1, 2)])) for _ in range(3)] for _ in phases]
    rows[0][rng.randrange(3)] = float(rng.choice([1, 2]))
    T, P = rng.choice(TS[:3]), rng.choice(PS)
    ops = [['new', rows, phases, T, P, 0]]
    srcs = []
    for _ in range(rng.randint(1, 3)):
        if rng.random() < 0.6:
            ph = rng.choice(PHS)
            ops.append(['new', [[float(rng.choice([0, 1, 2, 4, F(1, 4)])) for _ in range(3)]], ph, rng.choice(TS[:3]), rng.choice(PS), 0])
        else:
            ph = rng.choice(PHASE_SETS)
            ops.append(['new', [[float(rng.choice([0, 1, 2, 4, F(1, 4)])) for _ in range(3)] for _ in ph], ph, rng.choice(TS[:3]), rng.choice(PS), 0])
        srcs.append(len(srcs) + 1)
    n = 1 + len(srcs)
    if rng.random() < 0.5:
        ops.append(['view', 0, rng.choice(phases)]); n += 1
    ops += [['rvol', 0]] + [['read', 0, rng.choice(PHASE_PROPS)] for _ in range(rng.randint(0, 2))]
    if rng.random() < 0.3:
        srcs.append(0)
    rng.shuffle(srcs)
    ops.append(['mix', 0, srcs, rng.random() < 0.4])
    ops += [['rvol', 0], ['read', 0, rng.choice(PHASE_PROPS + (['z_vol', 'vol', 'F_vol'] if derived else []))]]
    for p in rng.sample(PHS, 2):
        ops.append(['view', 0, p])
    ops.append(['setflow', 0, rng.choice(PHS), rng.randrange(3), float(rng.choice([1, 3, 8]))])
    ops += [['rvol', 0]] + [['rvol', t] for t in range(n, n + 2)] + [['read', rng.randrange(n + 2), rng.choice(PHASE_PROPS)]]
    for _ in range(rng.randint(0, 5)):
        ops.append(gen_op(rng, derived))
    return {'ops': ops}

def scripted_package_switch(rng, derived=False):
    """property-package change between packages that share the Chemicals object and differ only in their property
    functions, on a Stream, a MultiStream and its phase views, with the same properties read before and after"""
    a, b = rng.choice([(0, 2), (2, 0), (0, 2), (2, 0), (0, 1), (1, 2)])
    new = gen_new(rng); new[5] = a
    multi = len(new[1]) > 1
    if multi:
        for r in new[1]: r[rng.randrange(3)] = float(rng.choice([1, 2, 3]))
    else:
        new[1][0] = [float(rng.choice([1, 2, 3, F(1, 2)])) for _ in range(3)]
    ops = [new]
    targets = [0]
    if multi and rng.random() < 0.7:
        ops.append(['view', 0, rng.choice(new[2])]); targets.append(1)
    names = rng.sample(list(PROPS) + (DERIVED if derived else []), rng.randint(2, 4))
    ops += [['read', t, n] for t in targets for n in names]
    ops.append(['reset_thermo', 0, b])
    ops += [['read', t, n] for t in targets for n in names]
    if rng.random() < 0.5:
        ops += [['reset_thermo', 0, a]] + [['read', t, n] for t in targets for n in names]
    for _ in range(rng.randint(0, 6)):
        ops.append(gen_op(rng, derived))
    return {'ops': ops}

def scripted_link(rng, derived=False):
    """two streams in different phases linked with a random flag combination (partial links included), volumetric
    flows and scalar properties read on both in either order, then edits through either stream and reads again"""
    pa, pb = rng.sample(PHS, 2)
    ops = [['new', [[float(rng.choice([1, 2, 3, F(1, 2)])) for _ in range(3)]], pa, rng.choice(TS), rng.choice(PS), 0],
           ['new', [[float(rng.choice([1, 2, 4, F(1, 4)])) for _ in range(3)]], pb, rng.choice(TS), rng.choice(PS), 0]]
    if rng.random() < 0.4:
        ops += [['rvol', rng.randrange(2)]]
    flags = rng.choice([(True, False, True), (True, False, True), (True, True, True), (True, False, False), (False, False, True),
                        (True, True, False), (False, True, True), (True, False, True), (True, False, True)])
    ops.append(['link', 0, 1, flags[0], flags[1], flags[2]])
    def reads():
        out = []
        order = [0, 1] if rng.random() < 0.5 else [1, 0]
        for t in order:
            out.append(['rvol', t])
            if rng.random() < 0.5:
                out.append(['read', t, rng.choice(['V', 'H', 'mu'] + (['z_vol', 'vol', 'F_vol', 'rho'] if derived else []))])
        return out
    ops += reads()
    ops.append(rng.choice([['setT', rng.randrange(2), rng.choice(TS)], ['setflow', rng.randrange(2), 'g', rng.randrange(3), float(rng.choice([1, 3, 8]))],
                           ['setphase', rng.randrange(2), rng.choice(PHS)], ['scale', rng.randrange(2), 2.0]]))
    ops += reads()
    if rng.random() < 0.4:
        ops += [['unlink', rng.randrange(2)], ['setphase', rng.randrange(2), rng.choice(PHS)]] + reads()
    for _ in range(rng.randint(0, 5)):
        ops.append(gen_op(rng, derived))
    return {'ops': ops}

def scripted_pair(rng, derived=False):
    """a stream and a second object derived from it (copy, flow proxy, proxy, or a phase view) diverge: the same
    phase-dependent (or the same phase-independent) properties are read on the source, the pair is created, one side is
    mutated, and the properties are read on the mutated side and then on the other side with nothing in between"""
    new = gen_new(rng); new[5] = rng.choice([0, 2])
    multi = len(new[1]) > 1
    for r in new[1]: r[rng.randrange(3)] = float(rng.choice([1, 2, 3]))
    kind = rng.choice(['copy', 'copy', 'flow_proxy', 'proxy', 'view' if multi else 'copy'])
    pool = rng.choice([PHASE_PROPS, PHASE_PROPS, ['sigma', 'epsilon', 'Hvap']]) + (DERIVED if derived else [])
    names = rng.sample(pool, min(len(pool), rng.randint(1, 3)))
    ops = [new] + [['read', 0, n] for n in names]
    ops.append([kind, 0, rng.choice(new[2])] if kind == 'view' else [kind, 0])
    if rng.random() < 0.3:
        ops += [['read', 1, n] for n in names]
    side = rng.randrange(2)
    ops.append(rng.choice([['setT', side, rng.choice(TS)], ['setP', side, rng.choice(PS)],
                           ['setflow', side, rng.choice(new[2]), rng.randrange(3), float(rng.choice([1, 4, 8, F(1, 2)]))],
                           ['scale', side, 2.0], ['setphase', side, rng.choice(PHS)]]))
    ops += [['read', side, n] for n in names] + [['read', 1 - side, n] for n in names]
    for _ in range(rng.randint(0, 5)):
        ops.append(gen_op(rng, derived))
    return {'ops': ops}

def scripted_nested(rng, derived=False):
    """a phase view is itself turned into a MultiStream and gets views of its own; memos are filled on every level and the
    owner's cache is then reset (reset_cache / unlink / phases change), which must recurse through the tree"""
    phases = rng.choice(PHASE_SETS)
    rows = [[float(rng.choice([1, 2, 3, F(1, 2)])) for _ in range(3)] for _ in phases]
    p = rng.choice(phases)
    sub = rng.choice([x for x in PHASE_SETS if p in x])
    q = rng.choice(sub)
    ops = [['new', rows, phases, rng.choice(TS), rng.choice(PS), 0], ['view', 0, p], ['setphases', 1, sub], ['view', 1, q]]
    names = rng.sample(PHASE_PROPS, 2)
    ops += [['read', t, n] for t in (2, 1, 0) for n in names]
    ops.append(rng.choice([['reset_cache', 0], ['unlink', 0], ['setphases', 0, rng.choice([x for x in PHASE_SETS if x != phases and set(phases) <= set(x)] or ['gls'])],
                           ['reset_cache', 1], ['setT', 0, rng.choice(TS)]]))
    ops += [['read', t, rng.choice(names)] for t in (2, 1, 0)]
    for _ in range(rng.randint(0, 5)):
        ops.append(gen_op(rng, derived))
    return {'ops': ops}

def scripted_raise(rng, derived=False):
    """error path: properties are cached in one state, the state changes, and the first read in the new state is of a
    property whose model raises there (the caller catches it); the cached properties are then read again"""
    new = gen_new(rng)
    for r in new[1]: r[rng.randrange(3)] = float(rng.choice([1, 2, 3]))
    hot = rng.random() < 0.4
    new[3] = 384. if hot else rng.choice([256., 300., 320.])
    ops = [new]
    targets = [0]
    if len(new[1]) > 1 and rng.random() < 0.5:
        ops.append(['view', 0, rng.choice(new[2])]); targets.append(1)
    if rng.random() < 0.3:
        ops.append(['proxy', 0]); targets.append(len(targets))
    safe = ['H', 'h', 'S', 'C', 'Cn', 'V'] + (['rho', 'F_vol'] if derived else [])
    names = rng.sample(safe, rng.randint(2, 3))
    ops += [['read', t, n] for t in targets for n in names]
    if hot:
        ops.append(rng.choice([['setP', 0, rng.choice(PS)], ['scale', 0, 2.0], ['setflow', 0, rng.choice(new[2]), rng.randrange(3), float(rng.choice([4, 8, F(1, 2)]))]]))
    else:
        ops.append(['setT', 0, 384.])
    ops.append(['read', rng.choice(targets), rng.choice(['mu', 'kappa'])])
    ops += [['read', t, n] for t in targets for n in names]
    if rng.random() < 0.5:
        ops += [['setT', 0, rng.choice([256., 300.])], ['read', 0, rng.choice(['mu', 'kappa'])]] + [['read', t, n] for t in targets for n in names]
    for _ in range(rng.randint(0, 5)):
        ops.append(gen_op(rng, derived))
    return {'ops': ops}

def scripted_roundtrip(rng, derived=False):
    """a MultiStream whose phase views exist is reduced to one phase and made multi-phase again (or has its phase set
    changed); the views handed out afterwards are read, and flows are edited through the stream and through the views"""
    phases = rng.choice(PHASE_SETS)
    rows = [[float(rng.choice([0, 1, 2, 3, F(1, 2)])) for _ in range(3)] for _ in phases]
    rows[0][0] = 1.
    ops = [['new', rows, phases, rng.choice(TS), rng.choice(PS), 0]]
    for p in rng.sample(phases, rng.randint(1, len(phases))):
        ops.append(['view', 0, p])
    ops += [['read', rng.randrange(1, len(ops)), rng.choice(PHASE_PROPS)] for _ in range(2)]
    back = rng.choice(PHASE_SETS)
    ops.append(rng.choice([['setphase', 0, rng.choice(PHS)], ['setphases', 0, rng.choice(PHS)], ['setphases', 0, back]]))
    if rng.random() < 0.5:
        ops.append(['setflow', 0, rng.choice(PHS), rng.randrange(3), float(rng.choice([1, 4, 8]))])
    ops.append(['setphases', 0, back])
    for p in back:
        ops.append(['view', 0, p])
    ops.append(['setflow', 0, rng.choice(back), rng.randrange(3), float(rng.choice([2, 3, 8, F(1, 4)]))])
    n = len([o for o in ops if o[0] in ('new', 'view')])
    for _ in range(4):
        t = rng.randrange(n + 2)
        ops.append(rng.choice([['read', t, rng.choice(list(PROPS) + (DERIVED if derived else []))], ['rvol', t]]))
    ops.append(['setflow', rng.randrange(1, n + 2), 'g', rng.randrange(3), float(rng.choice([5, 6, 7]))])
    for _ in range(4):
        t = rng.randrange(n + 2)
        ops.append(rng.choice([['read', t, rng.choice(PHASE_PROPS)], ['rvol', t]]))
    for _ in range(rng.randint(0, 4)):
        ops.append(gen_op(rng, derived))
    return {'ops': ops}

def gen_scripted(rng, derived=False):
    return rng.choice([scripted_transfer, scripted_package_switch, scripted_link, scripted_pair, scripted_nested, scripted_raise,
                       scripted_roundtrip, scripted_unit_total, scripted_mix_expand])(rng, derived)

DEFECT_5STEP = {'ops': [['new', [[1., 3., 0.]], 'l', 300., 101325., 0], ['proxy', 0], ['read', 0, 'h'], ['setT', 0, 320.],
                        ['read', 1, 'h'], ['setT', 0, 300.], ['read', 0, 'h']]}
# witness of C14_vol_adm_needed: MultiStreams with different phase tuples linked with (flow, TP); the second vol read gets the
# view cached by the first (model and implementation agree on it; the direct oracle skips such inconsistent objects)
ADM_NEEDED = {'ops': [['new', [[1., 2., 0.], [0., 1., 4.]], 'gl', 300., 101325., 0], ['new', [[2., 0., 1.], [3., 1., 0.]], 'ls', 320., 65536., 0],
                      ['link', 0, 1, True, False, True], ['rvol', 1], ['rvol', 0]]}
CORPUS = [DEFECT_5STEP, ADM_NEEDED]
# the same history as a witness for the direct oracle (`strict_links`: do not exclude mislinked MultiStreams); it is
# replayed as a known finding once the integrator has listed the key in known_findings.txt
ADM_KEY = 'C14:link-multistream-phase-tuples'
# MultiStream.unlink() / link_with() rebind the stream's data (and T/P) but leave the cached phase views on the old rows
# and the old ThermalCondition: ms[phase] keeps returning a view of the former state
DETACHED_KEY = 'C14:phase-views-detached-by-link-unlink'
DETACHED = {'ops': [['new', [[1., 0., 2.], [0., 1., 0.]], 'gl', 300., 101325., 0], ['view', 0, 'l'], ['unlink', 0],
                    ['setflow', 0, 'l', 0, 5.], ['read', 1, 'H']], 'strict_links': True}
WITNESSES = []
try:
    from vf import load_known
    _known = load_known()
    if (ID, ADM_KEY) in _known:
        WITNESSES.append({'key': ADM_KEY, 'case': dict(ADM_NEEDED, strict_links=True)})
    if (ID, DETACHED_KEY) in _known:
        WITNESSES.append({'key': DETACHED_KEY, 'case': DETACHED})
except Exception:
    pass

def gen_cases(rng, tier):
    n = 300 if tier == 'quick' else 3000
    m = 60 if tier == 'quick' else 600
    return [gen_scripted(rng) if k % 4 == 0 else gen_history(rng) for k in range(n)] + [gen_eos_case(rng) for _ in range(m)]

def search_cases(rng, tier):
    n = 200 if tier == 'quick' else 2000
    return [gen_scripted(rng, True) if k % 3 == 0 else gen_history(rng, derived=True) for k in range(n)]

# ------------------------------------------------------------------ implementation side
def is_multi(s):
    return s._imol.data.ndim == 2

def do_new(op):
    e = env(); tmo = e['tmo']
    _, flows, phases, T, P, pkg = op
    th = e['thermos'][pkg]
    if len(flows) == 1:
        return tmo.Stream(None, flow=np.array(flows[0], float), phase=phases, T=T, P=P, thermo=th)
    return tmo.MultiStream(None, flow=[[float(x) for x in r] for r in flows], phases=tuple(phases), T=T, P=P, thermo=th)

def pkg_of(s):
    return s._thermo.mixture.pkg

def same_chem(a, b):
    c = a._imol._chemicals
    return c is b._imol._chemicals and c is a._thermo.chemicals and c is b._thermo.chemicals

def resolve(objs, op):
    """op with indices reduced modulo the table size, or ['nop'] when the combination is outside the modelled subset.
    Returns (resolved op for the model, callable performing the real operation -> result)."""
    e = env(); tmo = e['tmo']
    k = op[0]
    if k == 'new':
        return list(op), lambda: do_new(op)
    n = len(objs)
    if n == 0: return ['nop'], lambda: None
    i = op[1] % n
    s = objs[i]
    if k == 'read':
        return ['read', i, op[2]], lambda: getattr(s, op[2])
    if k == 'rvol':
        return ['rvol', i], lambda: s.vol
    if k == 'setT': return [k, i, op[2]], lambda: setattr(s, 'T', op[2])
    if k == 'setP': return [k, i, op[2]], lambda: setattr(s, 'P', op[2])
    if k in ('setH', 'setS'):      # T is solved by the package (oracle); filled in after the call
        return ['seths', i, op[2] == 0, None], lambda: setattr(s, k[3], op[2])
    no_streams = is_multi(s) and not hasattr(s, '_streams')     # proxy() of a MultiStream before any reset_cache
    if k == 'setphase':
        if no_streams: return ['nop'], lambda: setattr(s, 'phase', op[2])
        return [k, i, op[2]], lambda: setattr(s, 'phase', op[2])
    if k == 'setflow':
        if is_multi(s):
            return [k, i, op[2], op[3], op[4]], lambda: s.imol.__setitem__((op[2], IDS[op[3]]), op[4])
        return [k, i, 'g', op[3], op[4]], lambda: s.imol.__setitem__(IDS[op[3]], op[4])
    if k == 'scale': return [k, i, op[2]], lambda: s.scale(op[2])
    if k == 'fmol': return [k, i, op[2]], lambda: setattr(s, 'F_mol', s.F_mol * op[2])
    if k == 'empty': return [k, i], lambda: s.empty()
    if k == 'proxy':
        if not hasattr(s, 'equations'): return ['nop'], lambda: s.proxy()      # phase views have no `equations`
        return [k, i], lambda: s.proxy()
    if k == 'flow_proxy': return [k, i], lambda: s.flow_proxy()
    if k == 'copy': return [k, i], lambda: s.copy()
    if k == 'link':
        j = op[2] % n
        return [k, i, j, op[3], op[4], op[5]], lambda: s.link_with(objs[j], op[3], op[4], op[5])
    if k == 'unlink': return [k, i], lambda: s.unlink()
    if k == 'copy_like':
        j = op[2] % n; t = objs[j]
        if is_multi(s) or is_multi(t) or not same_chem(s, t): return ['nop'], lambda: s.copy_like(t)
        return [k, i, j], lambda: s.copy_like(t)
    if k == 'copy_tc':
        j = op[2] % n
        return [k, i, j], lambda: s.copy_thermal_condition(objs[j])
    if k == 'copy_phase':
        j = op[2] % n
        return [k, i, j], lambda: s.copy_phase(objs[j])
    if k == 'mix':
        js = [x % n for x in op[2]]
        energy = op[3]
        def act():
            s.mix_from([objs[x] for x in js], energy_balance=energy)
        def consistent(x):
            return (is_multi(x) == isinstance(x, tmo.MultiStream)
                    and (not is_multi(x) or len(x._imol._phases) == len(x._imol.data.rows)))
        if not consistent(s) or any(not consistent(objs[x]) or not same_chem(s, objs[x]) for x in js): return ['nop'], act
        live = [x for x in js if not objs[x].isempty()]
        if len(live) == 0: return ['empty', i], act
        if energy and any(objs[x] is s for x in live) and is_multi(s): return ['nop'], act     # mixes a copy of its own indexer
        if len(live) == 1:
            if not energy: return ['mix1', i, live[0]], act
            if is_multi(s) or is_multi(objs[live[0]]): return ['nop'], act                     # MultiStream.copy_like / copy_like from a MultiStream
            return ['copy_like', i, live[0]], act
        return ['mix', i, live, energy, None], act       # T filled in after the call
    if k == 'view': return [k, i, op[2]], lambda: s[op[2]]
    if k == 'setphases':
        ps = sorted(set(op[2]), key=lambda c: PH[c])
        if no_streams or (not is_multi(s) and len(ps) > 1 and s.phase not in ps):
            return ['nop'], lambda: setattr(s, 'phases', op[2])
        return [k, i, ''.join(ps)], lambda: setattr(s, 'phases', op[2])
    if k == 'reset_cache': return [k, i], lambda: s.reset_cache()
    if k == 'reset_thermo':
        th = e['thermos'][op[2]]
        if th is s._thermo: return ['nop'], lambda: None
        if is_multi(s) and (any(p not in s.phases or is_multi(v) for p, v in getattr(s, '_streams', {}).items())
                            or len(s.phases) > len(s._imol.data.rows)):
            return ['nop'], lambda: s._reset_thermo(th)
        return ['setpkg', i, op[2]], lambda: s._reset_thermo(th)
    raise ValueError(k)

def first_id(ids, x):
    return ids.index(x)

def snapshot(objs):
    memo_ids = [id(s._property_cache) for s in objs]
    key_ids = [id(s._property_cache_key) if isinstance(s._property_cache_key, list) else ('own', n) for n, s in enumerate(objs)]
    tc_ids = [id(s._thermal_condition) for s in objs]
    row_ids = [id(s._imol.data.rows[0]) if is_multi(s) else id(s._imol.data) for s in objs]
    imol_ids = [id(s._imol) for s in objs]
    out = []
    for n, s in enumerate(objs):
        multi = is_multi(s)
        rows = [r.to_array() for r in s._imol.data.rows] if multi else [s._imol.data.to_array()]
        memo = sorted((NAMES.index(k), fr_json(frac(v))) for k, v in s._property_cache.items() if k in NAMES)
        out.append({'multi': multi, 'phases': ''.join(s._imol._phases) if multi else s._imol._phase._phase,
                    'rows': [[fr_json(frac(x)) for x in r] for r in rows],
                    'T': fr_json(frac(s._thermal_condition._T)), 'P': fr_json(frac(s._thermal_condition._P)),
                    'memo': [list(m) for m in memo], 'keyset': s._property_cache_key[0] is not None,
                    'amemo': first_id(memo_ids, memo_ids[n]), 'akey': first_id(key_ids, key_ids[n]),
                    'atc': first_id(tc_ids, tc_ids[n]), 'arow': first_id(row_ids, row_ids[n]),
                    'aimol': first_id(imol_ids, imol_ids[n]), 'cls_multi': isinstance(s, env()['tmo'].MultiStream)})
    return out

def solver_out(entry):
    return ['err', 'EOther'] if entry is None else (entry if entry[0] == 'ok' else ['err', ERR_EOS.get(entry[1], 'EOther')])

def run_impl_eos(case):
    e = set_family(case)
    mx = e['thermos'][0].mixture
    objs, res_ops, obs = [], [], []
    for op in case['ops']:
        rop, act = resolve(objs, op)
        if rop[0] in ('mix', 'copy_like') or (rop[0] == 'mix1' and False):
            rop = ['nop']
        if rop[0] == 'nop':
            res_ops.append(rop); obs.append([['ok'], [PH[k] for k in mx._free_energy_args]])
            continue
        del SOLVE_LOG[:]
        b = None
        try:
            r = act()
        except Exception as ex:
            name = type(ex).__name__
            if name not in ERR_EOS:
                raise
            b = ['err', ERR_EOS[name]]
        k = rop[0]
        if k == 'seths':
            log = list(SOLVE_LOG) + [None, None]
            rop = ['pseths', rop[1], op[0] == 'setS', rop[2], solver_out(log[0]), solver_out(log[1])]
        if b is None:
            if k == 'read':
                b = ['val', None if r is None else fr_json(frac(r))]
            elif k == 'rvol':
                b = ['vec', [fr_json(frac(x)) for x in r.to_array()]]
            elif k in ('new', 'proxy', 'flow_proxy', 'copy', 'view'):
                found = [n for n, x in enumerate(objs) if x is r]
                if found:
                    b = ['idx', found[0]]
                else:
                    objs.append(r); b = ['idx', len(objs) - 1]
            else:
                b = ['ok']
        obs.append([b, [PH[k] for k in mx._free_energy_args]])
        res_ops.append(rop)
    snap = snapshot(objs)
    return {'ops': res_ops, 'obs': obs, 'final': snap,
            'class_consistent': all(s['multi'] == s['cls_multi'] for s in snap)}

def run_impl(case):
    if case.get('kind') == 'eos':
        return run_impl_eos(case)
    set_family(case)
    objs, res_ops, obs = [], [], []
    for op in case['ops']:
        rop, act = resolve(objs, op)
        if rop[0] == 'nop':
            res_ops.append(rop); obs.append(['ok'])
            continue
        try:
            r = act()
        except Exception as ex:
            name = type(ex).__name__
            if name not in ERR:
                raise
            obs.append(['err', ERR[name]])
            res_ops.append(rop if rop[0] not in ('mix', 'seths') else rop[:-1] + [fr_json(frac(objs[rop[1]].T))])
            continue
        k = rop[0]
        if k in ('mix', 'seths'):
            rop = rop[:-1] + [fr_json(frac(objs[rop[1]].T))]
        if k == 'read':
            obs.append(['val', None if r is None else fr_json(frac(r))])
        elif k == 'rvol':
            obs.append(['vec', [fr_json(frac(x)) for x in r.to_array()]])
        elif k in ('new', 'proxy', 'flow_proxy', 'copy', 'view'):
            found = [n for n, x in enumerate(objs) if x is r]
            if found:
                obs.append(['idx', found[0]])
            else:
                objs.append(r); obs.append(['idx', len(objs) - 1])
        else:
            obs.append(['ok'])
        res_ops.append(rop)
    snap = snapshot(objs)
    return {'ops': res_ops, 'obs': obs, 'final': snap,
            'class_consistent': all(s['multi'] == s['cls_multi'] for s in snap)}

# ------------------------------------------------------------------ model side
def cph(p): return cnat(PH[p])
def cphs(ps): return clist(ps, cph)

def cop(o):
    k = o[0]
    if k == 'new':
        ps = o[2]
        return f'(ONew {clist(o[1], qlist)} {cphs(ps)} {q(o[3])} {q(o[4])} {cnat(o[5])})'
    if k == 'read':
        nm, fl, nop = PROPS[o[2]]
        return f'(ORead {cnat(o[1])} {cnat(nm)} {cbool(fl)} {cbool(nop)})'
    if k == 'rvol': return f'(ORVol {cnat(o[1])})'
    if k == 'setT': return f'(OSetT {cnat(o[1])} {q(o[2])})'
    if k == 'setP': return f'(OSetP {cnat(o[1])} {q(o[2])})'
    if k == 'seths': return f'(OSetHS {cnat(o[1])} {cbool(o[2])} {q(F(o[3]))})'
    if k == 'setphase': return f'(OSetPhase {cnat(o[1])} {cph(o[2])})'
    if k == 'setflow': return f'(OSetFlow {cnat(o[1])} {cph(o[2])} {cnat(o[3])} {q(o[4])})'
    if k == 'scale': return f'(OScale {cnat(o[1])} {q(o[2])})'
    if k == 'fmol': return f'(OFmol {cnat(o[1])} {q(o[2])})'
    if k == 'empty': return f'(OEmpty {cnat(o[1])})'
    if k == 'proxy': return f'(OProxy {cnat(o[1])})'
    if k == 'flow_proxy': return f'(OFlowProxy {cnat(o[1])})'
    if k == 'copy': return f'(OCopy {cnat(o[1])})'
    if k == 'link': return f'(OLink {cnat(o[1])} {cnat(o[2])} {cbool(o[3])} {cbool(o[4])} {cbool(o[5])})'
    if k == 'unlink': return f'(OUnlink {cnat(o[1])})'
    if k == 'copy_like': return f'(OCopyLike {cnat(o[1])} {cnat(o[2])})'
    if k == 'copy_flow': return f'(OCopyFlow {cnat(o[1])} {cnat(o[2])})'
    if k == 'mix1': return f'(OMix1 {cnat(o[1])} {cnat(o[2])})'
    if k == 'copy_tc': return f'(OCopyTC {cnat(o[1])} {cnat(o[2])})'
    if k == 'copy_phase': return f'(OCopyPhase {cnat(o[1])} {cnat(o[2])})'
    if k == 'mix': return f'(OMix {cnat(o[1])} {clist(o[2], cnat)} {cbool(o[3])} {q(F(o[4]))})'
    if k == 'view': return f'(OView {cnat(o[1])} {cph(o[2])})'
    if k == 'setphases': return f'(OSetPhases {cnat(o[1])} {cphs(o[2])})'
    if k == 'reset_cache': return f'(OResetCache {cnat(o[1])})'
    if k == 'setpkg': return f'(OSetPkg {cnat(o[1])} {cnat(o[2])})'
    if k == 'nop': return 'ONop'
    raise ValueError(k)

def cobs(b):
    if b[0] == 'ok': return 'BOk'
    if b[0] == 'err': return f'(BErr {b[1]})'
    if b[0] == 'idx': return f'(BIdx {cnat(b[1])})'
    if b[0] == 'vec': return f'(BVec {qlist([F(x) for x in b[1]])})'
    return '(BVal RNone)' if b[1] is None else f'(BVal (RVal {q(F(b[1]))}))'

def csnap(s):
    phases = cphs(s['phases'])
    rows = clist([qlist([F(x) for x in r]) for r in s['rows']])
    memo = clist([f'({cnat(n)}, {q(F(v))})' for n, v in s['memo']])
    return (f'(mksnap {cbool(s["multi"])} {phases} {rows} {q(F(s["T"]))} {q(F(s["P"]))} {memo} {cbool(s["keyset"])} '
            f'{cnat(s["amemo"])} {cnat(s["akey"])} {cnat(s["atc"])} {cnat(s["arow"])} {cnat(s["aimol"])})')

def cres(o):
    return f'(Ok {q(F(o[1]))})' if o[0] == 'ok' else f'(Err {o[1]})'

def cpop(o):
    if o[0] == 'pseths':
        return f'(PSetHS {cnat(o[1])} {cbool(o[2])} {cbool(o[3])} {cres(o[4])} {cres(o[5])})'
    return f'(PS {cop(o)})'

def coq_case(case, out):
    if case.get('kind') == 'eos':
        ops = clist([cpop(o) for o in out['ops']])
        obs = clist([f'({cobs(b[0])}, {clist(b[1], cnat)})' for b in out['obs']])
        return (f'(prun_eqb {cbool(SHARED)} {ops} {obs} {clist([csnap(s) for s in out["final"]])} '
                f'&& {cbool(out["class_consistent"])})')
    ops = clist([cop(o) for o in out['ops']])
    return (f'(run_eqb {cbool(SHARED)} {ops} {clist([cobs(b) for b in out["obs"]])} '
            f'{clist([csnap(s) for s in out["final"]])} && {cbool(out["class_consistent"])})')

def coq_show(case, out):
    if case.get('kind') == 'eos':
        ops = clist([cpop(o) for o in out['ops']])
        return (f'(let (pw, bs) := prun estub_ideal estub_dep {cbool(SHARED)} stub_cvol pw0 {ops} in '
                f'(bs, map (snap_of (pw_w pw)) (seq O (length (objs (w_st (pw_w pw)))))))')
    ops = clist([cop(o) for o in out['ops']])
    return (f'(let (w, bs) := run stub_calc1 stub_calcx {cbool(SHARED)} stub_cvol w0 {ops} in '
            f'(bs, map (snap_of w) (seq O (length (objs (w_st w))))))')

def plain_obs(case, out):
    return [b[0] for b in out.get('obs', [])] if case.get('kind') == 'eos' else out.get('obs', [])

def nontrivial(case, out):
    seen_mut = False
    for o, b in zip(out.get('ops', []), plain_obs(case, out)):
        if o[0] not in ('read', 'rvol', 'new', 'nop') and b[0] == 'ok':
            seen_mut = True
        if ((o[0] == 'read' and b[0] == 'val' and b[1] is not None) or (o[0] == 'rvol' and b[0] == 'vec')) and seen_mut:
            return True
    return False

def classify(case, out):
    ks = []
    if case.get('kind') == 'eos': ks.append('family:eos-package')
    for o, b in zip(out.get('ops', []), plain_obs(case, out)):
        ks.append(f'op:{o[0]}:{b[0] if b[0] != "err" else b[1]}')
        if o[0] == 'pseths':
            ks.append('solver:%s/%s' % (o[4][0], o[5][0]))
    ks.append('objects:%d' % len(out.get('final', [])))
    if any(s['multi'] for s in out.get('final', [])): ks.append('has:multistream')
    if any(s['amemo'] != n for n, s in enumerate(out.get('final', []))): ks.append('has:shared-memo')
    return ks

# ------------------------------------------------------------------ direct oracle
def fresh_like(s, thermo):
    """a freshly created stream with the same flows, phase(s), T and P under the given property package"""
    tmo = env()['tmo']
    if is_multi(s):
        data = np.array([r.to_array() for r in s._imol.data.rows], float)
        return tmo.MultiStream(None, flow=[[float(x) for x in r] for r in data], phases=tuple(s._imol._phases), T=s.T, P=s.P, thermo=thermo)
    return tmo.Stream(None, flow=s._imol.data.to_array(), phase=s.phase, T=s.T, P=s.P, thermo=thermo)

def as_list(v):
    if v is None: return None
    if hasattr(v, 'to_array'): v = v.to_array()
    a = np.asarray(v, float)
    return [float(a)] if a.ndim == 0 else [float(x) for x in a.reshape(-1)]

def close(a, b, tol=1e-9):
    a, b = as_list(a), as_list(b)
    if a is None or b is None:
        return a is None and b is None
    return len(a) == len(b) and all(abs(x - y) <= tol * max(1., abs(x), abs(y)) for x, y in zip(a, b))

def oracle(case):
    """The property itself on the implementation: after any history, each property read (scalar properties, and the
    per-chemical volumetric flows vol / z_vol) equals the value read from a freshly created stream with the same flows,
    phase(s), T, P and the property package the stream was given: the package it was constructed with or last switched
    to; a phase view has the package of its MultiStream; proxies, copies and flow proxies start with the package of
    their source.  This bookkeeping is done here and does not look at the stream's own `_thermo`."""
    e = set_family(case); tmo = e['tmo']
    # the reference streams of a stateful package live on an identical, independently built package object
    thermos = e.get('reference', e['thermos'])
    objs, pkg, parent = [], [], []
    mislinked = set()       # indexers of MultiStreams linked (flows and T/P) to a MultiStream with another phase tuple
    detached = set()        # phase views left behind by link_with / unlink of their MultiStream (listed finding)
    strict = case.get('strict_links', False)
    for step_no, op in enumerate(case['ops']):
        try:
            rop, act = resolve(objs, op)
        except Exception:
            continue
        if op[0] in ('read', 'rvol') and objs:
            i = op[1] % len(objs)
            s = objs[i]
            name = 'vol' if op[0] == 'rvol' else op[2]
            th = thermos[pkg[i]]
            if not (is_multi(s) == isinstance(s, tmo.MultiStream)) or s._imol._chemicals is not th.chemicals:
                continue            # object left inconsistent by an earlier raise / package reset of an indexer it shares
            if is_multi(s) and (len(s._imol._phases) != len(s._imol.data.rows) or (id(s._imol) in mislinked and not strict)):
                continue            # link_with between MultiStreams with different phase tuples (outside run_adm)
            # the read is performed in any case (a read that raises is part of the history: the caller catches it)
            # a phase view that its MultiStream still hands out (ms[phase] is the view) must describe the MultiStream's
            # current row for that phase and its current T, P: the reference stream is built from the owner's state
            ref = s
            j = parent[i]
            if j is not None and not is_multi(s) and (strict or id(s) not in detached):
                owner = objs[j]
                ph = s._imol._phase._phase
                if (is_multi(owner) and isinstance(owner, tmo.MultiStream) and getattr(owner, '_streams', {}).get(ph) is s
                        and ph in owner._imol._phases and len(owner._imol._phases) == len(owner._imol.data.rows)
                        and (strict or id(owner._imol) not in mislinked)):
                    ref = tmo.Stream(None, flow=owner._imol.data.rows[owner._imol._phases.index(ph)].to_array(), phase=ph,
                                     T=owner.T, P=owner.P, thermo=th)
            try:
                want = getattr(fresh_like(ref, th), name)
                want = want.to_array() if hasattr(want, 'to_array') else want
                want_exc = None
            except Exception as ex:
                want, want_exc = None, type(ex).__name__
            try:
                got = getattr(s, name)
                got = got.to_array() if hasattr(got, 'to_array') else got
            except Exception as ex:
                if want_exc is None:
                    return f'read {name}: raises {type(ex).__name__} at step {step_no} while a fresh stream in the same state returns {want!r}'
                continue
            if want_exc is not None:
                if want_exc == 'RuntimeError':
                    return (f'read {name}: stale value at step {step_no}: stream returns {got!r} while a fresh stream with the same '
                            f'flows, phase, T={s.T}, P={s.P} raises {want_exc}')
                continue
            if not close(got, want):
                return (f'read {name}: stale value at step {step_no}: stream returns {got!r}, a fresh stream with the same '
                        f'flows, phase, T={s.T}, P={s.P} and package {pkg[i]} returns {want!r}')
            continue
        k = op[0]
        if k == 'link' and objs:
            a, b = objs[op[1] % len(objs)], objs[op[2] % len(objs)]
            if is_multi(a) and is_multi(b) and op[3] and op[5] and a._imol._phases != b._imol._phases:
                mislinked.add(id(a._imol))
            if is_multi(a) and is_multi(b) and (op[3] or op[5]) and a is not b:
                for o in objs:          # the receiver and every proxy sharing its indexer
                    if o._imol is a._imol or o is a:
                        detached.update(id(v) for v in getattr(o, '_streams', {}).values())
        if k == 'unlink' and objs:
            a = objs[op[1] % len(objs)]
            if is_multi(a):
                for o in objs:
                    if o._imol is a._imol or o is a:
                        detached.update(id(v) for v in getattr(o, '_streams', {}).values())
        try:
            r = act()
        except Exception:
            continue
        if k in ('new', 'proxy', 'flow_proxy', 'copy', 'view') and r is not None and not any(r is x for x in objs):
            src = None if k == 'new' else op[1] % len(objs)
            objs.append(r)
            pkg.append(op[5] if k == 'new' else pkg[src])
            parent.append(src if k == 'view' else None)
        elif k == 'reset_thermo' and objs:
            i = op[1] % len(objs)
            pkg[i] = op[2]
            live = [id(v) for v in getattr(objs[i], '_streams', {}).values()]
            for n, v in enumerate(objs):
                if parent[n] == i and id(v) in live:
                    pkg[n] = op[2]
    return None

def finding_key(case, msg):
    if case.get('kind') == 'eos':
        return 'C14:eos-package:' + ('stale-read' if 'stale' in msg else msg.split(':')[0])
    if case.get('strict_links'):
        return DETACHED_KEY if any(o[0] == 'view' for o in case['ops']) else ADM_KEY
    has_proxy = any(o[0] == 'proxy' for o in case['ops'])
    return 'C14:stale-read' + (':proxy' if has_proxy else '') if 'stale' in msg else 'C14:' + msg.split(':')[0]

def shrink(case):
    """greedy removal of operations while the oracle keeps failing"""
    ops = list(case['ops'])
    if case.get('kind') == 'eos' or not oracle({'ops': ops}):
        return case
    changed = True
    while changed:
        changed = False
        for k in range(len(ops) - 1, -1, -1):
            trial = ops[:k] + ops[k + 1:]
            try:
                if trial and oracle({'ops': trial}):
                    ops = trial; changed = True
            except Exception:
                pass
    return {'ops': ops}
