"""C19 — simulation order derived from a flowsheet.

Two kinds of case:
  'sort'  Network(path).sort(ends) of the real implementation on a flat path of real AbstractUnit
          objects versus the Coq model (exact order, stop flag / warning, recycles, PathSource sets);
  'net'   Network.from_units on a whole flowsheet; the observed nested path and recycles are encoded
          as a Gallina term and the verified certificate checker is evaluated on it inside Coq.
"""
import itertools, warnings
from vf import clist, cbool, cnat

ID = 'C19'
COQ_DIR = 'C19'
COQ_HEADER = 'From V Require Import Common.Num C19.Model.\nOpen Scope nat_scope.'
RULE = ('flowsheets of real thermosteam.network.AbstractUnit subclasses joined by AbstractStreams: connected acyclic graphs of '
        '2-10 units with 1-3 inlets/outlets each (random relabelling of a topological order, several feeds and products, '
        'occasional parallel streams), and the same with 1-3 added back-edges (occasionally a unit feeding itself) such that every unit is still fed and still '
        'reaches a product. kind=net: Network.from_units on a random permutation of the unit list (all permutations of one '
        'flowsheet for n<=4 quick / n<=6 thorough); the observed nested path, recycles and a cycle witness are checked by the '
        'verified Gallina checker, flat path / get_all_recycles are compared with the Gallina functions, and the loops found by '
        'fill_path with the top-level join_recycle_network calls of every from_feedstock invocation (which loop, network.units '
        'before the call, raised or not) are compared with the model of the loop-join order. Structured families on top of the '
        'random flowsheets: chains with k staggered / nested / overlapping returns, fans, staggered loops inside an outer loop, '
        'ladders (cyclic and acyclic), each with the feedstock entering at the upstream end, the downstream end, both, or the '
        'middle; every ordering of the unit list for n<=3 and for the chained-loop families at n=4 (quick) / n<=5 (thorough). '
        'During every from_units run the final Network.sort (nested path: tree before, ends, PathSource sets, tree after, '
        'warning) and every surgery call that is not nested in another modelled one (join_linear_network, '
        'join_recycle_network, _insert_linear_network, _append_linear_network, ...: receiver with its `units` attribute, '
        'arguments, resulting tree or ValueError, observed recycle_sink of recycle sets) are recorded and replayed on the '
        'Coq models; `units` = units of the path and no duplicate unit are evaluated on every step result. kind=nsort: a '
        'from_units result with every level shuffled, sorted again by the real Network.sort with the recycle ends or a '
        'random set of cut streams. Extra families clover / interlock (loops merged into an inserted loop) and '
        'parallel_loop (a recycle loop whose two branches are chains of 1-3 units with skip streams and side exits, random '
        'port order, so that fill_path covers the loop with several linear fragments). The linear fragments, loops and `ends` '
        'returned by every find_linear_and_cyclic_paths_with_recycle call are compared with the model of fill_path / '
        'simplified_linear_paths. search_cases: 4000 parallel_loop flowsheets of >= 8 units plus 1500 random cyclic ones, '
        'used only to find a concrete failing input when something broke. kind=sort: '
        'Network(path).sort(ends) on a random permutation of a (sub)set of the units with a random set of cut streams, '
        'compared with the Coq model (exact order, stop flag = no warning, recycle set, PathSource.units of every item). '
        'kind=whole: a flowsheet split in two parts (a cycle and the rest, or at random), Network.from_units on each part, then the real '
        'join_network_at_unit (at a unit fed by the other part, a random unit of the receiver, or an absent unit) or _append_network, then '
        'reduce_recycles, each compared with the model (receiver, mutated argument, ValueError). '
        'non-trivial = sort changed the order or reported a recycle / from_units result has >= 3 units; distinct = distinct case hash')
ASSUMPTIONS = ['reach is a strict partial order in the sort theorems: holds whenever the streams not in `ends` form no cycle '
               '(get_downstream_units computes a transitive closure); non-vacuity Example on a concrete DAG',
               'sort_feeds_big_to_small has no model; reduce_recycles / join_network_at_unit / _append_network are modelled as whole '
               'methods (part 7) and replayed on every recorded call; the model of reduce_recycles treats a recycle as a set exactly '
               'when it holds at least two streams (asserted on every recorded call); the join_network_at_unit theorem assumes an '
               'argument without recycle that shares no unit with the receiver (what from_feedstock passes: evaluated per call, not '
               'derived from `ends`); fill_path and '
               'simplified_linear_paths are modelled (part 6) and proved to yield duplicate-free, pairwise disjoint fragments and '
               'duplicate-free loops, but the composition of from_feedstock (fragments -> joins -> multi-feed joins -> reduce -> sort) is not a single model; '
               'the surgery theorems assume receivers and arguments whose `units` equals the units of their path (checked '
               'on every recorded step); "each unit once" after surgery is evaluated per step, not proved (it is false '
               'without facts about the paths fill_path produces: Example C19_surgery_once_needs_path_facts)',
               'nested sort theorems: tree_strictb (downstream_from is a strict partial order on the items of every level) '
               'is decidable and is the hypothesis; Network.units of a sub-network is taken to be the units of its path '
               '(asserted by the harness on every observed sort)',
               'no unit is `_universal` or `_interaction`, no auxiliary units, no marked disjunctions, feed priorities unset']
TRUSTED = ['model coq/C19/Model.v (split_first/sweep/sort_loop, dloop) is hand-written from thermosteam/network.py:2419-2455 and '
           ':1740-1766, :2100-2117; tie = correspondence check',
           'model of the loop-join order (pick/join_loops) is hand-written from the `while recycle_networks` block of '
           'Network.from_feedstock; join_recycle_network is abstracted to "raises iff the loop shares no unit with the network, '
           'else network.units becomes the union" and that abstraction is compared with the observed calls on every case',
           'models of Network.sort on nested paths (down_item, item_reach, item_direct, sort_tree) and of the path surgery '
           '(remove_overlap ... insert_recycle) are hand-written from network.py; tie = step-by-step replay of recorded calls; '
           'recycle_sink of a recycle *set* is an observed oracle (Python set iteration order)',
           'models of join_network_at_unit, _append_network and reduce_recycles (join_at, ir_arg, append_network, reduce, reduce_rc) '
           'are hand-written from network.py; tie = replay of every call recorded during from_units plus direct calls of the real '
           'methods on the from_units results of the two parts of a split flowsheet (kind=whole; receiver and mutated argument compared)',
           'model of path finding (fill, drop_until, sort_len_asc/desc, simp, simplified, find_paths) is hand-written from '
           'fill_path, path_with_recycle_to_cyclic_path_with_recycle, find_linear_and_cyclic_paths_with_recycle and '
           'simplified_linear_paths; tie = comparison of every observed call; streams are listed in outlet-port order',
           'the harness wraps Network methods (sort, surgery methods, recycle_sink) and find_linear_and_cyclic_paths_with_recycle '
           'at run time to record calls; the wrappers call the original and restore it afterwards',
           'encoding of the observed Network tree and of the flowsheet graph into Gallina (props/C19.py: ctree, cedges)',
           'cycle witness search and acyclicity test in the harness are untrusted: the checker validates the witness and '
           'derives acyclicity itself']

_env = {}
def env():
    if not _env:
        import thermosteam as tmo
        from thermosteam import network as nw
        tmo.settings.set_thermo(tmo.Chemicals([tmo.Chemical('A_', search_db=False, MW=16., Hf=0., Cn=64.,
                                                            phase='l', default=True)]))
        _env['tmo'] = tmo
        _env['nw'] = nw
        _env['cls'] = {}
    return _env

def unit_class(i, o):
    e = env()
    if (i, o) not in e['cls']:
        e['cls'][(i, o)] = type(f'U{i}{o}', (e['nw'].AbstractUnit,), {'_N_ins': i, '_N_outs': o})
    return e['cls'][(i, o)]

# ------------------------------------------------------------------ flowsheets as data
# case: n units 0..n-1; nin[u], nout[u] in 1..3; edges [u, out-port, v, in-port]; unconnected in-ports are feeds,
# unconnected out-ports are products.
def stream_table(case):
    """stream ids: out-port streams first (unit-major), then feed streams.  -> out_sid, in_sid, src, dst"""
    n, nin, nout = case['n'], case['nin'], case['nout']
    out_sid, k = [], 0
    for u in range(n):
        out_sid.append(list(range(k, k + nout[u]))); k += nout[u]
    in_sid = [[None] * nin[u] for u in range(n)]
    src, dst = {}, {}
    for u in range(n):
        for s in out_sid[u]:
            src[s] = u; dst[s] = None
    for (u, op, v, ip) in case['edges']:
        s = out_sid[u][op]
        if in_sid[v][ip] is not None or dst[s] is not None:
            raise ValueError('port used twice')
        in_sid[v][ip] = s; dst[s] = v
    for v in range(n):
        for ip in range(nin[v]):
            if in_sid[v][ip] is None:
                in_sid[v][ip] = k; src[k] = None; dst[k] = v; k += 1
    return out_sid, in_sid, src, dst

def process_edges(case):
    out_sid, in_sid, src, dst = stream_table(case)
    return [(s, src[s], dst[s]) for s in sorted(src) if src[s] is not None and dst[s] is not None]

def succ_map(case, cut=()):
    sm = {u: [] for u in range(case['n'])}
    for s, u, v in process_edges(case):
        if s not in cut: sm[u].append(v)
    return sm

def closure(sm, u):
    seen, st = set(), list(sm[u])
    while st:
        x = st.pop()
        if x not in seen:
            seen.add(x); st.extend(sm[x])
    return seen

def is_cyclic(case, cut=()):
    sm = succ_map(case, cut)
    return any(u in closure(sm, u) for u in sm)

def find_cycle(case):
    """a list of units u0..uk with streams u0->u1->...->uk->u0, or [] (untrusted: validated by the checker)"""
    sm = succ_map(case)
    for u in range(case['n']):
        if u in closure(sm, u):
            # shortest walk from u back to u
            prev, frontier, seen = {}, [u], set()
            while frontier:
                nxt = []
                for x in frontier:
                    for y in sm[x]:
                        if y == u:
                            walk = [x]
                            while walk[-1] != u: walk.append(prev[walk[-1]])
                            return walk[::-1]
                        if y not in seen:
                            seen.add(y); prev[y] = x; nxt.append(y)
                frontier = nxt
    return []

def well_formed(case):
    """every unit is reachable from a feed and reaches a product; the flowsheet is connected"""
    n = case['n']
    out_sid, in_sid, src, dst = stream_table(case)
    sm = succ_map(case)
    feeds_at = {dst[s] for s in src if src[s] is None}
    prods_at = {src[s] for s in src if dst[s] is None}
    if not feeds_at or not prods_at: return False
    fr = set(feeds_at)
    for u in feeds_at: fr |= closure(sm, u)
    if len(fr) != n: return False
    for u in range(n):
        if u not in prods_at and not (closure(sm, u) & prods_at): return False
    und = {u: set() for u in range(n)}
    for u in sm:
        for v in sm[u]:
            und[u].add(v); und[v].add(u)
    seen, st = {0}, [0]
    while st:
        x = st.pop()
        for y in und[x]:
            if y not in seen: seen.add(y); st.append(y)
    return len(seen) == n

def gen_dag(rng, n):
    for _ in range(400):
        label = list(range(n)); rng.shuffle(label)
        indeg, outdeg, pairs = [0] * n, [0] * n, []
        for k in range(1, n):
            j = rng.randrange(k)
            if outdeg[j] < 3 and indeg[k] < 3:
                pairs.append((j, k)); outdeg[j] += 1; indeg[k] += 1
        for _ in range(rng.randint(0, n)):
            j = rng.randrange(n - 1); k = rng.randrange(j + 1, n)
            if outdeg[j] < 3 and indeg[k] < 3 and (rng.random() < 0.15 or (j, k) not in pairs):
                pairs.append((j, k)); outdeg[j] += 1; indeg[k] += 1
        nin, nout = [0] * n, [0] * n
        for k in range(n):
            lo = max(1, indeg[k]); nin[label[k]] = rng.randint(lo, 3) if rng.random() < 0.5 else lo
            lo = max(1, outdeg[k]); nout[label[k]] = rng.randint(lo, 3) if rng.random() < 0.5 else lo
        inports = {u: rng.sample(range(nin[u]), nin[u]) for u in range(n)}
        outports = {u: rng.sample(range(nout[u]), nout[u]) for u in range(n)}
        edges = []
        for (j, k) in pairs:
            u, v = label[j], label[k]
            edges.append([u, outports[u].pop(), v, inports[v].pop()])
        rng.shuffle(edges)
        case = {'n': n, 'nin': nin, 'nout': nout, 'edges': edges}
        if well_formed(case) and not is_cyclic(case):
            out_sid, in_sid, src, dst = stream_table(case)
            nf = sum(1 for s in src if src[s] is None); npd = sum(1 for s in src if dst[s] is None)
            if n <= 2 or (nf >= 2 and npd >= 2) or rng.random() < 0.1:
                return case
    raise RuntimeError('no flowsheet generated')

def add_back_edges(rng, case, k):
    """add up to k streams u->v with u downstream of v (each closes a cycle), keeping well-formedness"""
    case = {**case, 'nin': list(case['nin']), 'nout': list(case['nout']), 'edges': [list(e) for e in case['edges']]}
    n, added = case['n'], 0
    for _ in range(60):
        if added == k: break
        sm = succ_map(case)
        cands = [(u, v) for v in range(n) for u in sorted(closure(sm, v)) if u != v]
        if not cands: break
        u, v = rng.choice(cands)
        if rng.random() < 0.08: v = u      # a unit that feeds itself
        out_sid, in_sid, src, dst = stream_table(case)
        trial = {**case, 'nin': list(case['nin']), 'nout': list(case['nout']), 'edges': [list(e) for e in case['edges']]}
        free_out = [op for op in range(case['nout'][u]) if dst[out_sid[u][op]] is None]
        free_in = [ip for ip in range(case['nin'][v]) if src[in_sid[v][ip]] is None]
        if trial['nout'][u] < 3 and (not free_out or rng.random() < 0.6):
            op = trial['nout'][u]; trial['nout'][u] += 1
        elif free_out: op = rng.choice(free_out)
        else: continue
        if trial['nin'][v] < 3 and (not free_in or rng.random() < 0.6):
            ip = trial['nin'][v]; trial['nin'][v] += 1
        elif free_in: ip = rng.choice(free_in)
        else: continue
        trial['edges'].append([u, op, v, ip])
        if well_formed(trial):
            case = trial; added += 1
    return case, added

def gen_flowsheet(rng, n, cyclic):
    case = gen_dag(rng, n)
    if cyclic:
        case, _ = add_back_edges(rng, case, rng.randint(1, 3))
    return case

# ------------------------------------------------------------------ structured families
def mk_flowsheet(n, pairs, feeds, prods, relabel=None):
    """flowsheet from unit pairs (u, v) = one stream u->v each, extra feed / product ports at the listed units
    (a unit without inlet gets a feed, without outlet a product); None when a unit would need more than 3 ports"""
    lab = relabel or list(range(n))
    indeg, outdeg = [0] * n, [0] * n
    edges = []
    for u, v in pairs:
        edges.append([lab[u], outdeg[u], lab[v], indeg[v]]); outdeg[u] += 1; indeg[v] += 1
    nin, nout = [0] * n, [0] * n
    for u in range(n):
        nin[lab[u]] = indeg[u] + (1 if (u in feeds or indeg[u] == 0) else 0)
        nout[lab[u]] = outdeg[u] + (1 if (u in prods or outdeg[u] == 0) else 0)
    if max(nin) > 3 or max(nout) > 3: return None
    case = {'n': n, 'nin': nin, 'nout': nout, 'edges': edges}
    return case if well_formed(case) else None

def chain(n):
    return [(i, i + 1) for i in range(n - 1)]

def family_flowsheets(rng, n):
    """(name, pairs) of n-unit flowsheets: a forward chain (or ladder) with back-edges in regular patterns"""
    fams = []
    c = chain(n)
    # staggered: i+1 -> i for a run of consecutive i (loops chained A-B-C, each touching only its neighbours)
    for k in range(1, n):
        for start in range(0, n - k):
            fams.append((f'staggered{k}', c + [(i + 1, i) for i in range(start, start + k)]))
    # nested: n-1-j -> j
    for k in range(1, n // 2 + 1):
        fams.append((f'nested{k}', c + [(n - 1 - j, j) for j in range(k) if n - 1 - j > j]))
    # overlapping: i+2 -> i
    for k in range(1, n - 1):
        fams.append((f'overlap{k}', c + [(i + 2, i) for i in range(k)]))
    # fan: several units return to unit 0 / the last unit returns to several
    for k in range(1, min(3, n)):
        fams.append((f'fan_in{k}', c + [(j, 0) for j in range(n - 1, n - 1 - k, -1)]))
        fams.append((f'fan_out{k}', c + [(n - 1, j) for j in range(k)]))
    # staggered loops plus one loop spanning them all
    if n >= 4:
        fams.append(('staggered+outer', c + [(i + 1, i) for i in range(1, n - 2)] + [(n - 1, 0)]))
    # clover: petals 0 -> i -> 0 around a hub and one loop hanging off a petal (loops that are merged into an
    # inserted loop by _insert_recycle_network)
    if n >= 5:
        fams.append(('clover', [(0, 1), (1, 0), (0, 2), (2, 0), (1, 3)] + [(i, i + 1) for i in range(3, n - 1)] + [(n - 1, 1)]))
        fams.append(('clover_b', [(0, 1), (1, 0), (0, 2), (2, 0), (2, 3)] + [(i, i + 1) for i in range(3, n - 1)] + [(n - 1, 1)]))
    # the flowsheet of the third minimised defect and its mirror
    if n == 5:
        fams.append(('interlock', [(4, 3), (4, 2), (3, 1), (3, 4), (1, 0), (0, 3), (2, 4)]))
        fams.append(('interlock_b', [(0, 1), (0, 2), (1, 3), (1, 0), (3, 4), (4, 1), (2, 0)]))
    # ladder: two chains a_i, b_i with rungs a_i -> b_i and returns b_{i+1} -> a_i
    if n >= 4 and n % 2 == 0:
        m = n // 2
        a = list(range(m)); b = list(range(m, n))
        lad = [(a[i], a[i + 1]) for i in range(m - 1)] + [(b[i], b[i + 1]) for i in range(m - 1)] + [(a[i], b[i]) for i in range(m)]
        fams.append(('ladder', lad + [(b[i + 1], a[i]) for i in range(m - 1)]))
        fams.append(('ladder_cross', lad + [(b[i], a[i - 1]) for i in range(1, m)]))
        fams.append(('ladder_acyclic', lad))
    return fams

def feed_variants(n):
    return [[0], [n - 1], [0, n - 1], [n // 2], [0, n // 2, n - 1]]

def priority(name):
    """families whose loops are chained / interlocked: these get every ordering of the unit list"""
    return name in ('staggered2', 'staggered3', 'staggered4', 'nested2', 'staggered+outer', 'ladder', 'ladder_cross', 'overlap2',
                    'clover', 'clover_b', 'interlock', 'interlock_b')

def sample_orders(rng, n, k):
    base = [list(range(n)), list(range(n - 1, -1, -1))]
    while len(base) < k:
        o = list(range(n)); rng.shuffle(o); base.append(o)
    return base[:k]

def structured_cases(rng, tier):
    quick = tier == 'quick'
    cases = []
    for n in ([3, 4, 5, 6] if quick else [2, 3, 4, 5, 6, 7, 8]):
        for name, pairs in family_flowsheets(rng, n):
            pri = priority(name)
            fvs = feed_variants(n)
            if n >= 4: fvs = fvs[:3] if pri else [rng.choice(fvs[:3]), fvs[3]]
            full = n <= 3 or (pri and n <= (4 if quick else 5))
            seen = set()
            for feeds in fvs:
                prods = {n - 1} | ({rng.randrange(n)} if rng.random() < 0.5 else set())
                fs = mk_flowsheet(n, pairs, set(feeds), prods)
                if fs is None or str(fs) in seen: continue
                seen.add(str(fs))
                if full:
                    orders = [list(o) for o in itertools.permutations(range(n))]
                elif quick:
                    orders = sample_orders(rng, n, (24 if name.startswith(('clover', 'interlock')) else 6) if pri else 3)
                else:
                    orders = sample_orders(rng, n, 40 if pri else 8)
                for o in orders:
                    cases.append({'kind': 'net', **fs, 'order': o, 'family': name})
    return cases

def permute_ports(rng, fs):
    """same flowsheet with the inlet and outlet ports of every unit in a random order (the walk of fill_path
    follows the last outlets first and keeps its path along the first one, so port order matters)"""
    n = fs['n']
    po = [rng.sample(range(k), k) for k in fs['nout']]
    pi = [rng.sample(range(k), k) for k in fs['nin']]
    return {**fs, 'edges': [[u, po[u][op], v, pi[v][ip]] for u, op, v, ip in fs['edges']]}

def parallel_loop(rng):
    """a recycle loop head -> (branch A | branch B) -> tail -> head whose branches are chains of 1-3 units, with
    optional skip streams inside a branch and side exits (a chain of 0-2 units ending in a product): the linear path
    fragments found by fill_path then cover the loop in several pieces, in an order that depends on branch lengths"""
    for _ in range(50):
        a, b = rng.randint(1, 3), rng.randint(1, 3)
        head = 0
        A = list(range(1, 1 + a)); B = list(range(1 + a, 1 + a + b)); tail = 1 + a + b
        n = tail + 1
        pairs = [(head, A[0]), (head, B[0])] + [(A[i], A[i + 1]) for i in range(a - 1)] + [(B[i], B[i + 1]) for i in range(b - 1)]
        pairs += [(A[-1], tail), (B[-1], tail), (tail, head)]
        for br in (A, B):
            if len(br) >= 2 and rng.random() < 0.5:
                i = rng.randrange(len(br) - 1); j = rng.randrange(i + 1, len(br))
                if j > i + 1 or rng.random() < 0.3: pairs.append((br[i], br[j]))
        prods = set()
        for _ in range(rng.randint(0, 2)):
            c = rng.randint(0, 2)
            if n + c > 10: continue
            src = rng.choice(A + B + [head])
            if c == 0:
                prods.add(src)
            else:
                side = list(range(n, n + c)); n += c
                pairs += [(src, side[0])] + [(side[i], side[i + 1]) for i in range(c - 1)]
                prods.add(side[-1])
                if rng.random() < 0.3: pairs.append((side[-1], rng.choice(A + B + [tail])))   # the side chain returns
        if not prods or rng.random() < 0.4: prods.add(tail)
        feeds = {head} | ({rng.randrange(n)} if rng.random() < 0.4 else set())
        rng.shuffle(pairs)
        lab = list(range(n)); rng.shuffle(lab)
        fs = mk_flowsheet(n, pairs, feeds, prods, relabel=lab)
        if fs is not None and well_formed(fs):
            return permute_ports(rng, fs)
    return None

def gen_cases(rng, tier):
    quick = tier == 'quick'
    cases = []
    # --- from_units certificates
    n_net = 170 if quick else 2500
    for _ in range(n_net):
        n = rng.randint(2, 10)
        fs = gen_flowsheet(rng, n, rng.random() < 0.55)
        order = list(range(n)); rng.shuffle(order)
        cases.append({'kind': 'net', **fs, 'order': order})
    # every permutation of the unit list of one flowsheet
    for n, reps in ([(2, 2), (3, 3), (4, 2)] if quick else [(2, 4), (3, 8), (4, 8), (5, 4), (6, 1)]):
        for _ in range(reps):
            fs = gen_flowsheet(rng, n, rng.random() < 0.5)
            for order in itertools.permutations(range(n)):
                cases.append({'kind': 'net', **fs, 'order': list(order)})
    # --- loops with parallel branches (several linear fragments per loop)
    for k in range(150 if quick else 1500):
        fs = parallel_loop(rng)
        while fs is None or (k % 3 and fs['n'] < 8):     # two thirds with at least 8 units
            fs = parallel_loop(rng)
        for o in sample_orders(rng, fs['n'], 2):
            cases.append({'kind': 'net', **fs, 'order': o, 'family': 'parallel_loop'})
    # --- structured families, every ordering of the unit list for the small ones
    cases += structured_cases(rng, tier)
    # --- Network.sort on nested paths: from_units result with every level shuffled, sorted again
    n_ns = 120 if quick else 1500
    for _ in range(n_ns):
        n = rng.randint(3, 10)
        fs = gen_flowsheet(rng, n, rng.random() < 0.85)
        order = list(range(n)); rng.shuffle(order)
        if rng.random() < 0.75:
            ends = 'recycle_ends'
        else:
            out_sid, in_sid, src, dst = stream_table(fs)
            ends = [k for k in sorted(src) if rng.random() < 0.3]
        cases.append({'kind': 'nsort', **fs, 'order': order, 'shuffle': rng.randrange(10 ** 6), 'ends': ends})
    # --- Network.sort on flat paths
    n_sort = 140 if quick else 2500
    for _ in range(n_sort):
        n = rng.randint(2, 10)
        r = rng.random()
        fs = gen_flowsheet(rng, n, r < 0.4)
        out_sid, in_sid, src, dst = stream_table(fs)
        pe = process_edges(fs)
        sids = sorted(src)
        mode = rng.random()
        if mode < 0.35:
            ends = []
        elif mode < 0.6:
            ends = [s for s in sids if rng.random() < 0.25]
        else:
            # products plus a set of streams cutting every cycle (what from_units passes), sometimes incomplete
            ends = [s for s in sids if dst[s] is None]
            cut = []
            while is_cyclic(fs, cut):
                cand = [s for s, u, v in pe if s not in cut and (u in closure(succ_map(fs, cut), v) or u == v)]
                cut.append(rng.choice(cand))
            if cut and rng.random() < 0.3: cut.pop(rng.randrange(len(cut)))
            ends += cut
        path = list(range(n)); rng.shuffle(path)
        if rng.random() < 0.15 and n > 2:
            path = path[:rng.randint(2, n - 1)]
        elif rng.random() < 0.06:
            path.insert(rng.randrange(len(path) + 1), rng.choice(path))   # malformed: a unit listed twice
        cases.append({'kind': 'sort', **fs, 'path': path, 'ends': sorted(ends)})
    # --- whole methods called directly: receiver = from_units(part A), argument = from_units(part B) of one flowsheet
    for k in range(160 if quick else 2500):
        n = rng.randint(3, 10)
        fs = gen_flowsheet(rng, n, rng.random() < 0.85)
        cyc = find_cycle(fs)
        r = rng.random()
        if cyc and len(cyc) < n and r < 0.35: B = set(cyc)
        elif cyc and len(cyc) < n and r < 0.6: B = set(range(n)) - set(cyc)
        else: B = set(rng.sample(range(n), rng.randint(1, n - 1)))
        A = [u for u in range(n) if u not in B]
        rng.shuffle(A); Bl = sorted(B); rng.shuffle(Bl)
        E = process_edges(fs)
        conn = [v for s_, u, v in E if u in B and v in A]
        r = rng.random()
        unit = rng.choice(conn) if conn and r < 0.6 else rng.choice(A) if r < 0.9 else rng.choice(Bl)
        cases.append({'kind': 'whole', **fs, 'A': A, 'B': Bl, 'unit': unit, 'op': 'append' if k % 4 == 0 else 'join'})
    return cases

# ------------------------------------------------------------------ implementation side
def build(case):
    nw = env()['nw']
    out_sid, in_sid, src, dst = stream_table(case)
    streams = {s: nw.AbstractStream(f'.s{s}') for s in src}
    units = []
    with warnings.catch_warnings():
        warnings.simplefilter('ignore')
        for u in range(case['n']):
            units.append(unit_class(case['nin'][u], case['nout'][u])(
                f'.u{u}', ins=[streams[s] for s in in_sid[u]], outs=[streams[s] for s in out_sid[u]]))
    for s in src:   # the flowsheet really is the graph of the case
        assert streams[s]._source is (units[src[s]] if src[s] is not None else None)
        assert streams[s]._sink is (units[dst[s]] if dst[s] is not None else None)
    for u in range(case['n']):
        assert [x for x in units[u].ins] == [streams[s] for s in in_sid[u]]
        assert [x for x in units[u].outs] == [streams[s] for s in out_sid[u]]
    return units, streams

def recycle_ids(r, sid):
    if r is None: return []
    if hasattr(r, 'sink'): return [sid[r]]
    return sorted(sid[i] for i in r)

def net_tree(net, uid, sid):
    nw = env()['nw']
    return {'path': [net_tree(i, uid, sid) if isinstance(i, nw.Network) else uid[i] for i in net.path],
            'recycle': recycle_ids(net.recycle, sid)}

# ---- path surgery: every call of a modelled method that is not nested in another modelled call
SURGERY = ['_remove_overlap', '_append_linear_network', '_insert_linear_network', '_add_linear_network',
           'join_linear_network', 'join_recycle_network', '_insert_recycle_network']

def utree(x, uid, sid):
    """Network as data with its `units` attribute kept apart from the path"""
    nw = env()['nw']
    if not isinstance(x, nw.Network): return uid[x]
    return {'path': [utree(i, uid, sid) for i in x.path], 'recycle': recycle_ids(x.recycle, sid),
            'units': sorted(uid[u] for u in x.units)}

# whole methods of the multi-feed phase (part 7 of the model): recorded whenever they are not nested in themselves;
# they are transparent for the recording of the SURGERY calls they make
OUTER = ['join_network_at_unit', '_append_network', 'reduce_recycles']

def sets_ok(x):
    """a recycle is a set exactly when it holds at least two streams, at every level (what the model of reduce_recycles assumes)"""
    nw = env()['nw']
    r = x.recycle
    ok = (len(r) >= 2) if isinstance(r, set) else True
    return ok and all(sets_ok(i) for i in x.path if isinstance(i, nw.Network))

class SurgeryRecorder:
    def __init__(self, uid, sid):
        self.uid, self.sid, self.depth, self.steps, self.sinks = uid, sid, 0, [], []
        self.odepth, self.osteps, self.ocur = 0, [], None
    def __enter__(self):
        nw = env()['nw']; N = nw.Network
        self.saved = {m: getattr(N, m) for m in SURGERY}
        self.saved_sink = N.recycle_sink
        rec = self
        def wrap(name, orig):
            def f(self_, *a):
                top = rec.depth == 0
                if top:
                    st = {'op': name, 'self': utree(self_, rec.uid, rec.sid), 'args': [rec.arg(x) for x in a], 'sinks': []}
                    rec.cur = st
                rec.depth += 1
                try:
                    r = orig(self_, *a)
                    if top: st['after'] = utree(self_, rec.uid, rec.sid)
                    return r
                except ValueError:
                    if top: st['after'] = None
                    raise
                finally:
                    rec.depth -= 1
                    if top: rec.steps.append(st)
            return f
        for m in SURGERY: setattr(N, m, wrap(m, self.saved[m]))
        self.osaved = {m: getattr(N, m) for m in OUTER}
        def owrap(name, orig):
            def f(self_, *a):
                top = rec.odepth == 0
                if top:
                    st = {'op': name, 'self': utree(self_, rec.uid, rec.sid), 'sinks': [], 'sets_ok': sets_ok(self_),
                          'args': [rec.arg(x) if isinstance(x, N) else rec.uid[x] for x in a]}
                    rec.ocur = st
                rec.odepth += 1
                try:
                    r = orig(self_, *a)
                    if top:
                        st['after'] = utree(self_, rec.uid, rec.sid)
                        st['args_after'] = [rec.arg(x) for x in a if isinstance(x, N)]
                    return r
                except (ValueError, AttributeError):
                    if top: st['after'] = None
                    raise
                finally:
                    rec.odepth -= 1
                    if top: rec.osteps.append(st)
            return f
        for m in OUTER: setattr(N, m, owrap(m, self.osaved[m]))
        sink0 = self.saved_sink.fget
        def recycle_sink(self_):
            r = sink0(self_)
            rc = self_.recycle
            if rec.depth > 0 and isinstance(rc, set) and len(rc) > 1:
                rec.cur['sinks'].append([sorted(rec.sid[i] for i in rc), 99 if r is None else rec.uid[r]])
            if rec.odepth > 0 and isinstance(rc, set) and len(rc) > 1:
                rec.ocur['sinks'].append([sorted(rec.sid[i] for i in rc), 99 if r is None else rec.uid[r]])
            return r
        N.recycle_sink = property(recycle_sink)
        return self
    def arg(self, x):
        nw = env()['nw']
        if isinstance(x, nw.Network): return utree(x, self.uid, self.sid)
        if isinstance(x, (tuple, list)): return [utree(i, self.uid, self.sid) for i in x]
        if isinstance(x, int): return x
        return utree(x, self.uid, self.sid)
    def __exit__(self, *a):
        N = env()['nw'].Network
        for m in SURGERY: setattr(N, m, self.saved[m])
        for m in OUTER: setattr(N, m, self.osaved[m])
        N.recycle_sink = self.saved_sink

def units_consistent(net):
    """Network.units equals the set of units in the path, for the network and every sub-network"""
    nw = env()['nw']
    def fl(n):
        out = []
        for i in n.path: out += fl(i) if isinstance(i, nw.Network) else [i]
        return out
    return set(net.units) == set(fl(net)) and all(units_consistent(i) for i in net.path if isinstance(i, nw.Network))

def observe_sort_before(net, ends, uid, sid):
    nw = env()['nw']
    return {'before': net_tree(net, uid, sid), 'ends': sorted(sid[s] for s in ends if s in sid),
            'down': [sorted(uid[x] for x in nw.PathSource(i, ends).units) for i in net.path],
            'units_ok': units_consistent(net)}

def clean_joins(joins):
    return [{'loops': j['loops'], 'calls': j['calls'], 'ok': j['ok']} for j in joins if j['loops']]

WARN = 'network path could not be determined'

def run_impl(case):
    nw = env()['nw']
    units, streams = build(case)
    uid = {u: k for k, u in enumerate(units)}
    sid = {s: k for k, s in streams.items()}
    if case['kind'] == 'net':
        # observe (without changing) the loop-joining phase of every from_feedstock invocation:
        # the loops found by fill_path and the top-level join_recycle_network calls, in order
        joins, depth = [], [0]
        find0, join0 = nw.find_linear_and_cyclic_paths_with_recycle, nw.Network.join_recycle_network
        finds = []
        def find(feed, ends, units_):
            before = sorted(sid[x] for x in ends if x in sid)
            r = find0(feed, ends, units_)
            if feed in sid:
                finds.append({'feed': sid[feed], 'ends': before, 'ends_after': sorted(sid[x] for x in ends if x in sid),
                              'linear': [[uid[u] for u in p] for p in r[0]],
                              'cyclic': [[[uid[u] for u in p], sid[rc]] for p, rc in r[1]]})
            joins.append({'loops': [[uid[u] for u in p] for p, _ in r[1]], 'paths': [p for p, _ in r[1]],
                          'calls': [], 'ok': True})
            return r
        def join(self, network):
            top = depth[0] == 0 and joins
            if top:
                rec = joins[-1]
                k = [i for i, p in enumerate(rec['paths']) if p is network.path]
                rec['calls'].append([k[0] if k else -1, sorted(uid[u] for u in self.units)])
            depth[0] += 1
            try:
                return join0(self, network)
            except Exception:
                if top: rec['ok'] = False
                raise
            finally:
                depth[0] -= 1
        sorts, sdepth, sort0 = [], [0], nw.Network.sort
        def sort(self, ends):
            top = sdepth[0] == 0
            if top:
                rec = observe_sort_before(self, ends, uid, sid)
                n_before = len(w)
            sdepth[0] += 1
            try:
                return sort0(self, ends)
            finally:
                sdepth[0] -= 1
                if top:
                    rec['after'] = net_tree(self, uid, sid)
                    rec['ok'] = not any(WARN in str(x.message) for x in w[n_before:])
                    sorts.append(rec)
        nw.find_linear_and_cyclic_paths_with_recycle, nw.Network.join_recycle_network = find, join
        nw.Network.sort = sort
        surgery = SurgeryRecorder(uid, sid)
        try:
            with surgery, warnings.catch_warnings(record=True) as w:
                warnings.simplefilter('always')
                try:
                    net = nw.Network.from_units([units[k] for k in case['order']])
                except Exception as ex:
                    return {'raised': type(ex).__name__ + ': ' + str(ex)[:80], 'joins': clean_joins(joins),
                            'steps': surgery.steps, 'finds': finds, 'osteps': surgery.osteps}
        finally:
            nw.find_linear_and_cyclic_paths_with_recycle, nw.Network.join_recycle_network = find0, join0
            nw.Network.sort = sort0
        return {'tree': net_tree(net, uid, sid),
                'all_recycles': sorted(sid[s] for s in net.get_all_recycles()),
                'warned': any(WARN in str(x.message) for x in w), 'joins': clean_joins(joins), 'sorts': sorts,
                'steps': surgery.steps, 'finds': finds, 'osteps': surgery.osteps}
    if case['kind'] == 'whole':
        # the whole methods called directly on two from_units results (rebuilt so that a recycle is a set exactly when
        # it holds at least two streams), followed by reduce_recycles on the receiver
        with warnings.catch_warnings():
            warnings.simplefilter('ignore')
            try:
                a = nw.Network.from_units([units[k] for k in case['A']])
                b = nw.Network.from_units([units[k] for k in case['B']])
            except Exception as ex:
                return {'skipped': type(ex).__name__, 'osteps': []}
        def norm(rc):
            if isinstance(rc, set): return set(rc) if len(rc) >= 2 else next(iter(rc), None)
            return rc
        def rebuild(x):
            r = nw.Network([rebuild(i) if isinstance(i, nw.Network) else i for i in x.path], norm(x.recycle))
            r.units = set(x.units)
            return r
        a, b = rebuild(a), rebuild(b)
        surgery = SurgeryRecorder(uid, sid)
        with surgery:
            try:
                if case['op'] == 'append': a._append_network(b)
                else: a.join_network_at_unit(b, units[case['unit']])
                a.reduce_recycles()
            except (ValueError, AttributeError):
                pass
        return {'osteps': surgery.osteps}
    if case['kind'] == 'nsort':
        # the nested result of from_units, every level shuffled, sorted again by the real Network.sort
        import random
        with warnings.catch_warnings():
            warnings.simplefilter('ignore')
            net = nw.Network.from_units([units[k] for k in case['order']])
        r = random.Random(case['shuffle'])
        def rebuild(n):
            items = [rebuild(i) if isinstance(i, nw.Network) else i for i in n.path]
            r.shuffle(items)
            return nw.Network(items, set(n.recycle) if isinstance(n.recycle, set) else n.recycle)
        net = rebuild(net)
        if case['ends'] == 'recycle_ends':
            ends = set(net.get_all_recycles()) | {s for s in streams.values() if s._sink is None}
        else:
            ends = {streams[k] for k in case['ends']}
        with warnings.catch_warnings(record=True) as w:
            warnings.simplefilter('always')
            rec = observe_sort_before(net, ends, uid, sid)
            net.sort(ends)
        rec['after'] = net_tree(net, uid, sid)
        rec['ok'] = not any(WARN in str(x.message) for x in w)
        return {'sorts': [rec]}
    ends = {streams[s] for s in case['ends']}
    path = [units[k] for k in case['path']]
    down = [sorted(uid[x] for x in nw.PathSource(u, ends).units) for u in path]
    net = nw.Network(list(path))
    with warnings.catch_warnings(record=True) as w:
        warnings.simplefilter('always')
        net.sort(ends)
    return {'path': [uid[u] for u in net.path], 'recycle': recycle_ids(net.recycle, sid),
            'stop': not any(WARN in str(x.message) for x in w), 'down': down}

# ------------------------------------------------------------------ model side
def nl(xs):
    return clist(xs, str)

def cedges(case, cut=()):
    return clist([f'({s}, {u}, {v})' for s, u, v in process_edges(case)])

def ctree(t):
    return '(INet ' + clist([ctree(i) if isinstance(i, dict) else f'(IUnit {i})' for i in t['path']]) + ' ' + nl(t['recycle']) + ')'

def flat(tree):
    out = []
    for i in tree['path']:
        out += flat(i) if isinstance(i, dict) else [i]
    return out

def subnets(tree):
    out = [(flat(tree), tree['recycle'])]
    for i in tree['path']:
        if isinstance(i, dict): out += subnets(i)
    return out

def strict_on_path(case):
    """downstream reachability (streams in `ends` cut) is irreflexive and transitive on the items of the path"""
    sm = succ_map(case, set(case['ends']))
    p = case['path']
    down = {a: closure(sm, a) for a in p}
    return (all(a not in down[a] for a in p) and
            all(c in down[a] for a in p for b in p for c in p if b in down[a] and c in down[b]))

def call(case):
    """every stream with its source and sink unit; 99 (= nounit) for a missing end"""
    out_sid, in_sid, src, dst = stream_table(case)
    none = lambda x: 99 if x is None else x
    return clist([f'({k}, {none(src[k])}, {none(dst[k])})' for k in sorted(src)])

def sort_term(case, r):
    return (f'({cbool(r["units_ok"])} && nsort_case {cedges(case)} {call(case)} {nl(r["ends"])} {ctree(r["before"])} '
            f'{ctree(r["after"])} {cbool(r["ok"])} {clist(r["down"], nl)})')

def cnet(t):
    if not isinstance(t, dict): return f'(NU {t})'
    return '(NN ' + clist([cnet(i) for i in t['path']]) + f' {nl(t["recycle"])} {nl(t["units"])})'

def step_term(case, st):
    """the model of the surgery method, run on the recorded receiver and arguments, gives the recorded result"""
    a, S = st['args'], cnet(st['self'])
    op = st['op']
    if op == '_remove_overlap': c = f'SRemoveOverlap {S} {nl(a[0]["units"])} {clist([cnet(i) for i in a[1]])}'
    elif op == '_append_linear_network': c = f'SAppendLinear {S} {cnet(a[0])}'
    elif op == '_insert_linear_network': c = f'SInsertLinear {S} {a[0]} {cnet(a[1])}'
    elif op == '_add_linear_network': c = f'SAddLinear {S} {cnet(a[0])}'
    elif op == 'join_linear_network': c = f'SJoinLinear {S} {cnet(a[0])}'
    elif op == 'join_recycle_network': c = f'SJoinRecycle {S} {cnet(a[0])}'
    else: c = f'SInsertRecycle {S} {a[0]} {cnet(a[1])} {clist([cnet(i) for i in a[2]])}'
    tbl, seen = [], {}
    for k, v in st['sinks']:
        if seen.setdefault(tuple(k), v) == v and [k, v] not in tbl: tbl.append([k, v])
    tb = clist([f'({nl(k)}, {v})' for k, v in tbl])
    after = 'None' if st['after'] is None else f'(Some {cnet(st["after"])})'
    return f'step_case {cedges(case)} {call(case)} {tb} ({c}) {after}'

def ostep_term(case, st, post=True):
    """the model of the whole method (join_network_at_unit / _append_network / reduce_recycles), run on the recorded
    receiver and arguments, gives the recorded receiver (and the recorded argument after the call)"""
    S, op, a = cnet(st['self']), st['op'], st['args']
    if op == 'reduce_recycles':
        after = 'None' if st['after'] is None else f'(Some {cnet(st["after"])})'
        return f'({cbool(st["sets_ok"])} && reduce_case {call(case)} {S} {after})'
    if op == '_append_network':
        if st['after'] is None: return 'false'
        return f'append_network_case {cbool(post)} {S} {cnet(a[0])} {cnet(st["after"])}'
    tbl, seen = [], {}
    for k, v in st['sinks']:
        if seen.setdefault(tuple(k), v) == v and [k, v] not in tbl: tbl.append([k, v])
    tb = clist([f'({nl(k)}, {v})' for k, v in tbl])
    after = 'None' if st['after'] is None else f'(Some ({cnet(st["after"])}, {cnet(st["args_after"][0])}))'
    return f'join_at_case {cbool(post)} {cedges(case)} {call(case)} {tb} {S} {cnet(a[0])} {a[1]} {after}'

def steps_consistent(st):
    seen = {}
    return all(seen.setdefault(tuple(k), v) == v for k, v in st['sinks'])

def find_term(case, f):
    """the model of fill_path / simplified_linear_paths gives exactly the observed linear fragments, loops and ends"""
    cyc = clist([f'({nl(p)}, {rc})' for p, rc in f['cyclic']])
    return (f'paths_case {call(case)} {f["feed"]} {nl(f["ends"])} {clist(f["linear"], nl)} {cyc} {nl(f["ends_after"])}')

def join_term(j):
    """the model of from_feedstock's loop-join order gives exactly the observed calls (loop position, network units before)"""
    n0 = j['calls'][0][1] if j['calls'] else []
    calls = clist([f'({k}, {nl(N)})' for k, N in j['calls']])
    return f'join_case {nl(n0)} {clist(j["loops"], nl)} {calls} {cbool(j["ok"])}'

def coq_case(case, out):
    if case['kind'] == 'sort':
        return (f'(sort_case {cedges(case)} {nl(case["ends"])} {nl(case["path"])} {nl(out["path"])} '
                f'{cbool(out["stop"])} {nl(out["recycle"])} {clist(out["down"], nl)} {cbool(strict_on_path(case))})')
    if case['kind'] == 'whole':
        return ' && '.join(ostep_term(case, st, post=False) for st in out['osteps'] if steps_consistent(st)) or 'true'
    if case['kind'] == 'nsort':
        return sort_term(case, out['sorts'][0])
    jt = ' && '.join([join_term(j) for j in out.get('joins', [])] + [sort_term(case, r) for r in out.get('sorts', [])]
                     + [step_term(case, st) for st in out.get('steps', []) if steps_consistent(st)]
                     + [find_term(case, f) for f in out.get('finds', [])]
                     + [ostep_term(case, st) for st in out.get('osteps', []) if steps_consistent(st)]) or 'true'
    if 'raised' in out:
        return f'({jt} && false)'
    t = ctree(out['tree'])
    term = (f'(check {nl(case["order"])} {cedges(case)} {t} {nl(find_cycle(case))} '
            f'&& list_eqb Nat.eqb (flat {t}) {nl(flat(out["tree"]))} '
            f'&& set_eqb (all_recycles {t}) {nl(out["all_recycles"])} && {jt})')
    return term

def coq_show(case, out):
    if case['kind'] == 'whole': return 'tt'
    if case['kind'] == 'nsort' or (out.get('sorts') and not out.get('tree')):
        r = out['sorts'][0]
        return f'(sort_tree {cedges(case)} {call(case)} {nl(r["ends"])} {ctree(r["before"])}, map (down_item {cedges(case)} {nl(r["ends"])}) {clist([ctree(i) if isinstance(i, dict) else f"(IUnit {i})" for i in r["before"]["path"]])})'
    if case['kind'] == 'sort':
        return (f'(sort_graph {cedges(case)} {nl(case["ends"])} {nl(case["path"])}, '
                f'map (downstream {cedges(case)} {nl(case["ends"])}) {nl(case["path"])})')
    if 'raised' in out: return 'tt'
    t = ctree(out['tree'])
    return f'(check_acyclic {nl(case["order"])} {cedges(case)} {t}, check_cyclic {nl(case["order"])} {cedges(case)} {t} {nl(find_cycle(case))}, flat {t}, all_recycles {t})'

def nontrivial(case, out):
    if case['kind'] == 'whole': return bool(out['osteps'])
    if case['kind'] == 'nsort':
        r = out['sorts'][0]
        return r['before'] != r['after']
    if case['kind'] == 'sort':
        return out.get('path') != case['path'] or bool(out.get('recycle'))
    return 'tree' in out and case['n'] >= 3

def classify(case, out):
    ks = ['kind:' + case['kind'], f'units:{case["n"]}', 'graph:' + ('cyclic' if is_cyclic(case) else 'acyclic')]
    if 'family' in case: ks.append('family:' + case['family'].rstrip('0123456789'))
    for f in out.get('finds', []):
        ks.append(f'paths:fragments{min(len(f["linear"]), 4)}')
        ks.append(f'paths:loops{min(len(f["cyclic"]), 4)}')
    for st in out.get('steps', []):
        ks.append('step:' + st['op'])
        if st['after'] is None: ks.append('step:raised')
        if st['sinks']: ks.append('step:recycle-set-sink-oracle')
        if not steps_consistent(st): ks.append('step:oracle-inconsistent-skipped')
    for st in out.get('osteps', []):
        ks.append('whole:' + st['op'])
        if st['after'] is None: ks.append('whole:raised'); continue
        if st['op'] == 'reduce_recycles':
            if st['after'] != st['self']: ks.append('whole:reduce-changed')
            if len(st['after']['path']) != len(st['self']['path']): ks.append('whole:reduce-lifted-single-child')
        elif st['op'] == 'join_network_at_unit':
            n, u = st['args'][0], st['args'][1]
            ks.append('whole:join_at-' + ('recycle-arg' if n['recycle'] else 'linear-arg') + '-' +
                      ('unit-at-top' if u in st['self']['path'] else
                       'unit-nested' if u in st['self']['units'] else 'unit-absent'))
            if st['args_after'][0] != n: ks.append('whole:join_at-argument-mutated')
        else:
            n = st['args'][0]
            ks.append('whole:append-' + ('rc' if st['self']['recycle'] else 'lin') + '-' + ('rc' if n['recycle'] else 'lin'))
    for r in out.get('sorts', []):
        depth = lambda t: 1 + max([depth(i) for i in t['path'] if isinstance(i, dict)] or [0])
        ks.append(f'nsort:depth{depth(r["before"])}')
        ks.append('nsort:' + ('moved' if [str(i) for i in r['before']['path']] != [str(i) for i in r['after']['path']] else 'top-level-unchanged'))
        if not r['ok']: ks.append('nsort:warned')
        if sorted(subnets(r['after'])) != sorted(subnets(r['before'])): ks.append('nsort:subnet-changed')
    if case['kind'] in ('nsort', 'whole'): return ks
    if case['kind'] == 'sort':
        ks.append('sort:reach-' + ('strict-order' if strict_on_path(case) else 'cyclic'))
        ks.append('sort:' + ('moved' if out.get('path') != case['path'] else 'already-ordered'))
        if out.get('recycle'): ks.append('sort:recycle-added')
        if out.get('stop') is False: ks.append('sort:warned')
        if len(set(case['path'])) < case['n']: ks.append('sort:sub-path')
        if len(set(case['path'])) < len(case['path']): ks.append('sort:unit-listed-twice')
        if any(u == v for s, u, v in process_edges(case)): ks.append('graph:self-loop')
    else:
        if 'raised' in out:
            ks.append('net:raised')
        else:
            depth = lambda t: 1 + max([depth(i) for i in t['path'] if isinstance(i, dict)] or [0])
            ks.append(f'net:depth{depth(out["tree"])}')
            ks.append(f'net:recycles{min(len(out["all_recycles"]), 4)}')
            if out.get('warned'): ks.append('net:warned')
        for j in out.get('joins', []):
            ks.append(f'join:loops{min(len(j["loops"]), 5)}')
            if [k for k, _ in j['calls']] != list(range(len(j['calls']))): ks.append('join:reordered')
        if any(u == v for s, u, v in process_edges(case)): ks.append('graph:self-loop')
        out_sid, in_sid, src, dst = stream_table(case)
        ks.append(f'feeds:{min(sum(1 for s in src if src[s] is None), 4)}')
        ks.append(f'products:{min(sum(1 for s in src if dst[s] is None), 4)}')
    return ks

# ------------------------------------------------------------------ direct oracle: the C19 clauses on the real output
def verdict(case, out):
    if case['kind'] == 'whole': return None      # direct calls of the methods: the property speaks about from_units only
    if case['kind'] == 'nsort':
        r = out['sorts'][0]
        if sorted(flat(r['after'])) != sorted(flat(r['before'])):
            return f'nsort: units changed by sort: {flat(r["before"])} -> {flat(r["after"])}'
        if not r['units_ok']: return 'nsort: Network.units differs from the units of the path'
        return None
    if case['kind'] == 'sort':
        if sorted(out['path']) != sorted(case['path']):
            return f'sort: result {out["path"]} is not a permutation of {case["path"]}'
        cut = set(case['ends'])
        if strict_on_path(case):
            sm = succ_map(case, cut)
            p = out['path']
            for i in range(len(p)):
                for j in range(i + 1, len(p)):
                    if p[i] in closure(sm, p[j]):
                        return f'sort: unit {p[i]} placed before {p[j]} that feeds it: {p}'
            if out['recycle']: return f'sort: recycle {out["recycle"]} reported for an acyclic path'
            if not out['stop']: return 'sort: warning "path could not be determined" on an acyclic path'
        return None
    if 'raised' in out:
        return f'raised: from_units raised {out["raised"]}'
    n = case['n']
    f = flat(out['tree'])
    if set(f) != set(range(n)):
        return f'units: path does not contain exactly the given units: {f}'
    if len(f) != n:
        return f'duplicate: a unit appears more than once in the path: {f}'
    pos = {u: i for i, u in enumerate(f)}
    E = process_edges(case)
    if not is_cyclic(case):
        for s, u, v in E:
            if pos[u] >= pos[v]: return f'order: unit {v} is placed before unit {u} that feeds it: {f}'
        if out['all_recycles']: return f'recycle: recycle {out["all_recycles"]} reported for an acyclic flowsheet'
        if out['warned']: return 'warned: "path could not be determined" on an acyclic flowsheet'
    else:
        if not out['all_recycles']: return f'norecycle: cyclic flowsheet but no recycle reported: {out["tree"]}'
        subs = [(set(m), r) for m, r in subnets(out['tree']) if r]
        for s, u, v in E:
            if pos[u] >= pos[v] and not any(u in m and v in m for m, r in subs):
                return f'backward: stream {s} ({u}->{v}) runs against the path order outside any recycle loop: {out["tree"]}'
    return None

def oracle(case):
    return verdict(case, run_impl(case))

def finding_key(case, msg):
    return 'C19:' + case['kind'] + ':' + msg.split(':')[0]

# minimised past failures of Network.from_units (pending_fixes/C19_1..3); they run first on every check
def search_cases(rng, tier):
    """extra flowsheets used only when something broke, to find a concrete failing input: loops with parallel
    branches and at least 8 units (several linear fragments per loop)"""
    cases = []
    for _ in range(4000):
        fs = parallel_loop(rng)
        if fs is None or fs['n'] < 8: continue
        cases.append({'kind': 'net', **fs, 'order': list(range(fs['n'])), 'family': 'parallel_loop'})
    for _ in range(1500):
        n = rng.randint(6, 10)
        fs = gen_flowsheet(rng, n, True)
        o = list(range(n)); rng.shuffle(o)
        cases.append({'kind': 'net', **fs, 'order': o})
    return cases

CORPUS = [
    # a unit fed by two loops: the unit was listed outside and inside the recycle network (C19_1)
    {'kind': 'net', 'n': 3, 'nin': [2, 2, 1], 'nout': [3, 1, 1],
     'edges': [[0, 0, 1, 0], [0, 1, 2, 0], [1, 0, 0, 0], [2, 0, 0, 1]], 'order': [0, 1, 2]},
    # same loops, product on the fed unit: ValueError 'networks must have units in common to join' (C19_2)
    {'kind': 'net', 'n': 3, 'nin': [2, 2, 1], 'nout': [2, 2, 1],
     'edges': [[0, 0, 1, 0], [0, 1, 2, 0], [1, 0, 0, 0], [2, 0, 0, 1]], 'order': [0, 1, 2]},
    # three interlocking loops: a sub-network merged into an inserted loop stayed in the path (C19_3)
    {'kind': 'net', 'n': 5, 'nin': [1, 1, 1, 2, 3], 'nout': [1, 2, 1, 2, 2],
     'edges': [[3, 0, 1, 0], [1, 1, 0, 0], [4, 0, 3, 0], [4, 1, 2, 0], [0, 0, 3, 1], [2, 0, 4, 1], [3, 1, 4, 2]],
     'order': [2, 4, 3, 1, 0]},
    # chain u0->u1->u2->u3 with returns u1->u0, u2->u1, u3->u2, feeds at u0 and u3, u3 supplied first: three loops
    # chained A-B-C of which only one touches the linear network; needs the overlap re-check before *each* join
    {'kind': 'net', 'n': 4, 'nin': [2, 2, 2, 2], 'nout': [1, 2, 2, 3],
     'edges': [[0, 0, 1, 0], [1, 0, 2, 0], [2, 0, 3, 0], [1, 1, 0, 0], [2, 1, 1, 1], [3, 1, 2, 1]], 'order': [3, 0, 1, 2]},
]
WITNESSES = []
