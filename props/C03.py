"""C03 — phase equilibrium never creates, destroys or makes negative any material.
Correspondence harness (stubbed solvers, real solvers replayed), generators, direct oracle."""
import sys, types, random, os
# numba's on-disk cache next to /repo's sources is shared by concurrently running checks (ReferenceError 'underlying object has
# vanished' when an index is rewritten underneath): use a cache directory of this check's own (performance only)
os.environ.setdefault('NUMBA_CACHE_DIR', os.path.join(os.path.dirname(os.path.dirname(os.path.abspath(__file__))), '.cache', 'numba_C03'))
import numpy as np
from fractions import Fraction as F
from vf import q, qlist, clist, cbool, cnat, copt, frac, fr_json

ID = 'C03'
COQ_DIR = 'C03'
COQ_HEADER = 'From V Require Import Common.Num C03.Model C03.ModelVlle C03.ModelHist C03.ModelRx.\nOpen Scope Q_scope.'
CASE_TIMEOUT = 60
MODEL_FILES = ('Model.v', 'ModelVlle.v', 'ModelHist.v', 'ModelRx.v')
RULE = ('streams over a 7-chemical package (3 volatile, 2 gas-locked, 2 liquid/solid-locked with N_solutes 0 and 2) with 2-3 phases, '
        'random presence pattern and dyadic flows in l, g (and s), every specification pair of VLE.__call__ (T,P T,V T,H T,S T,x T,y P,V P,H P,S P,x P,y); '
        'stub stream: VLE._solve_v_fixed_point, flx.IQ_interpolation, BubblePoint.solve_Py/Ty, DewPoint.solve_Px/Tx, mixture.xH/xS/H/S/xsolve_T_at_HP/SP replaced '
        'from the harness by seeded table stubs incl. adversarial outputs (raw v outside [0, mol], bubble/dew on either side of the specification, f outside [0,1]); '
        'real stream: database mixtures with the real solvers, every oracle output recorded and replayed through the model; LLE.__call__ write-back with stubbed '
        'solver / phase_fraction (fresh and cached branch, top_chemical swap); SLE._update_solubility, given-solubility call and single-chemical T branch; '
        'Stream.vlle with every VLE / LLE solver stubbed and flx.fixed_point replaced by plain iteration a seeded number of times (whole L/g/l array, T, P or the raise). '
        'histories with a REACTIVE flash (gas_conversion= / liquid_conversion= with a seeded reaction among the volatile chemicals, real solvers) as an '
        'uncompared set-up step on the same stream, followed by ordinary flashes (stubbed and real) that are compared with the model of a call on an '
        'object that remembers the observed _dmol_vle (ModelRx.v), and _dmol_vle before / after each ordinary call; '
        'Not compared (counted): calls in which a real solver itself raised; exact ties decided by float rounding are kept out of the generators. '
        'Compared: the whole phase x chemical array, T, P, exception class, state at the raise, number of oracle calls (values 1e-9 relative, structure exact). '
        'non-trivial = the call changed the phase x chemical array or raised after mutating; distinct = distinct case hash')
ASSUMPTIONS = ['float rounding, nan/inf are not modelled (values compared to 1e-9 relative)',
               'the reactive call itself (gas_conversion / liquid_conversion) is not modelled: in a history it is a step with an arbitrary outcome; '
               'ordinary calls that FOLLOW it on the same VLE object are modelled and compared',
               'oracle shape contract: solvers return vectors of the length of the equilibrium index (numpy would raise otherwise)',
               'method = fixed-point (the default); the shgo method of VLE._solve_v writes F_mol_vle * result.x without clipping and relies on scipy honouring its bounds',
               'lle_nonneg: 0 <= phi and K >= 0 in the cached branch, 0 <= result <= z for the solver branch (scipy bounds / pseudo-equilibrium formula, C15)',
               'vlle: flx.fixed_point only evaluates f at x0 and at values returned by f (plain iteration contract)']
TRUSTED = ['model coq/C03/Model.v is hand-written from thermosteam/equilibrium/{vle,lle,sle}.py and Stream.vlle; tie = correspondence check (stubbed + replayed)',
           'the use_cache test of LLE.__call__ and the top_chemical comparison are inputs of the LLE model (C15 owns them)',
           'K / V guesses stored by VLE._refresh_K feed only the solver oracle; the model keeps only the condition under which it raises']

# ------------------------------------------------------------------ environment
_env = {}
IDS = ['Water', 'Ethanol', 'Methanol', 'N2', 'CO2', 'Glucose', 'Salt_']
KINDS = ['KVle', 'KVle', 'KVle', 'KLight', 'KLight', 'KHeavy', 'KHeavy']
NSOL = [0, 0, 0, 0, 0, 0, 2]

def env():
    if not _env:
        import warnings
        warnings.filterwarnings('ignore')
        # numba cannot always pickle an overload that takes a function argument (dew_point.solve_x, gamma_iter): saving it to the
        # on-disk cache then raises ReferenceError('underlying object has vanished') out of the flash.  Saving is an optimisation
        # only: let it fail silently.
        import numba.core.caching as _nc
        if not getattr(_nc.Cache, '_verif_safe', False):
            _orig_save = _nc.Cache.save_overload
            def _safe_save(self, sig, data):
                try: _orig_save(self, sig, data)
                except ReferenceError: pass
            _nc.Cache.save_overload = _safe_save; _nc.Cache._verif_safe = True
        import thermosteam as tmo
        N2 = tmo.Chemical('N2', phase='g'); CO2 = tmo.Chemical('CO2', phase='g')
        Glu = tmo.Chemical('Glucose', phase='l', default=True)
        Salt = tmo.Chemical('Salt_', search_db=False, MW=58.5, phase='s', default=True, N_solutes=2)
        chems = tmo.Chemicals(['Water', 'Ethanol', 'Methanol', N2, CO2, Glu, Salt])
        tmo.settings.set_thermo(chems, cache=True)
        _env['tmo'] = tmo
        _env['thermo'] = tmo.settings.get_thermo()
        ch = tmo.settings.chemicals
        _env['MW'] = [float(x) for x in ch.MW]
        assert list(ch._light_indices) == [3, 4] and list(ch._heavy_indices) == [5, 6]
        assert [float(x) for x in ch._heavy_solutes] == [0., 2.]
        # second package for LLE / SLE
        ch2 = tmo.Chemicals(['Water', 'Ethanol', 'Octane', 'Hexane', N2, 'Tetradecanol'])
        _env['thermo2'] = tmo.Thermo(ch2, cache=True)
        c2 = _env['thermo2'].chemicals
        _env['IDS2'] = [c.ID for c in c2]
        _env['lle2'] = [i in c2._lle_index for i in range(len(c2))]
        _env['MW2'] = [float(x) for x in c2.MW]
        import thermosteam.equilibrium.vle as vm, thermosteam.equilibrium.lle as lm
        _env['vm'] = vm; _env['lm'] = lm
        # reactions among the three volatile chemicals, written over a package of exactly those (the conversion handle of /repo HEAD works on
        # the vector of the chemicals in equilibrium: Conversion.__call__ hands `material` to the reaction as it is)
        ch3 = tmo.Chemicals(['Water', 'Ethanol', 'Methanol']); ch3.compile(); _env['ch3'] = ch3
        from thermosteam.exceptions import NoEquilibrium, InfeasibleRegion
        _env['exc'] = [(NoEquilibrium, 'VNoEq'), (InfeasibleRegion, 'VInfeasible'), (NotImplementedError, 'VNotImpl'),
                       (RuntimeError, 'VRuntime'), (AssertionError, 'VAssert'),
                       (FloatingPointError, 'VArith'), (ZeroDivisionError, 'VArith'), (IndexError, 'VShape')]
    return _env

def exc_name(ex):
    for cls, name in env()['exc']:
        if isinstance(ex, cls):
            return name
    return None

FLOWS = [0.5, 1., 2., 4., 8., 12.5, 0.25, 3., 2. ** -10, 1000., 30., 10., 2. ** -34]     # incl. a trace amount (5.8e-11 kmol/hr)
TS = [300., 350.5, 360., 400.25, 330.]
PS = [50000., 101325., 202650., 20000., 1e6]
VS = [0., 1., 0.5, 0.25, 0.75, 0.125, 0.9, 1.5, -0.25, 1e-7]
FRACS = [-0.5, 0., 0.25, 0.5, 0.75, 1., 1.5, 0.1, 0.9]
COMP = [0., 0.25, 0.5, 0.75, 1., 0.125, 0.2, 0.8]
SPECS = ['TP', 'TV', 'TH', 'TS', 'Tx', 'Ty', 'PV', 'PH', 'PS', 'Px', 'Py']

def lin_coefs(rng):
    hl = [float(rng.choice([0, 8, 16, -4])) for _ in IDS]
    hg = [h + float(rng.choice([32, 40, 64])) for h in hl]
    cl = [float(rng.choice([0.5, 1, 2])) for _ in IDS]
    cg = [float(rng.choice([0.25, 0.5, 1])) for _ in IDS]
    return {'hl': hl, 'hg': hg, 'cl': cl, 'cg': cg}

def lin_H(co, rows, T):
    """rows: list of (phase, list)"""
    tot = 0.
    for ph, r in rows:
        if ph == 'g':
            tot += sum(x * (h + c * (T - 300.)) for x, h, c in zip(r, co['hg'], co['cg']))
        else:
            tot += sum(x * (h + c * (T - 300.)) for x, h, c in zip(r, co['hl'], co['cl']))
    return tot

def gen_flows(rng, pattern):
    n = len(IDS)
    l = [0.] * n; g = [0.] * n; s = [0.] * n
    for i in range(n):
        if not pattern[i]:
            continue
        where = rng.choice(['l', 'g', 'lg', 'lg'])
        if 'l' in where: l[i] = rng.choice(FLOWS)
        if 'g' in where: g[i] = rng.choice(FLOWS)
    return l, g, s

def gen_vle_case(rng, mode='stub'):
    n = len(IDS)
    r = rng.random()
    if r < 0.04:
        pattern = [False] * n                                  # empty stream
    elif r < 0.10:
        pattern = [False] * 3 + [rng.random() < 0.7 for _ in range(4)]   # no volatile chemical
    elif r < 0.28:
        k = rng.randrange(3)                                    # one volatile chemical
        pattern = [i == k for i in range(3)] + [rng.random() < p for p in (0.15, 0.1, 0.3, 0.12)]
    elif r < 0.55:
        vol = [True, True, True]; vol[rng.randrange(3)] = rng.random() < 0.3
        pattern = vol + [False, False, rng.random() < 0.2, False]       # volatile only (+ glucose, N_solutes 0)
    else:
        vol = [rng.random() < 0.75 for _ in range(3)]
        if not any(vol): vol[rng.randrange(3)] = True
        pattern = vol + [rng.random() < p for p in (0.45, 0.2, 0.4, 0.35)]
    l, g, s = gen_flows(rng, pattern)
    phases = rng.choice(['lg', 'lg', 'lgs'])
    if phases == 'lgs':
        for i in range(n):
            if rng.random() < 0.3: s[i] = rng.choice(FLOWS)
    kind = rng.choice(SPECS)
    if mode == 'stub' and rng.random() < 0.25:
        kind = rng.choice(['Tx', 'Ty', 'Px', 'Py', 'PH', 'PS', 'TV', 'PV'])
    if kind[1] in 'xy' and rng.random() < 0.8:
        # exactly two volatile chemicals and nothing else that counts, so that N == 2
        keep = rng.sample(range(3), 2)
        pattern = [i in keep for i in range(3)] + [False, False, rng.random() < 0.3, False]
        l, g, _ = gen_flows(rng, pattern)
    co = lin_coefs(rng)
    T = rng.choice(TS); P = rng.choice(PS)
    spec = {}
    if kind[0] == 'T': spec['T'] = T
    else: spec['P'] = P
    k2 = kind[1]
    if k2 == 'P': spec['P'] = P
    elif k2 == 'V': spec['V'] = rng.choice(VS)
    elif k2 in 'HS':
        pooled = [a + b for a, b in zip(l, g)]
        zero = [0.] * n
        Hl = lin_H(co, [('l', pooled), ('g', zero), ('s', s)], 350.)
        Hg = lin_H(co, [('l', zero), ('g', pooled), ('s', s)], 350.)
        spec[k2] = Hl + rng.choice(FRACS) * (Hg - Hl) + rng.choice([0., 0., 64., -64.])
    else:
        a = rng.choice(COMP)
        spec[k2] = [a, 1. - a]
    return {'kind': 'vle', 'mode': mode, 'phases': phases, 'l': l, 'g': g, 's': s, 'spec': spec, 'sk': kind,
            'T0': rng.choice([298.15, 320.]), 'P0': rng.choice([101325., 80000.]),
            'co': co, 'draws': [rng.random() for _ in range(48)]}

REAL_MIX = [
    {'Water': 30., 'Ethanol': 10.}, {'Water': 5., 'Ethanol': 10., 'Methanol': 4.}, {'Ethanol': 8., 'Methanol': 8.},
    {'Water': 30., 'N2': 3.}, {'Water': 20., 'Ethanol': 5., 'N2': 1., 'CO2': 0.5}, {'Water': 20., 'Ethanol': 5., 'Glucose': 2.},
    {'Water': 20., 'Methanol': 5., 'Salt_': 1.}, {'Water': 20., 'Ethanol': 5., 'Methanol': 2., 'N2': 0.5, 'Salt_': 0.5, 'Glucose': 1.},
    {'Water': 12.5}, {'Ethanol': 4., 'Glucose': 1.}, {'N2': 3., 'Glucose': 1.}, {'Water': 0.001, 'Ethanol': 1000.},
    {'Water': 30., 'Ethanol': 10., 'Methanol': 2. ** -30}, {'Water': 2. ** -31, 'Ethanol': 2. ** -32},     # a trace component; a tiny stream
]

def gen_real_case(rng):
    mix = rng.choice(REAL_MIX)
    n = len(IDS)
    l = [0.] * n; g = [0.] * n; s = [0.] * n
    scale = rng.choice([1., 1., 0.5, 8.])
    for k, v in mix.items():
        i = IDS.index(k)
        fr = rng.choice([0., 0.25, 1., 0.5])
        l[i] = v * scale * (1 - fr); g[i] = v * scale * fr
    kind = rng.choice(['TP', 'TP', 'PV', 'PV', 'TV', 'PH', 'PH', 'PS', 'TH', 'TS'])
    T = rng.choice([330., 355., 365., 380., 300.]); P = rng.choice([101325., 50000., 202650.])
    spec = {}
    if kind[0] == 'T': spec['T'] = T
    else: spec['P'] = P
    k2 = kind[1]
    if k2 == 'P': spec['P'] = P
    elif k2 == 'V': spec['V'] = rng.choice([0., 1., 0.5, 0.25, 0.75, 0.1, 0.9])
    else: spec[k2] = ['frac', rng.choice([-0.1, 0.1, 0.3, 0.5, 0.7, 0.9, 1.1])]
    return {'kind': 'vle', 'mode': 'real', 'phases': 'lg', 'l': l, 'g': g, 's': s, 'spec': spec, 'sk': kind,
            'T0': 298.15, 'P0': 101325., 'co': None, 'draws': []}

def gen_lle_case(rng):
    ids = env()['IDS2']
    n = len(ids)
    l = [0.] * n; L = [0.] * n
    pat = rng.choice([[1, 1, 1, 0, 0, 0], [1, 0, 1, 1, 0, 0], [1, 1, 1, 1, 1, 0], [1, 0, 0, 0, 1, 0], [0, 0, 0, 0, 1, 0], [1, 1, 0, 0, 0, 1],
                      [0, 0, 0, 0, 0, 0], [1, 0, 1, 0, 0, 1]])
    for i in range(n):
        if pat[i]:
            w = rng.choice(['l', 'L', 'lL'])
            if 'l' in w: l[i] = rng.choice(FLOWS)
            if 'L' in w: L[i] = rng.choice(FLOWS)
    return {'kind': 'lle', 'l': l, 'L': L, 'T': rng.choice([298.15, 320.]),
            'second': rng.random() < 0.5, 'top': rng.choice([None, None, 'Water', 'Octane', 'Hexane', 'Ethanol']),
            'draws': [rng.random() for _ in range(24)]}

def gen_lle_pf_case(rng):
    """two LLE calls on one object, the second answered from the object's cache (composition_cache_tolerance is the user's to
    set) after the composition was changed from outside: the REAL binary_phase_fraction.phase_fraction is used"""
    ids = env()['IDS2']; n = len(ids)
    pat = rng.choice([[1, 0, 1, 0, 0, 0], [1, 0, 0, 1, 0, 0], [1, 0, 1, 0, 1, 0], [0, 1, 1, 0, 0, 0], [1, 1, 1, 0, 0, 0], [1, 0, 1, 1, 0, 0]])
    l = [rng.choice(FLOWS) if pat[i] else 0. for i in range(n)]
    L = [rng.choice([0.] + FLOWS) if pat[i] else 0. for i in range(n)]
    return {'kind': 'lle', 'l': l, 'L': L, 'T': rng.choice([298.15, 320.]), 'second': True, 'realpf': True,
            'top': rng.choice([None, None, 'Water', 'Octane']),
            'drift': [rng.choice([1., 0.5, 2., 4., 0.25, 8., 0.125]) for _ in range(n)],
            'draws': [rng.random() for _ in range(24)]}

PFK = [0.5, 2., 1., 0.25, 4., 1.5, 0.75, 3., 1. + 2. ** -40, 1. - 2. ** -40, 8., 0.125]
def gen_pf_case(rng):
    n = rng.choice([1, 2, 2, 2, 2, 3, 4])
    z = [rng.choice([0.5, 0.25, 0.75, 0.125, 1., 0., 2.]) for _ in range(n)]
    return {'kind': 'pf', 'z': z, 'K': [rng.choice(PFK) for _ in range(n)], 'rr': rng.choice([-0.5, 0., 0.25, 0.5, 1., 1.5])}

def run_pf(case):
    env()
    from thermosteam.equilibrium import binary_phase_fraction as b
    p = Patches()
    p.set(b, 'solve_phase_fraction_Rashford_Rice', lambda zs, Ks, guess, za=0, zb=0: case['rr'])
    try:
        try:
            return {'phi': float(b.phase_fraction(np.array(case['z'], float), np.array(case['K'], float), 0.5))}
        except (ValueError, FloatingPointError, ZeroDivisionError):
            return {'phi': None}
    finally:
        p.undo()

def gen_sle_case(rng):
    ids = env()['IDS2']
    n = len(ids)
    l = [0.] * n; s = [0.] * n
    sub = rng.choice(['update', 'update', 'given', 'chem'])
    if sub == 'chem':
        j = 5
        l[j] = rng.choice([0.] + FLOWS); s[j] = rng.choice([0.] + FLOWS)
    else:
        for i in [0, 1, 2, 5]:
            if rng.random() < 0.8: l[i] = rng.choice(FLOWS)
        j = 5
        s[j] = rng.choice([0.] + FLOWS)
        if rng.random() < 0.3: s[0] = rng.choice(FLOWS)
    return {'kind': 'sle', 'sub': sub, 'l': l, 's': s, 'j': j, 'T': rng.choice([300., 320., 310.15, 312.]),
            'x': rng.choice([-0.25, 0., 0.125, 0.25, 0.5, 0.75, 0.9, 1., 1.5, 0.01])}

def gen_sleh_case(rng):
    """a history of SLE calls on ONE persistent SLE object with the flows changed from outside between the calls"""
    ids = env()['IDS2']; n = len(ids); j = 5
    l = [0.] * n; s = [0.] * n
    for i in (0, 1, 2):
        if rng.random() < 0.7: l[i] = rng.choice(FLOWS)
    if rng.random() < 0.2: l[4] = rng.choice(FLOWS)
    l[j] = rng.choice([0.] + FLOWS); s[j] = rng.choice([0.] + FLOWS)
    ops = []
    for _ in range(rng.randint(3, 7)):
        r = rng.random()
        if r < 0.45: ops.append(['T', rng.choice([300., 320., 310.15, 295.]), rng.choice([-0.25, 0., 0.125, 0.25, 0.5, 0.75, 0.9, 1.5, 0.01])])
        elif r < 0.55: ops.append(['given', rng.choice([300., 320.]), rng.choice([0., 0.125, 0.5, 0.9, 1.5])])
        elif r < 0.75: ops.append(['set', rng.choice('ls'), j, rng.choice([0.] + FLOWS)])
        elif r < 0.87: ops.append(['set', 'l', rng.choice([0, 1, 2]), rng.choice([0., 0.] + FLOWS)])
        else: ops.append(['scale', rng.choice([0.5, 2., 0.25, 4.])])
    return {'kind': 'sleh', 'l': l, 's': s, 'j': j, 'ops': ops}

def gen_vlle_case(rng):
    n = len(IDS)
    rows = {}
    pat = [rng.random() < 0.8 for _ in range(3)] + [rng.random() < p for p in (0.3, 0.1, 0.3, 0.2)]
    if not any(pat[:3]): pat[rng.randrange(3)] = True
    for ph in 'Lgl':
        rows[ph] = [rng.choice(FLOWS) if pat[i] and rng.random() < 0.6 else 0. for i in range(n)]
    return {'kind': 'vlle', 'L': rows['L'], 'g': rows['g'], 'l': rows['l'], 'T': rng.choice(TS), 'P': rng.choice(PS),
            'iters': rng.choice([0, 1, 1, 2, 3]), 'co': lin_coefs(rng), 'spec': {}, 'mode': 'stub',
            'draws': [rng.random() for _ in range(64)]}

def gen_cases(rng, tier):
    if tier == 'quick':
        n_stub, n_real, n_lle, n_sle, n_vlle = 230, 28, 40, 40, 30
        n_sleh = 40; n_vleh = (40, 10); n_pf = (30, 40); n_rx = (24, 10)
    else:
        n_stub, n_real, n_lle, n_sle, n_vlle = 3000, 300, 400, 400, 300
        n_sleh = 400; n_vleh = (400, 60); n_pf = (300, 400); n_rx = (300, 60)
    cases = [gen_vle_case(rng) for _ in range(n_stub)]
    cases += [gen_real_case(rng) for _ in range(n_real)]
    cases += [gen_lle_case(rng) for _ in range(n_lle)]
    cases += [gen_sle_case(rng) for _ in range(n_sle)]
    cases += [gen_vlle_case(rng) for _ in range(n_vlle)]
    cases += [gen_sleh_case(rng) for _ in range(n_sleh)]
    cases += [gen_lle_pf_case(rng) for _ in range(n_pf[0])] + [gen_pf_case(rng) for _ in range(n_pf[1])]
    cases += [gen_vleh_case(rng, 'stub') for _ in range(n_vleh[0])] + [gen_vleh_case(rng, 'real') for _ in range(n_vleh[1])]
    cases += [gen_vleh_rx_case(rng, 'stub') for _ in range(n_rx[0])] + [gen_vleh_rx_case(rng, 'real') for _ in range(n_rx[1])]
    nb = 12 if tier == 'quick' else 100
    cases += [gen_band_case(rng, 'stub') for _ in range(2 * nb)] + [gen_band_case(rng, 'real') for _ in range(nb)]
    cases += [gen_near_bubble_case(rng) for _ in range(nb)]
    if os.environ.get('VERIF_PENDING'):
        cases += PENDING          # witnesses of defects whose fix (pending_fixes/) is not in /repo yet
    return cases

# Witnesses of defects for which a fix is proposed in pending_fixes/ and not yet in /repo (run with VERIF_PENDING=1).
PENDING = []
# minimised inputs of repaired defects: regression cases that run first
CORPUS = [
    # _lever_rule: split fraction in (1, 1 + 1e-5] is clamped to 1 and v = F * y is written unclipped: liquid = mol - F y < 0
    {'kind': 'vle', 'mode': 'real', 'phases': 'lg', 'l': [30., 10., 0., 0., 0., 0., 0.], 'g': [0.] * 7, 's': [0.] * 7,
     'spec': {'P': 101325., 'y': ['band', 2. ** -18]}, 'sk': 'Py', 'T0': 298.15, 'P0': 101325., 'co': None, 'draws': []},
    {'kind': 'vle', 'mode': 'real', 'phases': 'lg', 'l': [2., 0., 8., 0., 0., 0., 0.], 'g': [0.] * 7, 's': [0.] * 7,
     'spec': {'T': 350., 'y': ['band', 2. ** -20]}, 'sk': 'Ty', 'T0': 298.15, 'P0': 101325., 'co': None, 'draws': []},
]

# ------------------------------------------------------------------ implementation side: VLE
class Rec:
    """Oracle call recorder: every intercepted call takes the next tick."""
    def __init__(self, case):
        self.case = case; self.events = []; self.tick = 0; self.di = 0
    def draw(self, alphabet):
        d = self.case['draws']
        x = d[self.di % len(d)]; self.di += 1
        return alphabet[int(x * len(alphabet)) % len(alphabet)]
    def add(self, kind, payload, args=None):
        """args: the scalar arguments the oracle was called with (T or P for bubble / dew, (T, P) for the fixed-point solver)"""
        self.events.append([self.tick, kind, payload, args]); self.tick += 1

def from_vle(depth=2):
    return sys._getframe(depth).f_code.co_filename.endswith('vle.py')

class Patches:
    def __init__(self):
        self.saved = []
    def set(self, obj, name, val):
        self.saved.append((obj, name, obj.__dict__.get(name, None) if isinstance(obj, type) else getattr(obj, name), isinstance(obj, type) and name not in obj.__dict__))
        setattr(obj, name, val)
    def undo(self):
        for obj, name, old, absent in reversed(self.saved):
            if absent: delattr(obj, name)
            else: setattr(obj, name, old)
        self.saved = []

def fl(v):
    return [float(x) for x in np.asarray(v, float).reshape(-1)]

def install_stubs(rec, case, vleobj):
    e = env(); vm = e['vm']; tmo = e['tmo']
    from thermosteam.equilibrium.bubble_point import BubblePoint
    from thermosteam.equilibrium.dew_point import DewPoint
    p = Patches()
    co = case['co']
    class _B:      # the specification of the call in progress (histories change it between calls)
        @property
        def T(self): return rec.case['spec'].get('T', 350.)
        @property
        def P(self): return rec.case['spec'].get('P', 101325.)
    base = _B()
    TOFF = [-20., -5., -0.25, 0., 0.25, 5., 20., 10.]
    PFAC = [0.5, 0.75, 0.9, 1., 1.1, 1.25, 1.5, 2.]
    def comp(n):
        return np.array([rec.draw(COMP) for _ in range(n)], float)
    def solve_Py(self, z, T, liquid_conversion=None):
        val = base.P * rec.draw(PFAC); y = comp(len(z)); rec.add('b', [val, fl(y)], [float(T)]); return val, y
    def solve_Ty(self, z, P, liquid_conversion=None):
        val = base.T + rec.draw(TOFF); y = comp(len(z)); rec.add('b', [val, fl(y)], [float(P)]); return val, y
    def solve_Px(self, z, T, gas_conversion=None):
        val = base.P * rec.draw(PFAC); x = comp(len(z)); rec.add('d', [val, fl(x)], [float(T)]); return val, x
    def solve_Tx(self, z, P, gas_conversion=None):
        val = base.T + rec.draw(TOFF); x = comp(len(z)); rec.add('d', [val, fl(x)], [float(P)]); return val, x
    p.set(BubblePoint, 'solve_Py', solve_Py); p.set(BubblePoint, 'solve_Ty', solve_Ty)
    p.set(DewPoint, 'solve_Px', solve_Px); p.set(DewPoint, 'solve_Tx', solve_Tx)
    # disjoint from VS (no exact V_bubble == V ties) and without 1.0 (v == mol exactly in floats but not after the exact
    # rational sum of the model: a tie that rounding decides; 1.5 reaches the same clip)
    VFAC = [-0.5, 0., 0.3125, 0.4375, 0.8125, 0.9375, 1.5, 0.0625]
    def fixed_point(self, pcf_Psat_over_P, T, P, gas_conversion, liquid_conversion):
        mol = np.asarray(self._mol_vle, float)
        raw = np.array([m * rec.draw(VFAC) for m in mol], float)
        rec.add('v', fl(raw), [float(T), float(P)]); return raw
    p.set(vm.VLE, '_solve_v_fixed_point', fixed_point)
    # _refresh_K divides by v.sum(): the model (exact rationals) raises iff that sum is exactly 0.  When the terms cancel to
    # rounding level the float sum and the exact sum can fall on different sides of 0 (seen with a 2**-34 trace flow and
    # V outside [0, 1]): a tie that rounding decides.  Such calls are counted, not compared (out['degenerate']).
    _orig_refresh = vm.VLE.__dict__['_refresh_K']
    def refresh_K(self, V, y_bubble, x_dew, dz_bubble=None, dz_dew=None):
        try:
            z = np.asarray(self._z_norm, float); L = 1. - V; Fv = self._F_mol_vle
            vb = (V * z + L * np.asarray(y_bubble, float)) * V * Fv
            vd = (z - L * (L * z + V * np.asarray(x_dew, float))) * Fv
            vv = L * vb + V * vd
            tot = float(np.abs(L * vb).sum() + np.abs(V * vd).sum())
            if tot > 0. and abs(float(vv.sum())) <= 1e-9 * tot: rec.degenerate = True
        except Exception:
            pass
        return _orig_refresh(self, V, y_bubble, x_dew, dz_bubble, dz_dew)
    p.set(vm.VLE, '_refresh_K', refresh_K)
    def IQ(f, x0, x1, y0=None, y1=None, x=None, xtol=0., ytol=5e-8, args=(), **kw):
        n = rec.draw([0, 1, 1, 2, 3])
        pts = [x0 + (x1 - x0) * rec.draw([0.25, 0.5, 0.75, 0.125]) for _ in range(n)]
        ret = rec.draw([x0, x1] + pts + pts)
        rec.add('iq', [pts, ret])
        for pt in pts: f(pt, *args)
        return ret
    import flexsolve
    p.set(vm, 'flx', types.SimpleNamespace(IQ_interpolation=IQ, aitken=flexsolve.aitken))
    Mix = type(vleobj.mixture)
    def rows_of(phase_mol):
        return [(ph, fl(m.to_array() if hasattr(m, 'to_array') else m)) for ph, m in phase_mol]
    def xH(self, phase_mol, T, P):
        v = lin_H(co, rows_of(phase_mol), T); rec.add('xh', v, [float(T), float(P)]); return v
    def Hp(self, phase, mol, T, P):
        v = lin_H(co, [(phase, fl(mol.to_array() if hasattr(mol, 'to_array') else mol))], T); rec.add('hp', v, [float(T), float(P)]); return v
    def solveT(self, phase_mol, H, T, P):
        v = T + rec.draw(TOFF); rec.add('st', v); return v
    for name in ('xH', 'xS'): p.set(Mix, name, xH)
    for name in ('H', 'S'): p.set(Mix, name, Hp)
    for name in ('xsolve_T_at_HP', 'xsolve_T_at_SP'): p.set(Mix, name, solveT)
    return p

def install_recorders(rec, vleobj):
    """real solvers; outputs recorded when called from vle.py"""
    e = env(); vm = e['vm']
    from thermosteam.equilibrium.bubble_point import BubblePoint
    from thermosteam.equilibrium.dew_point import DewPoint
    import flexsolve
    p = Patches()
    def wrap_bd(cls, name, kind):
        orig = cls.__dict__[name]
        def w(self, *a, **k):
            if not from_vle(): return orig(self, *a, **k)
            slot = len(rec.events); rec.add(kind, None, [float(a[1])])     # payload stays None if the solver raises
            r = orig(self, *a, **k)
            rec.events[slot][2] = [float(r[0]), fl(r[1])]
            return r
        p.set(cls, name, w)
    wrap_bd(BubblePoint, 'solve_Py', 'b'); wrap_bd(BubblePoint, 'solve_Ty', 'b')
    wrap_bd(DewPoint, 'solve_Px', 'd'); wrap_bd(DewPoint, 'solve_Tx', 'd')
    orig_fp = vm.VLE.__dict__['_solve_v_fixed_point']
    def fixed_point(self, *a):
        slot = len(rec.events); rec.add('v', None, [float(a[1]), float(a[2])])
        r = orig_fp(self, *a)
        rec.events[slot][2] = fl(r)
        return r
    p.set(vm.VLE, '_solve_v_fixed_point', fixed_point)
    def IQ(f, x0, x1, y0=None, y1=None, x=None, xtol=0., ytol=5e-8, args=(), **kw):
        pts = []
        slot = len(rec.events); rec.add('iq', None)
        def g(pt, *a):
            pts.append(float(pt)); return f(pt, *a)
        ret = flexsolve.IQ_interpolation(g, x0, x1, y0, y1, x, xtol, ytol, args, **kw)
        rec.events[slot][2] = [pts, float(ret)]
        return ret
    p.set(vm, 'flx', types.SimpleNamespace(IQ_interpolation=IQ, aitken=flexsolve.aitken))
    Mix = type(vleobj.mixture)
    def wrap_m(name, kind):
        orig = getattr(Mix, name)
        def w(self, *a, **k):
            if not from_vle(): return orig(self, *a, **k)
            slot = len(rec.events); rec.add(kind, None, [float(a[-2]), float(a[-1])])   # (.., T, P)
            r = orig(self, *a, **k)
            rec.events[slot][2] = float(r)
            return r
        p.set(Mix, name, w)
    for name in ('xH', 'xS'): wrap_m(name, 'xh')
    for name in ('H', 'S'): wrap_m(name, 'hp')
    for name in ('xsolve_T_at_HP', 'xsolve_T_at_SP'): wrap_m(name, 'st')
    return p

def build_stream(case):
    e = env(); tmo = e['tmo']
    s = tmo.MultiStream(None, T=case['T0'], P=case['P0'], phases=case['phases'], thermo=e['thermo'])
    for ph in case['phases']:
        s.imol[ph] = np.array(case[ph], float)
    return s

def snapshot(s):
    rows = {ph: fl(r.to_array() if hasattr(r, 'to_array') else r) for ph, r in tuple(s.imol)}
    oth = [rows[ph] for ph, _ in tuple(s.imol) if ph not in 'lg']
    return {'l': rows['l'], 'g': rows['g'], 'oth': oth, 'T': float(s.T), 'P': float(s.P)}

def band_composition(case, spec, s):
    """x= / y= specification that puts the lever-rule split fraction just outside [0, 1] but inside its +-1e-5 tolerance band,
    computed from the REAL bubble / dew point of the feed: ['band', eps]"""
    e = env(); tmo = e['tmo']
    tot = np.array(case['l'][:3]) + np.array(case['g'][:3])
    ix = [i for i in range(3) if tot[i] > 0]
    if len(ix) != 2: return [0.5, 0.5]
    z = tot[ix] / tot[ix].sum()
    chems = [e['thermo'].chemicals.tuple[i] for i in ix]
    key = 'x' if 'x' in spec else 'y'
    eps = spec[key][1]
    if key == 'x':
        bp = tmo.equilibrium.BubblePoint(chems, e['thermo'])
        y = bp.solve_Py(z, spec['T'])[1] if 'T' in spec else bp.solve_Ty(z, spec['P'])[1]
        x0 = (z[0] + eps * y[0]) / (1. + eps)              # split fraction = -eps
        return [float(x0), float(1. - x0)]
    dp = tmo.equilibrium.DewPoint(chems, e['thermo'])
    x = dp.solve_Px(z, spec['T'])[1] if 'T' in spec else dp.solve_Tx(z, spec['P'])[1]
    y0 = x[0] + (z[0] - x[0]) / (1. + eps)                   # split fraction = 1 + eps
    return [float(y0), float(1. - y0)]

def resolve_spec(case, s):
    spec = dict(case['spec'])
    for k in ('T', 'P'):
        if isinstance(spec.get(k), list) and spec[k][0] == 'cur':
            spec[k] = float(getattr(s, k))                 # the stream's current T (P): e.g. the T a V,P flash just returned
    for k in ('x', 'y'):
        if k in spec and spec[k] and spec[k][0] == 'band':
            spec[k] = band_composition(case, spec, s)
    for k in ('H', 'S'):
        if k in spec and isinstance(spec[k], list):
            # real mode: a fraction between the all-liquid and all-vapour values at a reference state
            e = env(); tmo = e['tmo']
            tot = np.array(case['l']) + np.array(case['g'])
            ref = tmo.MultiStream(None, T=spec.get('T', 355.), P=spec.get('P', 101325.), phases=case.get('phases', 'lg'), thermo=e['thermo'])
            if 's' in case.get('phases', 'lg'): ref.imol['s'] = np.array(case['s'], float)     # material in other phases stays where it is
            ref.imol['l'] = tot; lo = getattr(ref, k)
            ref.imol['l'] = 0 * tot; ref.imol['g'] = tot; hi = getattr(ref, k)
            spec[k] = float(lo + spec[k][1] * (hi - lo))
    return spec

def post_info(v, sk, spec):
    """property-package constants the call read (domain limits of the bubble / dew point objects, single-chemical Tc, Psat, Tsat)"""
    lims = [0., 0.]
    chem = None
    N = getattr(v, '_N', None)
    try:
        bp = v._bubble_point; dp = v._dew_point
    except AttributeError:
        bp = dp = None
    if bp is not None and N is not None and N >= 2:
        if sk == 'TV': lims = [bp.Pmax, bp.Pmin]
        elif sk == 'PV': lims = [bp.Tmin, bp.Tmax]
        elif sk in ('TH', 'TS'): lims = [0., bp.Pmin]
        elif sk in ('PH', 'PS'): lims = [bp.Tmin, dp.Tmax]
    if N == 1:
        c = v._chemical
        chem = {'Tc': float(c.Tc)}
        if 'T' in spec: chem['Psat'] = float(c.Psat(spec['T']))
        if 'P' in spec: chem['Tsat'] = float(c.Tsat(spec['P'], check_validity=False))
    return {'lims': [float(x) for x in lims], 'chem': chem, 'N': None if N is None else int(N)}

def gen_near_bubble_case(rng):
    """real solvers, two volatile chemicals only: a P,V flash at a tiny vapour fraction, then T,P at the temperature it returned --
    a T,P flash ON the bubble curve up to solver tolerance (the closed-form Rachford-Rice fraction is <= 0 there)"""
    n = len(IDS)
    i, j = rng.sample(range(3), 2)
    l = [0.] * n; l[i] = rng.choice([0.5, 10., 30., 0.0009765625]); l[j] = rng.choice([0.5, 10., 30.])
    P = rng.choice([101325., 500000., 50000.])
    ops = [['vle', 'PV', {'P': P, 'V': rng.choice([1e-9, 1e-5, 1e-3, 1e-7])}], ['vle', 'TP', {'T': ['cur'], 'P': P}]]
    if rng.random() < 0.5: ops += [['vle', 'PV', {'P': P, 'V': 1. - rng.choice([1e-9, 1e-5, 1e-3])}], ['vle', 'TP', {'T': ['cur'], 'P': P}]]
    return {'kind': 'vleh', 'mode': 'real', 'phases': 'lg', 'l': l, 'g': [0.] * n, 's': [0.] * n, 'T0': 298.15, 'P0': 101325.,
            'co': None, 'draws': [0.5], 'ops': ops, 'spec': {}, 'sk': 'TP'}

def gen_band_case(rng, mode):
    """x= / y= specification whose lever-rule split fraction lies just outside [0, 1] but inside the +-1e-5 band that _lever_rule
    accepts: -eps through x=, 1 + eps through y="""
    n = len(IDS)
    eps = rng.choice([2. ** -18, 2. ** -20, 2. ** -23])
    i, j = sorted(rng.sample(range(3), 2))
    l = [0.] * n; g = [0.] * n
    l[i] = rng.choice([1., 2., 8., 30., 0.5]); l[j] = rng.choice([1., 4., 10., 0.25]); g[i] = rng.choice([0., 1.])
    key = rng.choice('xy')
    first = rng.choice('TP')
    spec = {first: rng.choice(TS) if first == 'T' else rng.choice(PS[:3])}
    draws = [rng.random() for _ in range(48)]
    if mode == 'real':
        spec = {first: rng.choice([350., 360.]) if first == 'T' else 101325.}
        spec[key] = ['band', eps]
    else:
        z0 = (l[i] + g[i]) / (l[i] + g[i] + l[j])
        o0 = COMP[int(draws[1] * len(COMP)) % len(COMP)]          # first entry of the composition the stubbed bubble / dew point returns
        if key == 'x': a0 = (z0 + eps * o0) / (1. + eps)          # split fraction = -eps
        else: a0 = o0 + (z0 - o0) / (1. + eps)                    # split fraction = 1 + eps
        spec[key] = [a0, 1. - a0]
    return {'kind': 'vle', 'mode': mode, 'phases': 'lg', 'l': l, 'g': g, 's': [0.] * n, 'spec': spec, 'sk': first + key,
            'T0': 298.15, 'P0': 101325., 'co': lin_coefs(rng), 'draws': draws}

def gen_vleh_case(rng, mode='stub'):
    """a history of VLE calls on ONE stream (one persistent VLE object); between the calls the material is redistributed over
    l and g from outside (totals unchanged, so the set of chemicals present -- the key of the object's cache -- is unchanged);
    gas-only material ends up in the liquid, liquid-only material in the gas, the feed is re-loaded into one phase, ..."""
    base = gen_vle_case(rng, mode) if mode == 'stub' else gen_real_case(rng)
    n = len(IDS)
    tot = [a + b for a, b in zip(base['l'], base['g'])]
    def one_spec():
        c = gen_vle_case(rng, 'stub') if mode == 'stub' else gen_real_case(rng)
        sk = c['sk']
        if sk[1] in 'xy': sk = 'TP'; c['spec'] = {'T': rng.choice(TS), 'P': rng.choice(PS)}
        spec = c['spec']
        if mode == 'stub' and sk[1] in 'HS':
            zero = [0.] * n
            Hl = lin_H(base['co'], [('l', tot), ('g', zero), ('s', base['s'])], 350.)
            Hg = lin_H(base['co'], [('l', zero), ('g', tot), ('s', base['s'])], 350.)
            spec = dict(spec); spec[sk[1]] = Hl + rng.choice(FRACS) * (Hg - Hl)
        return sk, spec
    ops = []
    sk, spec = one_spec()
    if mode == 'real' and rng.random() < 0.6:
        sk, spec = 'TP', {'T': rng.choice([355., 360., 365., 350.]), 'P': 101325.}
    ops.append(['vle', sk, spec])
    if mode == 'real' and rng.random() < 0.5:
        ops += [['reload', rng.choice('llg')], ['vle', sk, spec]]              # what a unit does on every pass: reload the feed, flash again
    for _ in range(rng.randint(1, 3)):
        r = rng.random()
        if r < 0.2: ops.append(['redist', [1.] * n])                        # everything moved to the liquid
        elif r < 0.3: ops.append(['redist', [0.] * n])                      # ... to the gas
        elif r < 0.55: ops.append(['reload', rng.choice('llg')])            # the original feed re-loaded into one phase (bit-identical totals)
        else: ops.append(['redist', [rng.choice([0., 0.25, 0.5, 0.75, 1.]) for _ in range(n)]])
        if rng.random() < 0.5: ops.append(['vle', sk, spec])                # the same call again
        else: ops.append(['vle'] + list(one_spec()))
    if rng.random() < 0.35:
        # the set of phases of the stream is widened IN PLACE between two flashes: copy_like(a stream that also has a second liquid /
        # a solid phase) -- rows are inserted in front of / behind 'g', 'l' (phases are kept sorted: 'L' < 'S' < 'g' < 'l' < 's'),
        # so the rows the VLE object works on move inside the indexer
        l2, g2, _ = gen_flows(rng, [a + b > 0 or rng.random() < 0.2 for a, b in zip(base['l'], base['g'])])
        extra = rng.choice(['L', 'L', 'S', 'LS', 'Ls'])
        rows = {}
        for ph in extra:
            r = [0.] * n
            for i in ((0, 1, 2, 5) if ph == 'L' else (5, 6)):
                if rng.random() < 0.6: r[i] = rng.choice(FLOWS)
            rows[ph] = r
        ops += [['widen', l2, g2, rows, rng.choice([310., 330.]), rng.choice([90000., 101325.])], ['vle', sk, spec]]
        if rng.random() < 0.5: ops.append(['vle'] + list(one_spec()))
    if rng.random() < 0.45:
        # the stream gets linked to another stream's data between two flashes (flash, link_with(flow=True), flash again)
        l2, g2, _ = gen_flows(rng, [a + b > 0 or rng.random() < 0.2 for a, b in zip(base['l'], base['g'])])
        ops += [['link', l2, g2, rng.choice([310., 330.]), rng.choice([90000., 101325.]), rng.random() < 0.35], ['vle', sk, spec]]
    return {'kind': 'vleh', 'mode': mode, 'phases': base['phases'], 'l': base['l'], 'g': base['g'], 's': base['s'],
            'T0': base['T0'], 'P0': base['P0'], 'co': base['co'], 'draws': base['draws'] or [rng.random() for _ in range(8)],
            'ops': ops, 'spec': {}, 'sk': 'TP'}

RXNS = [('Ethanol -> Methanol', 'Ethanol'), ('Methanol -> Water', 'Methanol'), ('Ethanol + Water -> 2 Methanol', 'Ethanol'),
        ('Water + Methanol -> Ethanol', 'Water'), ('2 Methanol -> Ethanol + Water', 'Methanol')]

def gen_vleh_rx_case(rng, mode='stub'):
    """a history on ONE stream whose VLE object first performs a REACTIVE flash (set-up step, real solvers, not compared) and then
    ordinary flashes (compared): ['react', 'l' | 'g', reaction, X, sk, spec]; at least two of the three volatile chemicals are present
    so that the reactive call can reach the two-phase solver (which is what leaves _dmol_vle / _dF_mol behind)"""
    n = len(IDS)
    A = [0.5, 1., 2., 4., 8., 12.5, 3., 30., 10.]
    vol = [True, True, True]
    if rng.random() < 0.5: vol[rng.randrange(3)] = False
    pattern = vol + [rng.random() < p for p in (0.3, 0.15, 0.3, 0.2)]
    l = [0.] * n; g = [0.] * n; s = [0.] * n
    for i in range(n):
        if pattern[i]:
            (l if rng.random() < 0.75 else g)[i] = rng.choice(A)
    phases = rng.choice(['lg', 'lg', 'lgs'])
    if phases == 'lgs':
        for i in (5, 6):
            if rng.random() < 0.5: s[i] = rng.choice(A)
    co = lin_coefs(rng)
    tot = [a + b for a, b in zip(l, g)]
    def one_spec():
        if mode == 'real':
            c = gen_real_case(rng); return c['sk'], c['spec']
        c = gen_vle_case(rng, 'stub'); sk = c['sk']; spec = c['spec']
        if sk[1] in 'xy': sk = 'TP'; spec = {'T': rng.choice(TS), 'P': rng.choice(PS)}
        if sk[1] in 'HS':
            zero = [0.] * n
            Hl = lin_H(co, [('l', tot), ('g', zero), ('s', s)], 350.)
            Hg = lin_H(co, [('l', zero), ('g', tot), ('s', s)], 350.)
            spec = dict(spec); spec[sk[1]] = Hl + rng.choice(FRACS) * (Hg - Hl)
        return sk, spec
    def react():
        rk = rng.choice(['TP', 'TP', 'PV', 'PV', 'TV'])
        if rk == 'TP': rs = {'T': rng.choice([355., 360., 365., 370.]), 'P': 101325.}
        elif rk == 'PV': rs = {'P': rng.choice([101325., 50000.]), 'V': rng.choice([0.25, 0.5, 0.75])}
        else: rs = {'T': rng.choice([350., 360.]), 'V': rng.choice([0.25, 0.5, 0.75])}
        return ['react', rng.choice('lllg'), rng.randrange(len(RXNS)), rng.choice([0.125, 0.25, 0.5, 0.75]), rk, rs]
    ops = []
    if rng.random() < 0.3: ops.append(['vle'] + list(one_spec()))
    ops.append(react())
    for k in range(rng.randint(1, 3)):
        r = rng.random()
        if k and r < 0.2: ops.append(['redist', [rng.choice([0., 0.25, 0.5, 0.75, 1.]) for _ in range(n)]])
        elif k and r < 0.3: ops.append(react())
        ops.append(['vle'] + list(one_spec()))
    return {'kind': 'vleh', 'mode': mode, 'phases': phases, 'l': l, 'g': g, 's': s, 'T0': 298.15, 'P0': 101325., 'co': co,
            'draws': [rng.random() for _ in range(48)], 'ops': ops, 'spec': {}, 'sk': 'TP', 'rx': True}

def do_react(case, s, op):
    """the reactive call (real solvers); whatever it does to the stream is the state the history continues from, except that a state
    outside the property's domain (a negative or non-finite flow left behind by the reactive step) is replaced by the re-loaded feed"""
    e = env(); tmo = e['tmo']
    eq, reactant = RXNS[op[2]]
    rxn = tmo.Reaction(eq, reactant=reactant, X=op[3], chemicals=e['ch3'])
    kw = dict(op[5]); kw['liquid_conversion' if op[1] == 'l' else 'gas_conversion'] = rxn
    err = None
    try: s.vle(**kw)
    except Exception as ex: err = type(ex).__name__
    data = np.concatenate([np.asarray(r.to_array(), float) for _, r in tuple(s.imol)])
    if not np.isfinite(data).all() or (data < 0.).any() or not np.isfinite([float(s.T), float(s.P)]).all() or s.T <= 0 or s.P <= 0:
        apply_outside_op(case, s, ['reload', 'l'])
        if 's' in case['phases']: s.imol['s'] = np.array(case['s'], float)
        s.T = case['T0']; s.P = case['P0']
    return err

def dmol_seen(v):
    d = getattr(v, '_dmol_vle', None)
    return None if d is None else fl(np.asarray(d, float))

def apply_outside_op(case, s, op, keep=None):
    """what happens to the stream between two calls; returns False for a 'vle' op"""
    if op[0] == 'link':
        # the stream is linked to another multi-phase stream: its flow data (and, with TP, its thermal condition) are REPLACED
        e = env(); tmo = e['tmo']
        other = tmo.MultiStream(None, T=op[3], P=op[4], phases=tuple(s.phases), thermo=e['thermo'])    # (same set of phases: a widened stream stays widened)
        other.imol['l'] = np.array(op[1], float); other.imol['g'] = np.array(op[2], float)
        if 's' in s.phases: other.imol['s'] = np.array(case['s'], float)
        s.link_with(other, flow=True, phase=False, TP=bool(op[5]))
        if keep is not None: keep.append(other)
        return True
    if op[0] == 'widen':
        e = env(); tmo = e['tmo']
        phases = tuple(sorted(set(case['phases']) | set(op[3])))
        src = tmo.MultiStream(None, T=op[4], P=op[5], phases=phases, thermo=e['thermo'])
        src.imol['l'] = np.array(op[1], float); src.imol['g'] = np.array(op[2], float)
        if 's' in case['phases'] and 's' not in op[3]: src.imol['s'] = np.array(case['s'], float)
        for ph, r in op[3].items(): src.imol[ph] = np.array(r, float)
        s.copy_like(src)
        return True
    if op[0] == 'redist':
        l = np.array(fl(s.imol['l'].to_array())); g = np.array(fl(s.imol['g'].to_array())); tot = l + g
        newl = tot * np.array(op[1]); s.imol['l'] = newl; s.imol['g'] = tot - newl
        return True
    if op[0] == 'reload':
        tot = np.array(case['l'], float) + np.array(case['g'], float)
        s.imol['l' if op[1] == 'l' else 'g'] = tot; s.imol['g' if op[1] == 'l' else 'l'] = 0. * tot
        return True
    return False

def run_vleh(case):
    s = build_stream(case)
    v = s.vle                      # one object for the whole history
    rec = Rec(case)
    p = install_stubs(rec, case, v) if case['mode'] == 'stub' else install_recorders(rec, v)
    calls = []; keep = []; widen = []; reacts = []
    try:
        for op in case['ops']:
            if op[0] == 'widen':
                # the indexer layout before, and what every KEY hands out afterwards (s.imol[phase]: the path VLE._setup takes)
                before = [(ph, fl(r.to_array())) for ph, r in tuple(s.imol)]
                apply_outside_op(case, s, op, keep)
                phys = [(ph, fl(r.to_array())) for ph, r in tuple(s.imol)]
                after = [(ph, fl(s.imol[ph].to_array())) for ph in s.phases]
                widen.append({'before': before, 'phys': phys, 'after': after})
                continue
            if apply_outside_op(case, s, op, keep): continue
            if op[0] == 'react':
                p.undo()                  # the reactive call runs on the real solvers
                try: err = do_react(case, s, op)
                finally: p = install_stubs(rec, case, v) if case['mode'] == 'stub' else install_recorders(rec, v)
                reacts.append({'raised': err, 'dmol': dmol_seen(s.vle)})
                continue
            sk = op[1]
            c1 = dict(case, sk=sk, spec=op[2])
            spec = resolve_spec(c1, s)
            rec.case = dict(c1, spec=spec)
            rec.tick = 0; start = len(rec.events); rec.degenerate = False
            init = snapshot(s)
            raised = None
            kw = {k: (np.array(val) if isinstance(val, list) else val) for k, val in spec.items()}
            v = s.vle          # as a user does: the stream hands out its (cached) VLE object at every call
            dm0 = dmol_seen(v)
            try:
                v(**kw)
            except Exception as ex:
                raised = exc_name(ex)
                if raised is None:
                    if any(e[2] is None for e in rec.events[start:]): raised = 'oracle:' + type(ex).__name__
                    else: raise
            out = {'init': init, 'final': snapshot(s), 'raised': raised, 'events': rec.events[start:], 'ticks': rec.tick, 'spec': spec, 'sk': sk}
            out.update(post_info(v, sk, spec))
            if rec.degenerate: out['degenerate'] = True
            if case.get('rx'): out['dmol'] = [dm0, dmol_seen(v)]
            calls.append(out)
    finally:
        p.undo()
    return {'calls': calls, 'widen': widen, 'reacts': reacts}

def coq_vleh(case, out):
    ts = [coq_vle(dict(case, sk=o['sk'], spec=o['spec']), o) for o in out['calls']]
    if CHECK_FN == 'vle_check_flows':
        for o in out['calls']:
            if 'dmol' in o and not any(e[2] is None for e in o['events']):
                c1 = dict(case, sk=o['sk'], spec=o['spec'])
                ts.append(f'(dmol_kept {cfg_term()} {orc_term(c1, o)} {spec_term(c1, o)} {copt(o["dmol"][0], qlist)} {st_term(o["init"])} {copt(o["dmol"][1], qlist)})')
    if CHECK_FN == 'vle_check_flows':      # (C03 only: ModelHist.v is not among the files C04 loads)
        rank = {'L': 0, 'S': 1, 'g': 2, 'l': 3, 's': 4}
        for w in out.get('widen', []):
            phs = clist([cnat(rank[ph]) for ph, _ in w['before']])
            al = clist([cnat(rank[ph]) for ph, _ in w['phys']]); rows = clist([qlist(r) for _, r in w['phys']])
            for ph, r in w['after']:
                ts.append(f'(expand_key_check {phs} {al} {rows} {cnat(rank[ph])} {qlist(r)})')
    return '(' + ' && '.join(ts) + ')' if ts else 'true'

def oracle_vleh(case):
    """the history on the real code with the real solvers: after every call conservation, non-negativity, placement"""
    s = build_stream(case); keep = []
    for op in case['ops']:
        if apply_outside_op(case, s, op, keep): continue
        if op[0] == 'react':
            do_react(case, s, op); continue          # set-up step: the property does not speak of reactive calls
        sk = op[1]
        c1 = dict(case, sk=sk, spec=op[2])
        spec = resolve_spec(c1, s)
        if case['mode'] == 'stub' and sk[1] in 'HS':
            spec = resolve_spec(dict(c1, spec=dict(op[2], **{sk[1]: ['frac', 0.5]})), s)
        if 'V' in spec and not 0. <= spec['V'] <= 1.: continue
        init = snapshot(s)
        try:
            s.vle(**{k: (np.array(val) if isinstance(val, list) else val) for k, val in spec.items()})
        except Exception:
            continue
        fin = snapshot(s)
        msg = check_rows([init['l'], init['g']] + init['oth'], [fin['l'], fin['g']] + fin['oth'], IDS)
        if msg: return f'vle({sk}) on a used stream: {msg}'
        for c in (3, 4):
            if abs(fin['l'][c]) > 0: return f'vle({sk}) on a used stream: gas-only chemical {IDS[c]} left in the liquid: {fin["l"][c]}'
            for k_, (a, b) in enumerate(zip(init['oth'], fin['oth'])):
                if b[c] > a[c]: return f'vle({sk}) on a used stream: gas-only chemical {IDS[c]} moved into a phase other than g (row {k_} of the others): {a[c]} -> {b[c]}'
        for c in (5, 6):
            if abs(fin['g'][c]) > 0: return f'vle({sk}) on a used stream: liquid/solid-only chemical {IDS[c]} in the gas: {fin["g"][c]}'
        for k_, (a, b) in enumerate(zip(init['oth'], fin['oth'])):
            if a != b: return f'vle({sk}) on a used stream: a phase other than l / g (row {k_} of the others) was written: {a} -> {b}'
    return None

def run_vle(case):
    s = build_stream(case)
    init = snapshot(s)
    v = s.vle
    v._nonzero = None   # the index cache of a retrieved VLE object is keyed on the same data; start fresh
    rec = Rec(case)
    spec = resolve_spec(case, s)
    p = install_stubs(rec, case, v) if case['mode'] == 'stub' else install_recorders(rec, v)
    raised = None
    try:
        kw = {k: (np.array(val) if isinstance(val, list) else val) for k, val in spec.items()}
        try:
            v(**kw)
        except Exception as ex:
            raised = exc_name(ex)
            if raised is None:
                if any(e[2] is None for e in rec.events):
                    raised = 'oracle:' + type(ex).__name__     # raised inside a real solver (e.g. numba cache ReferenceError): not compared
                else:
                    raise
    finally:
        p.undo()
    out = {'init': init, 'final': snapshot(s), 'raised': raised, 'events': rec.events, 'ticks': rec.tick, 'spec': spec}
    out.update(post_info(v, case['sk'], spec))
    if getattr(rec, 'degenerate', False): out['degenerate'] = True
    return out

# ------------------------------------------------------------------ implementation side: LLE / SLE
def distinct_factors(fs):
    """a split proportional to the feed makes the top_chemical comparison C_L < C_l an exact tie that float rounding decides;
    the stub never returns one"""
    if len(fs) > 1 and len(set(fs)) == 1:
        fs = [0.5 if fs[0] != 0.5 else 0.25] + list(fs[1:])
    return fs

def run_lle(case):
    e = env(); tmo = e['tmo']; lm = e['lm']
    s = tmo.MultiStream(None, T=298.15, P=101325., phases='lL', thermo=e['thermo2'])
    s.imol['l'] = np.array(case['l'], float); s.imol['L'] = np.array(case['L'], float)
    lle = s.lle
    lle._lle_chemicals = None; lle._K = None; lle._phi = None
    rec = Rec(case)
    p = Patches()
    calls = []
    def solver(self, mol, T, lle_chemicals, single_loop):
        fs = distinct_factors([rec.draw([0., 0.25, 0.5, 0.75, 0.875, 1.25, -0.25]) for m in mol])
        r = np.array([m * f for m, f in zip(mol, fs)], float)
        calls.append(['solve', fl(r)]); return r
    def pf(z, K, phi):
        r = rec.draw([0., 0.25, 0.5, 0.75, 1., 1.5, -0.25, 0.999])
        calls.append(['phi', r, fl(K)]); return r
    realpf = case.get('realpf')
    if realpf:
        from thermosteam.equilibrium import binary_phase_fraction as bpf
        lle.composition_cache_tolerance = 10.; lle.temperature_cache_tolerance = 10.
        real_pf = lm.phase_fraction; real_rr = bpf.solve_phase_fraction_Rashford_Rice
        raw = {}
        def rr(*a, **k):
            raw['rr'] = float(real_rr(*a, **k)); return raw['rr']
        def pf(z, K, phi):
            calls.append(['phi', None, fl(K), None])
            r = real_pf(z, K, phi)
            calls[-1][1] = float(r); calls[-1][3] = raw.get('rr', 0.)
            return r
        def solver(self, mol, T, lle_chemicals, single_loop):
            fs = distinct_factors([rec.draw([0., 0.25, 0.5, 0.75, 0.875]) for m in mol])
            r = np.array([m * f for m, f in zip(mol, fs)], float)
            calls.append(['solve', fl(r)]); return r
        p.set(bpf, 'solve_phase_fraction_Rashford_Rice', rr)
    p.set(lm.LLE, 'solve_lle_liquid_mol', solver); p.set(lm, 'phase_fraction', pf)
    steps = []
    try:
        for k in range(2 if case['second'] else 1):
            if realpf and k == 1:
                s.imol['l'] = np.array(fl(s.imol['l'].to_array())) * np.array(case['drift'])   # the composition drifts between the calls
            before = {'l': fl(s.imol['l'].to_array()), 'L': fl(s.imol['L'].to_array())}
            del calls[:]
            raised = False
            try:
                lle(case['T'], top_chemical=case['top'])
            except (FloatingPointError, ZeroDivisionError):
                raised = True
            if realpf: before = dict(before)
            steps.append({'before': before, 'after': {'l': fl(s.imol['l'].to_array()), 'L': fl(s.imol['L'].to_array())},
                          'calls': [list(c) for c in calls], 'raised': raised})
            if raised: break
    finally:
        p.undo()
    return {'steps': steps}

def run_sle(case):
    e = env(); tmo = e['tmo']
    s = tmo.MultiStream(None, T=298.15, P=101325., phases='ls', thermo=e['thermo2'])
    s.imol['l'] = np.array(case['l'], float); s.imol['s'] = np.array(case['s'], float)
    sle = s.sle
    sle._nonzero = None; sle._chemical = None; sle._index = ()
    j = case['j']; solute = e['IDS2'][j]
    out = {'before': {'l': list(case['l']), 's': list(case['s'])}}
    raised = None
    try:
        if case['sub'] == 'chem':
            Tm = float(e['thermo2'].chemicals.tuple[j].Tm)
            out['Tm'] = Tm
            sle(solute, T=case['T'])
        else:
            sle._solute_index = j
            sle._setup()
            out['index'] = [int(i) for i in sle._index]
            out['msol'] = float(sle._mol_solute)
            if sle._chemical is not None and case['sub'] == 'update':
                out['skip'] = True     # __call__ would take the single-chemical branch; _update_solubility is not reached
            elif case['sub'] == 'update':
                sle._update_solubility(case['x'])
            else:
                sle(solute, T=case['T'], solubility=case['x'])
    except (FloatingPointError, ZeroDivisionError, RuntimeError, ValueError) as ex:
        raised = type(ex).__name__
    out['raised'] = raised
    out['after'] = {'l': fl(s.imol['l'].to_array()), 's': fl(s.imol['s'].to_array()), 'T': float(s.T)}
    out['has_chemical'] = sle._chemical is not None
    return out

def run_vlle(case):
    """Stream.vlle with every solver stubbed: VLE oracles per VLE call, LLE solver / phase_fraction per LLE call,
    flx.fixed_point replaced by plain iteration a seeded number of times"""
    e = env(); tmo = e['tmo']; vm = e['vm']; lm = e['lm']
    import thermosteam._stream as sm
    s = tmo.MultiStream(None, T=298.15, P=101325., phases='Lgl', thermo=e['thermo'])
    for ph in 'Lgl': s.imol[ph] = np.array(case[ph], float)
    rec = Rec(case)
    case = dict(case, spec={'T': case['T'], 'P': case['P']})
    rec.case = case
    dummy = types.SimpleNamespace(mixture=e['thermo'].mixture)
    p = install_stubs(rec, case, dummy)
    vsegs = []; lsegs = []
    orig_vcall = vm.VLE.__dict__['__call__']; orig_lcall = lm.LLE.__dict__['__call__']
    def vcall(self, **kw):
        rec.tick = 0; start = len(rec.events)
        try:
            return orig_vcall(self, **kw)
        finally:
            N = getattr(self, '_N', None); chem = None
            if N == 1:
                c = self._chemical; chem = {'Tc': float(c.Tc), 'Psat': float(c.Psat(kw['T']))}
            vsegs.append({'events': rec.events[start:], 'chem': chem})
    lcalls = []
    def lcall(self, T, P=None, **kw):
        del lcalls[:]
        try:
            return orig_lcall(self, T, P, **kw)
        finally:
            lsegs.append([list(c) for c in lcalls])
    def solver(self, mol, T, lle_chemicals, single_loop):
        fs = distinct_factors([rec.draw([0., 0.25, 0.5, 0.75, 0.875]) for m in mol])
        r = np.array([m * f for m, f in zip(mol, fs)], float)
        lcalls.append(['solve', fl(r)]); return r
    def pf(z, K, phi):
        r = rec.draw([0., 0.25, 0.5, 0.75, 1., 0.999])
        lcalls.append(['phi', r, fl(K)]); return r
    def fixed_point(f, x0, *a, **k):
        x = x0
        for _ in range(max(1, case['iters'])): x = f(x)
        return x
    p.set(vm.VLE, '__call__', vcall); p.set(lm.LLE, '__call__', lcall)
    p.set(lm.LLE, 'solve_lle_liquid_mol', solver); p.set(lm, 'phase_fraction', pf)
    p.set(sm, 'flx', types.SimpleNamespace(fixed_point=fixed_point))
    raised = None
    try:
        try:
            s.vlle(case['T'], case['P'])
        except Exception as ex:
            raised = type(ex).__name__
    finally:
        p.undo()
    rows = {ph: fl(r.to_array()) for ph, r in tuple(s.imol)}
    return {'final': {'L': rows['L'], 'g': rows['g'], 'l': rows['l'], 'T': float(s.T), 'P': float(s.P)},
            'vsegs': vsegs, 'lsegs': lsegs, 'raised': raised}

def run_sleh(case, stub=True):
    e = env(); tmo = e['tmo']
    from thermosteam.equilibrium.sle import SLE
    s = tmo.MultiStream(None, T=298.15, P=101325., phases='ls', thermo=e['thermo2'])
    s.imol['l'] = np.array(case['l'], float); s.imol['s'] = np.array(case['s'], float)
    j = case['j']; solute = e['IDS2'][j]
    sle = s.sle            # one object for the whole history
    cur = {}
    p = Patches()
    if stub: p.set(SLE, '_solve_x', lambda self, T: cur['x'])
    steps = []
    try:
        for op in case['ops']:
            raised = False
            try:
                if op[0] == 'T':
                    cur['x'] = op[2]; s.sle(solute, T=op[1])
                elif op[0] == 'given':
                    s.sle(solute, T=op[1], solubility=op[2])
                elif op[0] == 'set':
                    s.imol[op[1]][op[2]] = op[3]
                else:
                    s.imol['l'] = np.array(fl(s.imol['l'].to_array())) * op[1]
                    s.imol['s'] = np.array(fl(s.imol['s'].to_array())) * op[1]
            except (RuntimeError, ValueError, FloatingPointError, ZeroDivisionError):
                raised = True
            steps.append({'l': fl(s.imol['l'].to_array()), 's': fl(s.imol['s'].to_array()), 'T': float(s.T), 'raised': raised})
    finally:
        p.undo()
    return {'steps': steps, 'Tm': float(e['thermo2'].chemicals.tuple[j].Tm)}

def run_impl(case):
    if case['kind'] == 'pf': return run_pf(case)
    if case['kind'] == 'vleh': return run_vleh(case)
    if case['kind'] == 'sleh': return run_sleh(case)
    if case['kind'] == 'vlle': return run_vlle(case)
    if case['kind'] == 'vle': return run_vle(case)
    if case['kind'] == 'lle': return run_lle(case)
    return run_sle(case)

# ------------------------------------------------------------------ model side
def cfg_term():
    return f'(mkcfg {clist(KINDS)} {qlist(NSOL)} {qlist(env()["MW"])})'

def st_term(sn):
    return f'(mkst {qlist(sn["l"])} {qlist(sn["g"])} {clist([qlist(r) for r in sn["oth"]])} {q(sn["T"])} {q(sn["P"])})'

def tape_term(default, entries, f):
    return f'(tape {default} {clist([f"({cnat(k)}, {f(v)})" for k, v in entries])})'

def orc_term(case, out, miss='0'):
    ev = out['events']
    chem = out.get('chem') or {}
    Tc = q(chem.get('Tc', 0.)); Psat = q(chem.get('Psat', 0.)); Tsat = q(chem.get('Tsat', 0.))
    pair = lambda v: f'({q(v[0])}, {qlist(v[1])})'
    ev = [(e[0], e[1], e[2]) for e in out['events']]
    args = {e[0]: e[3] for e in out['events']}
    # bubble / dew / fixed-point tapes are keyed by the tick AND by the T / P the oracle was called with
    b = '(tape1 (0, []) ' + clist([f'({cnat(k)}, {q(args[k][0])}, {pair(v)})' for k, kind, v in ev if kind == 'b']) + ')'
    d = '(tape1 (0, []) ' + clist([f'({cnat(k)}, {q(args[k][0])}, {pair(v)})' for k, kind, v in ev if kind == 'd']) + ')'
    vv = '(tape2 [] ' + clist([f'({cnat(k)}, {q(args[k][0])}, {q(args[k][1])}, {qlist(v)})' for k, kind, v in ev if kind == 'v']) + ')'
    iq = tape_term('([], 0)', [(k, v) for k, kind, v in ev if kind == 'iq'], lambda v: f'({qlist(v[0])}, {q(v[1])})')
    st = tape_term('0', [(k, v) for k, kind, v in ev if kind == 'st'], q)
    # H / S calls: answered only when the model asks at the (T, P) the implementation asked at (tick by tick); otherwise [miss]
    hits = lambda kd: clist([f'({cnat(k)}, {q(args[k][0])}, {q(args[k][1])})' for k, kind, v in ev if kind == kd])
    if case['mode'] == 'stub':
        co = case['co']
        lin = f'{qlist(co["hl"])} {qlist(co["hg"])} {qlist(co["cl"])} {qlist(co["cg"])}'
        xh = f'(fun k s T P => if hit2 {hits("xh")} k T P then lin_xH {lin} s T else {miss})'
        hp = f'(fun k gas mol T P => if hit2 {hits("hp")} k T P then lin_Hp {lin} gas mol T else {miss})'
    else:
        xh = f'(fun k _ T P => tape2 {miss} ' + clist([f'({cnat(k)}, {q(args[k][0])}, {q(args[k][1])}, {q(v)})' for k, kind, v in ev if kind == 'xh']) + ' k T P)'
        hp = f'(fun k _ _ T P => tape2 {miss} ' + clist([f'({cnat(k)}, {q(args[k][0])}, {q(args[k][1])}, {q(v)})' for k, kind, v in ev if kind == 'hp']) + ' k T P)'
    return (f'(mkorc {Tc} (fun _ => {Psat}) (fun _ => {Tsat}) {q(out["lims"][0])} {q(out["lims"][1])} '
            f'{b} {d} {vv} {iq} {xh} {hp} (fun k _ _ _ _ => {st} k))')

def spec_term(case, out):
    sp = out['spec']; sk = case['sk']
    a = q(sp[sk[0]])
    v = sp[sk[1]]
    b = qlist(v) if isinstance(v, list) else q(v)
    return f'(Sp{sk} {a} {b})'

CHECK_FN = 'vle_check_flows'     # C03 compares the material; C04 reuses this harness with the full comparison

def coq_vle(case, out):
    if out.get('degenerate'):
        return 'true'     # v.sum() in _refresh_K cancels to rounding level: counted (classify), not compared
    if any(e[2] is None for e in out['events']):
        return 'true'     # a real solver / property model raised inside the call: outside the model (oracles return values)
    raised = 'None' if out['raised'] is None else f'(Some {out["raised"]})'
    used = 'dmol' in out and CHECK_FN == 'vle_check_flows'      # an ordinary call on an object that remembers a reactive flash
    head = f'vle_check_flows_used {cfg_term()}' if used else f'{CHECK_FN} {cfg_term()}'
    dm = (copt(out['dmol'][0], qlist) + ' ') if used else ''
    one = lambda miss: (f'({head} {orc_term(case, out, miss)} {spec_term(case, out)} {dm}{st_term(out["init"])} '
                        f'{st_term(out["final"])} {raised} {cnat(out["ticks"])})')
    if not any(e[1] in ('xh', 'hp') for e in out['events']): return one('0')
    return f'({one(MISS)} && {one("(- " + MISS + ")")})'

MISS = '(1267650600228229401496703205376 # 1)'      # 2^100: what a H / S call with other arguments than the recorded ones returns

def coq_lle(case, out):
    e = env()
    terms = []
    for stp in out['steps']:
        calls = stp['calls']
        cache = any(c[0] == 'phi' for c in calls)
        K = next((c[2] for c in calls if c[0] == 'phi'), [])
        phi = next((c[1] for c in calls if c[0] == 'phi'), 0.) or 0.
        molL = next((c[1] for c in calls if c[0] == 'solve'), [])
        top = 'None' if case['top'] is None else f'(Some {cnat(e["IDS2"].index(case["top"]))})'
        o = f'(mklo {cbool(cache)} {qlist(K)} {q(phi)} {qlist(molL)} {top} {qlist(e["MW2"])})'
        if case.get('realpf') and cache:
            rr = next((c[3] for c in calls if c[0] == 'phi'), 0.) or 0.
            terms.append(f'(lle_check_pf {clist(e["lle2"], cbool)} {q(rr)} {o} (mklst {qlist(stp["before"]["l"])} {qlist(stp["before"]["L"])}) '
                         f'(mklst {qlist(stp["after"]["l"])} {qlist(stp["after"]["L"])}) {cbool(stp["raised"])})')
            continue
        terms.append(f'(lle_check {clist(e["lle2"], cbool)} {o} (mklst {qlist(stp["before"]["l"])} {qlist(stp["before"]["L"])}) '
                     f'(mklst {qlist(stp["after"]["l"])} {qlist(stp["after"]["L"])}) {cbool(stp["raised"])})')
    return '(' + ' && '.join(terms) + ')'

def coq_sle(case, out):
    st = f'(mksst {qlist(out["before"]["l"])} {qlist(out["before"]["s"])} {q(298.15)})'
    a = out['after']
    exp = f'(mksst {qlist(a["l"])} {qlist(a["s"])} {q(a["T"])})'
    j = cnat(case['j'])
    raised = out['raised'] is not None
    if case['sub'] == 'chem':
        if not out['has_chemical'] and not raised:
            raise ValueError('expected the single-chemical branch')
        return f'(sle_check (sle_T_chemical {j} {q(case["T"])} {q(out.get("Tm", 0.))} {st}) {exp} {cbool(raised)})'
    if 'index' not in out:
        # _setup raised: no solute
        return f'(sle_check (sle_T_chemical {j} 0 0 {st}) {exp} {cbool(raised)})'
    if out.get('skip'):
        return f'(sle_check (Ok {st}) {exp} false)'
    if case['sub'] == 'update':
        return f'(sle_check (sle_update {clist(out["index"], cnat)} {j} {q(out["msol"])} {q(case["x"])} {st}) {exp} {cbool(raised)})'
    return f'(sle_check (sle_given {j} {q(case["T"])} {q(case["x"])} {st}) {exp} {cbool(raised)})'

def lo_term(calls, top=None):
    e = env()
    cache = any(c[0] == 'phi' for c in calls)
    K = next((c[2] for c in calls if c[0] == 'phi'), [])
    phi = next((c[1] for c in calls if c[0] == 'phi'), 0.)
    molL = next((c[1] for c in calls if c[0] == 'solve'), [])
    return f'(mklo {cbool(cache)} {qlist(K)} {q(phi)} {qlist(molL)} None {qlist(e["MW"])})'

def coq_vlle(case, out):
    e = env()
    if out['raised'] and out['raised'] not in ('FloatingPointError', 'ZeroDivisionError'):
        raise ValueError('vlle raised ' + out['raised'])
    c2 = dict(case, mode='stub', sk='TP')
    def vo(seg):
        return orc_term(c2, {'events': seg['events'], 'chem': seg['chem'], 'lims': [0., 0.]})
    dummy_v = {'events': [], 'chem': None}
    vs = out['vsegs']; ls = out['lsegs']
    vo0 = vo(vs[0]) if vs else vo(dummy_v)
    lo0 = lo_term(ls[0] if ls else [])
    steps = []
    k = 0
    while 1 + 2 * k + 1 < len(vs) and 1 + k < len(ls):
        steps.append(f'({lo_term(ls[1 + k])}, {vo(vs[1 + 2 * k])}, {vo(vs[2 + 2 * k])})'); k += 1
    ch = e['thermo'].chemicals
    islle = [i in ch._lle_index for i in range(len(IDS))]
    init = f'(mkv3 {qlist(case["L"])} {qlist(case["g"])} {qlist(case["l"])} {q(298.15)} {q(101325.)})'
    f = out['final']
    exp = f'(mkv3 {qlist(f["L"])} {qlist(f["g"])} {qlist(f["l"])} {q(f["T"])} {q(f["P"])})'
    call = f'(vlle {cfg_term()} {clist(islle, cbool)} {vo0} {lo0} {clist(steps)} {q(case["T"])} {q(case["P"])} {init})'
    if out['raised']:
        return f'(vlle_check_err {call})'
    return f'(vlle_check {call} {exp})'

def coq_sleh(case, out):
    e = env()
    def hop(op):
        if op[0] == 'T': return f'(HCallT {q(op[1])} {q(op[2])})'
        if op[0] == 'given': return f'(HGiven {q(op[1])} {q(op[2])})'
        if op[0] == 'set': return f'(HSet{"L" if op[1] == "l" else "S"} {cnat(op[2])} {q(op[3])})'
        return f'(HScale {q(op[1])})'
    init = f'(mksst {qlist(case["l"])} {qlist(case["s"])} {q(298.15)})'
    exp = clist([f'(mksst {qlist(st["l"])} {qlist(st["s"])} {q(st["T"])}, {cbool(st["raised"])})' for st in out['steps']])
    return (f'(hist_eqb (hrun {clist(e["lle2"], cbool)} {cnat(case["j"])} {q(out["Tm"])} ({init}, sobj0) {clist([hop(o) for o in case["ops"]])}) {exp})')

def coq_case(case, out):
    if case['kind'] == 'pf': return f'(pf_check (phase_fraction_m {q(case["rr"])} {qlist(case["z"])} {qlist(case["K"])}) {copt(out["phi"], q)})'
    if case['kind'] == 'vleh': return coq_vleh(case, out)
    if case['kind'] == 'sleh': return coq_sleh(case, out)
    if case['kind'] == 'vlle': return coq_vlle(case, out)
    if case['kind'] == 'vle': return coq_vle(case, out)
    if case['kind'] == 'lle': return coq_lle(case, out)
    return coq_sle(case, out)

def coq_show(case, out):
    if case['kind'] == 'vlle':
        return coq_vlle(case, out).replace('(vlle_check (vlle', '((vlle', 1).rsplit(' (mkv3', 1)[0] + ')'
    if case['kind'] == 'vle':
        return f'(vle_call {cfg_term()} {orc_term(case, out)} {spec_term(case, out)} (mkm {st_term(out["init"])} 0))'
    if case['kind'] == 'lle':
        return 'tt'
    return 'tt'

def nontrivial(case, out):
    if case['kind'] == 'vle' and out.get('degenerate'): return False
    if case['kind'] == 'pf': return out['phi'] is not None
    if case['kind'] == 'vleh': return sum(1 for o in out['calls'] if (o['init']['l'], o['init']['g']) != (o['final']['l'], o['final']['g'])) >= 2
    if case['kind'] == 'sleh':
        return sum(1 for op, st in zip(case['ops'], out['steps']) if op[0] in ('T', 'given') and not st['raised']) >= 2
    if case['kind'] == 'vlle':
        return (case['L'], case['g'], case['l']) != (out['final']['L'], out['final']['g'], out['final']['l'])
    if case['kind'] == 'vle':
        i, f = out['init'], out['final']
        return (i['l'], i['g']) != (f['l'], f['g'])
    if case['kind'] == 'lle':
        return any(s['before'] != s['after'] for s in out['steps'])
    return out['before']['l'] != out['after']['l'] or out['before']['s'] != out['after']['s']

def classify(case, out):
    if case['kind'] == 'pf': return [f'pf:n={len(case["z"])}:' + ('error' if out['phi'] is None else 'value')]
    if case['kind'] == 'vleh':
        rx = []
        for r in out.get('reacts', []):
            rx.append('vleh-react:' + ('raised' if r['raised'] else 'ok') + ':' + ('nothing remembered' if r['dmol'] is None else
                      'remembers a non-zero mole change' if any(abs(x) > 1e-9 for x in r['dmol']) else 'remembers zero'))
        for o in out['calls']:
            if o.get('dmol') and o['dmol'][0] and any(abs(x) > 1e-9 for x in o['dmol'][0]):
                rx.append(f'vleh-call-after-reactive:{o["sk"]}:' + ('solver-called' if any(e[1] == 'v' for e in o['events']) else 'no-solver') + f':raised={o["raised"]}')
        return rx + [f'vleh:{case["mode"]}:' + '>'.join(o['sk'] for o in out['calls'])[:40]] + [f'vleh-call:{o["sk"]}:raised={o["raised"]}' for o in out['calls']]
    if case['kind'] == 'sleh':
        return [f'sleh:{op[0]}:{"raised" if st["raised"] else "ok"}' for op, st in zip(case['ops'], out['steps'])]
    if case['kind'] == 'vlle':
        return [f'vlle:vle-calls={len(out["vsegs"])}:lle-calls={len(out["lsegs"])}' + (':raised' if out['raised'] else '')]
    if case['kind'] == 'vle' and out.get('degenerate'): return ['vle:refresh_K sum cancels to rounding level (counted, not compared)']
    if case['kind'] == 'vle':
        ks = [f'vle:{case["mode"]}:{case["sk"]}', f'N:{out.get("N")}', 'raised:' + str(out['raised'])]
        if any(e[2] is None for e in out['events']): return ks + ['oracle-raised (not compared)']
        kinds = ''.join({'b': 'b', 'd': 'd', 'v': 'v', 'iq': 'Q', 'xh': 'h', 'hp': 'p', 'st': 't'}[e[1]] for e in out['events'])
        ks.append(f'path:{case["sk"]}:{kinds[:14]}')
        if any(e[1] == 'v' and any(x < 0 for x in e[2]) for e in out['events']): ks.append('adversarial:v<0')
        if any(e[1] == 'v' for e in out['events']): ks.append('solver-called')
        return ks
    if case['kind'] == 'lle':
        return ['lle:' + ('cache' if any(c[0] == 'phi' for s in out['steps'] for c in s['calls']) else
                          'solver' if any(s['calls'] for s in out['steps']) else 'trivial')]
    return ['sle:' + case['sub'] + (':raised' if out['raised'] else '')]

# ------------------------------------------------------------------ direct oracle (the property itself on the real code)
def check_rows(before, after, names, tol=1e-9):
    """conservation per chemical over phases; non-negativity"""
    n = len(before[0])
    for c in range(n):
        b = sum(r[c] for r in before); a = sum(r[c] for r in after)
        if abs(a - b) > tol * max(1., abs(a), abs(b)):
            return f'conservation: chemical {names[c]} total {b} -> {a}'
    for r in after:
        for c in range(n):
            if r[c] < -1e-12 * max(1., max(abs(x) for x in r)):
                return f'negative flow: chemical {names[c]} = {r[c]}'
    return None

def oracle(case):
    """Runs the REAL code with the REAL solvers (no stubs) and evaluates the property on the stream."""
    e = env()
    if case['kind'] == 'pf':
        phi = run_pf(case)['phi']
        if phi is not None and not 0. <= phi <= 1.:
            return f'phase_fraction: returned {phi} for z={case["z"]}, K={case["K"]} (a phase fraction outside [0, 1] makes a phase flow negative)'
        return None
    if case['kind'] == 'lle' and case.get('realpf'):
        # the write-back with the real phase_fraction; the optimiser is a table that stays within its bounds [0, z]
        out = run_lle(case)
        for k, stp in enumerate(out['steps']):
            if stp['raised']: continue
            msg = check_rows([stp['before']['l'], stp['before']['L']], [stp['after']['l'], stp['after']['L']], e['IDS2'])
            if msg: return f'lle call {k + 1} ({"from the cache" if any(c[0] == "phi" for c in stp["calls"]) else "solver"}): {msg}'
        return None
    if case['kind'] == 'vleh': return oracle_vleh(case)
    if case['kind'] == 'sleh':
        # the history on the real code, once with the real SLE._solve_x and once with the table one
        for stub in (False, True):
            tmo = e['tmo']
            s = tmo.MultiStream(None, T=298.15, P=101325., phases='ls', thermo=e['thermo2'])
            s.imol['l'] = np.array(case['l'], float); s.imol['s'] = np.array(case['s'], float)
            j = case['j']; solute = e['IDS2'][j]
            from thermosteam.equilibrium.sle import SLE
            p = Patches(); cur = {}
            if stub: p.set(SLE, '_solve_x', lambda self, T: cur['x'])
            try:
                for op in case['ops']:
                    before = [fl(s.imol['l'].to_array()), fl(s.imol['s'].to_array())]
                    try:
                        if op[0] == 'T':
                            cur['x'] = op[2]; s.sle(solute, T=op[1])
                        elif op[0] == 'given':
                            s.sle(solute, T=op[1], solubility=op[2])
                        elif op[0] == 'set':
                            s.imol[op[1]][op[2]] = op[3]; continue
                        else:
                            s.imol['l'] = np.array(before[0]) * op[1]; s.imol['s'] = np.array(before[1]) * op[1]; continue
                    except Exception:
                        continue
                    after = [fl(s.imol['l'].to_array()), fl(s.imol['s'].to_array())]
                    msg = check_rows(before, after, e['IDS2'])
                    if msg: return f'sle history ({"table" if stub else "real"} _solve_x), call {op}: {msg}'
            finally:
                p.undo()
        return None
    if case['kind'] == 'vlle':
        tmo = e['tmo']
        s = tmo.MultiStream(None, T=298.15, P=101325., phases='Lgl', thermo=e['thermo'])
        for ph in 'Lgl': s.imol[ph] = np.array(case[ph], float)
        try:
            vf_local = __import__('vf')
            vf_local.with_timeout(s.vlle, 20, case['T'], case['P'])
        except BaseException:
            return None
        rows = {ph: fl(r.to_array()) for ph, r in tuple(s.imol)}
        msg = check_rows([case['L'], case['g'], case['l']], [rows['L'], rows['g'], rows['l']], IDS, tol=1e-6)
        return 'vlle: ' + msg if msg else None
    if case['kind'] == 'vle':
        s = build_stream(case)
        init = snapshot(s)
        spec = resolve_spec(case, s)
        sk = case['sk']
        if case['mode'] == 'stub' and sk[1] in 'HS':
            # the generated H/S belongs to the stub enthalpy; use a value between all-liquid and all-vapour instead
            c2 = dict(case); c2['spec'] = dict(case['spec']); c2['spec'][sk[1]] = ['frac', 0.5]
            spec = resolve_spec(c2, s)
        kw = {k: (np.array(v) if isinstance(v, list) else v) for k, v in spec.items()}
        if 'V' in kw and not 0. <= kw['V'] <= 1.: return None
        try:
            s.vle(**kw)
        except Exception as ex:
            return None            # the property speaks of calls that return normally
        fin = snapshot(s)
        msg = check_rows([init['l'], init['g']] + init['oth'], [fin['l'], fin['g']] + fin['oth'], IDS)
        if msg: return f'vle({sk}): {msg}'
        for c in (3, 4):
            if abs(fin['l'][c]) > 0: return f'vle({sk}): gas-only chemical {IDS[c]} left in the liquid: {fin["l"][c]}'
        for c in (5, 6):
            if abs(fin['g'][c]) > 0: return f'vle({sk}): liquid/solid-only chemical {IDS[c]} in the gas: {fin["g"][c]}'
        return None
    if case['kind'] == 'lle':
        tmo = e['tmo']
        s = tmo.MultiStream(None, T=298.15, P=101325., phases='lL', thermo=e['thermo2'])
        s.imol['l'] = np.array(case['l'], float); s.imol['L'] = np.array(case['L'], float)
        try:
            s.lle(case['T'], top_chemical=case['top'])
        except Exception:
            return None
        return check_rows([case['l'], case['L']], [fl(s.imol['l'].to_array()), fl(s.imol['L'].to_array())], e['IDS2'])
    out = run_sle(case)
    if out['raised']: return None
    a = out['after']
    msg = check_rows([case['l'], case['s']], [a['l'], a['s']], e['IDS2'])
    if msg: return 'sle: ' + msg
    j = case['j']
    for c in range(len(case['l'])):
        if c != j and (a['l'][c] != case['l'][c] or a['s'][c] != case['s'][c]):
            return f'sle: a chemical other than the solute moved ({e["IDS2"][c]})'
    return None

def finding_key(case, msg):
    return 'C03:' + msg.split(':')[0]

WITNESSES = []
