"""C10 — name-keyed flow access equals positional access, independent of lookup history.
Correspondence harness (real CompiledChemicals / ChemicalIndexer / MaterialIndexer against
coq/C10/Model.v), generators and the direct oracle."""
import os, itertools
import numpy as np
from fractions import Fraction as F
from vf import q, qlist, clist, cbool, cnat, copt, frac, fr_json

ID = 'C10'
COQ_DIR = 'C10'
# VERIF_C10_VARIANT=asis evaluates the model of the code as first found in /repo (development aid only)
VARIANT = os.environ.get('VERIF_C10_VARIANT', 'fixed')
CASE_TIMEOUT = 120
RULE = ('a case = a property package of 1-8 user-defined chemicals (custom CAS numbers, compile-time names, some repeated or '
        'clashing), a list of set_alias/define_group calls (valid and malformed), 2-4 indexers (ChemicalMolarFlowIndexer and '
        'MolarFlowIndexer over several phase sets, some obtained from Stream/MultiStream.imol, some sharing one class-level '
        'cache) and a history of reads, writes, index_overlap / cross-package mix_from calls and get_index calls. Small cases: '
        '15-60 operations over every key form (ID/alias/CAS, tuples and lists in all orders, groups, mixed, ellipsis, phase, '
        '(phase, key), (..., key), (phase, ...)) plus a malformed stream (unknown names/phases, ints, nested sequences, wrong '
        'arity, wrong data rank). Big cases: 700-1600 operations with several hundred to a thousand DISTINCT keys so that the '
        '100-entry and the 500-entry caches fill and evict, with revisits of evicted and of surviving keys. Compared: the '
        'name table and group compositions after configuration, per-operation value / error class / data after each write, '
        'and the exact final contents and ORDER of chemicals._index_cache and of every MaterialIndexer._index_caches entry. '
        'History cases (coq/C10/ModelCfg.v): one package, a single- and two multi-phase flow indexers and 1-2 SplitIndexers; 20-60 '
        'operations (12%: 150-260 with distinct tuple keys so the 100-entry cache evicts) of reads/writes on all of them with '
        'set_alias / define_group calls IN BETWEEN (new names, and in half of the cases risky ones: redefined groups, phase letters, '
        'chemical IDs), each followed by revisits of keys looked up before it; split data: scalars, vectors, nested vectors for groups, '
        'malformed lengths/nesting; writes through (..., IDs) and (..., ...) with every data form (per-phase vectors, length-1 vectors, 2-d data, '
        'wrong lengths) run through the full model of SparseArray column assignment (ModelEll.v). Compared there in addition: outcome of every configuration call, SplitIndexer values (nested '
        'structure exactly) and data after each write, the FINAL name table and compositions. '
        'In 60% of the history cases the caller owns 1-2 float numpy arrays (coq/C10/ModelBuf.v): groups are defined (molar / by weight) from VIEWS of them, the caller then re-fills, rescales or zeroes '
        'its array, and scalars are written to the group and read back on every indexer kind (name, (phase, name), mixed tuples, mass view); compared in addition: the caller view after each definition, every array after each caller write and at the end. '
        'non-trivial = at least 5 successful reads or writes; distinct = distinct case hash')
ASSUMPTIONS = [
    'keys are built from str, tuple, list, Ellipsis and int (other unhashable containers such as set/dict/ndarray keys are not modelled)',
    'names avoid the reserved attribute names of CompiledChemicals (tuple, size, IDs, CASs, MW, ...), are ASCII, and phases are among s,l,g,S,L',
    'chemicals of one package have distinct IDs and distinct CAS numbers, and no ID equals the CAS of another chemical (names_single states this as wf_chems)',
    'history independence with configuration calls between look-ups is proved for calls that define a NEW name that is not a one-letter (phase-like) name (safe_cop); for other calls (group redefinition, a phase letter or an existing ID as new name) the code keeps stale cache entries: C10_cfg_redefine_refuted / C10_cfg_phase_alias_refuted, finding C10:config-stale-cache; the model reproduces the stale behaviour and the correspondence covers it',
    'SplitIndexer data are numbers, flat sequences of numbers, or sequences whose elements are numbers or flat sequences (one level of nesting)',
    'group compositions have a non-zero sum; float rounding is not modelled (values compared to 1e-9 relative, structure exactly)',
    'writes through (..., IDs) use SparseArray column assignment (property C09): in the multi-package machine (Model.mat_set) modelled for scalars and for vectors of exactly the indexed length; in history cases (ModelEll.mat_set2) modelled for every data form (scalars, vectors of any length incl. one value per phase and length-1 vectors stripped to scalars, 2-d data with one row per phase) except 2-d data times a group composition',
    'data written through the ellipsis has at most as many entries as there are chemicals',
    'compositions passed to define_group are lists or float64 numpy arrays / views of them with a positive sum; the caller writes into its arrays only between calls (single thread) and at most as many values as the array holds',
]
TRUSTED = ['model coq/C10/Model.v, ModelCfg.v, ModelEll.v and ModelBuf.v (which arrays define_group creates and which it only reads) are hand-written from thermosteam/base/sparse.py (__setitem__, reduce_ndim), thermosteam/_chemicals.py, indexer.py, utils/cache.py, _phase.py; tie = correspondence check '
           '(values, error classes, data after writes, final cache contents and order)']

_env = {}
def env():
    if not _env:
        import thermosteam as tmo
        from thermosteam import indexer
        _env['tmo'] = tmo
        _env['ix'] = indexer
    return _env

LETTERS = ['A_', 'B_', 'C_', 'D_', 'E_', 'F_', 'H_', 'I_']
CAS_POOL = ['10-00-1', '20-00-2', '30-00-3', '40-00-4', '50-00-5', '60-00-6', '70-00-7', '80-00-8']
NAME_POOL = ['nm1', 'nm2', 'nm3', 'Water', 'l', 'g', 'x']
ALIAS_POOL = ['ay', 'bee', 'cee', 'dee', 'l', 'L', 'z9', 'nm1']
GROUP_POOL = ['G1', 'G2', 'Gx', 's']
PHASE_SETS = [['g', 'l'], ['l', 's'], ['L', 'l'], ['g', 'l', 's'], ['L', 'S', 'g', 'l', 's'], ['l'], ['S', 'g']]
VALS = [F(0), F(1), F(2), F(-1), F(1, 2), F(1, 4), F(3), F(1024), F(1, 1024), F(-3, 2), F(5)]
COMPS = [[1, 1], [1, 3], [3, 1], [1, 2], [1, 1, 2], [2, 1, 1], [1, 7], [1], [4], [1, 1, 1, 1], [1, 2, 5], [1, 3, 4, 8],
         [1, 0], [0, 1], [1, 0, 3], [0, 1, 1], [2, 0, 0], [1, 0, 0, 1], [0, 3, 1, 0]]      # members with a zero share

# every name of the alphabet is defined once in the header of the generated files (n<i> : string, k<i> = KStr n<i>):
# string literals are by far the most expensive thing for coqc to read
POOL = sorted(set(LETTERS + CAS_POOL + NAME_POOL + ALIAS_POOL + GROUP_POOL +
                  ['nope', 'q', 'lq', '', 'G', 'Q', '90-00-9', 's', 'l', 'g', 'S', 'L']))
NAMEID = {nm: i for i, nm in enumerate(POOL)}
COQ_HEADER = ('From V Require Import Common.Num C10.Model C10.ModelCfg C10.ModelEll C10.ModelBuf.\nOpen Scope Q_scope.\nOpen Scope string_scope.\n'
              + ''.join(f'Definition n{i} : string := "{nm}".\nDefinition k{i} : key := KStr n{i}.\n' for i, nm in enumerate(POOL))
              + ''.join(f'Definition p{i} := Pos {i}.\n' for i in range(9))
              + 'Definition kt := KTup.\nDefinition kl := KList.\nDefinition g_ := Grp.\n'
                'Definition s0 : kind := Some 0%nat.\nDefinition s1 : kind := Some 1%nat.\nDefinition s2 : kind := Some 2%nat.\nDefinition s3 : kind := Some 3%nat.\n'
                'Definition ec (k : key) (c : cindex) (kd : kind) : key * cval := (k, (c, kd)).\n'
                'Definition emc (k : key) (c : cindex) (kd : kind) : key * mval := (k, (MChem c, kd, true)).\n'
                'Definition emp (k : key) (p : option nat) (c : cindex) (kd : kind) : key * mval := (k, (MPair p c, kd, false)).\n'
                'Definition eph (k : key) (p : nat) : key * mval := (k, (MPhase p, None, false)).\n'
                'Definition eno (k : key) : key * mval := (k, (MNone, None, false)).\n'
                'Definition cy := CMany.\nDefinition co := COne.\n'
                'Definition bn (x : Q) := BVal (VNum x).\nDefinition bv (x : vec) := BVal (VVec x).\n'
                'Definition bm (x : list vec) := BVal (VMat x).\nDefinition bw := BWr.\nDefinition be := BErr.\n'
                'Definition og (i : nat) (k : key) := MOp (OGet i k).\nDefinition os (i : nat) (k : key) (d : data) := MOp (OSet i k d).\n'
                'Definition mo := MOp.\n'
                'Definition cm (l : list target) (k : nat) : cval := (CMany l, Some k).\n')

# ------------------------------------------------------------------ keys (JSON form <-> python <-> Gallina)
def kS(s): return ['s', s]
def kT(l): return ['t', list(l)]
def kL(l): return ['l', list(l)]
KE = ['e']
def kO(n): return ['o', n]

def pykey(k):
    t = k[0]
    if t == 's': return k[1]
    if t == 'e': return ...
    if t == 't': return tuple(pykey(x) for x in k[1])
    if t == 'l': return [pykey(x) for x in k[1]]
    if t == 'o': return int(k[1])
    raise ValueError(k)

def cstr(s):
    if s in NAMEID: return f'n{NAMEID[s]}'
    assert '"' not in s
    return '"' + s + '"'

def ckey(k):
    t = k[0]
    if t == 's': return f'k{NAMEID[k[1]]}' if k[1] in NAMEID else f'(KStr {cstr(k[1])})'
    if t == 'e': return 'KEll'
    if t == 't': return f'(kt {clist([ckey(x) for x in k[1]])})'
    if t == 'l': return f'(kl {clist([ckey(x) for x in k[1]])})'
    if t == 'o': return f'(KObj {cnat(k[1])})'
    raise ValueError(k)

def key_of_py(x):
    """python cache key -> JSON form"""
    if isinstance(x, str): return kS(x)
    if x is ...: return KE
    if isinstance(x, tuple): return kT([key_of_py(i) for i in x])
    if isinstance(x, list): return kL([key_of_py(i) for i in x])
    if isinstance(x, (int, np.integer)): return kO(int(x))
    raise ValueError(f'unexpected cache key {x!r}')

ERR = {'UndefinedChemicalAlias': 'EKey', 'UndefinedPhase': 'EUndefPhase', 'TypeError': 'EType', 'IndexError': 'EIndex',
       'RuntimeError': 'ERuntime', 'ValueError': 'EValue', 'ZeroDivisionError': 'EZeroDiv'}
def err_of(e):
    return ERR.get(type(e).__name__, 'EOther')

# ------------------------------------------------------------------ generators
def gen_names(rng, case_names, groups, n, allow_groups=True, dup=0.1):
    pool = list(case_names) + (list(groups) if allow_groups else [])
    out = []
    for _ in range(n):
        if out and rng.random() < dup:
            out.append(rng.choice(out))
        else:
            out.append(rng.choice(pool))
    return out

def gen_chem_key(rng, names, groups, malformed):
    """a key for the chemical part"""
    r = rng.random()
    if malformed and r < 0.3:
        m = rng.randrange(8)
        if m == 0: return kS('nope')
        if m == 1: return kO(rng.randrange(3))
        if m == 2: return kT([kS(rng.choice(names)), kS('nope')])
        if m == 3: return kT([kS(rng.choice(names)), kO(1)])
        if m == 4: return kT([kS(rng.choice(names)), kT([kS(rng.choice(names))])])
        if m == 5: return kT([kS(rng.choice(names)), kL([kS(rng.choice(names))])])
        if m == 6: return kL([kS(rng.choice(names)), kL([kS(rng.choice(names))])])
        return kT([kS(''), KE])
    if r < 0.32: return kS(rng.choice(names))
    if r < 0.42 and groups: return kS(rng.choice(groups))
    if r < 0.5: return KE
    n = rng.choice([0, 1, 1, 2, 2, 2, 3, 3, 4, 5])
    elems = [kS(x) for x in gen_names(rng, names, groups, n, allow_groups=rng.random() < 0.5)]
    return kL(elems) if rng.random() < 0.25 else kT(elems)

def gen_phase(rng, phs, malformed):
    r = rng.random()
    if malformed and r < 0.25:
        return rng.choice([kS('q'), kS('lq'), kO(0), kS(''), kT([kS('l')])])
    if r < 0.7: return kS(rng.choice(phs))
    if r < 0.85: return kS(rng.choice(phs).swapcase())
    return KE

def gen_mat_key(rng, phs, names, groups, malformed):
    r = rng.random()
    if r < 0.15: return gen_chem_key(rng, names, groups, malformed)
    if r < 0.25: return gen_phase(rng, phs, malformed)
    if malformed and r < 0.32:
        m = rng.randrange(3)
        if m == 0: return kT([gen_phase(rng, phs, False)])
        if m == 1: return kT([gen_phase(rng, phs, False), kS(rng.choice(names)), kS(rng.choice(names))])
        return kT([kL([kS('l')]), kS(rng.choice(names))])
    p = gen_phase(rng, phs, malformed)
    c = gen_chem_key(rng, names, groups, malformed)
    return kL([p, c]) if rng.random() < 0.15 else kT([p, c])

def gen_data(rng, n, malformed, cap=None):
    r = rng.random()
    if malformed and r < 0.08: return ['m', [[float(rng.choice(VALS)) for _ in range(max(1, n))]]]
    if r < 0.05: return ['n', rng.choice([0, -0.0, 0.0])]     # int zero, negative zero: all are falsy and delete the entry
    if r < 0.45: return ['n', float(rng.choice(VALS))]
    m = n
    if malformed and rng.random() < 0.15: m = max(0, n + rng.choice([-1, 1]))
    if cap is not None: m = min(m, cap)     # longer data through the ellipsis put keys beyond the size into the dict
    return ['v', [float(rng.choice(VALS)) for _ in range(m)]]

def key_width(k, groups_len):
    """number of entries a vector written through the chemical key should have"""
    if k[0] == 's': return groups_len.get(k[1], 1)
    if k[0] in 'tl': return len(k[1])
    return None

def gen_package(rng, nmin=1, nmax=8, tidy=False):
    n = rng.randint(nmin, nmax)
    ids = rng.sample(LETTERS, n)
    chems = []
    for i, cid in enumerate(ids):
        cas = cid
        if rng.random() < 0.4: cas = CAS_POOL[i]
        nm = []
        if rng.random() < (0.2 if tidy else 0.35):
            nm = rng.sample(NAME_POOL[:3] if tidy else NAME_POOL, rng.randint(1, 2))
        if not tidy and rng.random() < 0.03: nm.append(rng.choice(ids))
        chems.append({'ID': cid, 'CAS': cas, 'names': nm, 'MW': float(rng.choice([16, 32, 8, 4, 64]))})
    return chems

def gen_cops(rng, chems, n, tidy=False):
    ids = [c['ID'] for c in chems]
    known = list(ids) + [c['CAS'] for c in chems]
    groups = []
    cops = []
    for _ in range(n):
        if rng.random() < 0.5:
            src = rng.choice(known + (groups if (not tidy and rng.random() < 0.1) else []))
            if not tidy and rng.random() < 0.08: src = 'nope'
            al = rng.choice(ALIAS_POOL + (ids if (not tidy and rng.random() < 0.15) else []))
            cops.append(['alias', src, al])
            known.append(al)
        else:
            name = rng.choice([g for g in GROUP_POOL if tidy is False or g not in groups] or GROUP_POOL)
            k = rng.randint(0 if not tidy else 1, min(4, len(ids)))
            members = rng.sample(ids, k)
            if rng.random() < 0.3: members = [rng.choice(known) if rng.random() < 0.5 else m for m in members]
            if not tidy and rng.random() < 0.07 and groups: members.append(rng.choice(groups))
            if not tidy and rng.random() < 0.05: members.append('nope')
            comp = None
            if rng.random() < 0.65:
                cands = [c for c in COMPS if len(c) == len(members)]
                if cands: comp = [float(x) for x in rng.choice(cands)]
                if not tidy and rng.random() < 0.06: comp = (comp or []) + [1.0]
            cops.append(['group', name, members, comp, rng.random() < 0.2])
            groups.append(name)
    return cops

def gen_indexers(rng, n, big=False):
    ixs = []
    k = rng.randint(2, 4)
    shared = rng.choice(PHASE_SETS)
    for j in range(k):
        via = rng.random() < 0.3
        if j == 0 or (j > 1 and rng.random() < 0.3):
            ixs.append({'kind': 'c', 'stream': via, 'data': [float(rng.choice(VALS)) for _ in range(n)]})
        else:
            phs = shared if (j == 1 or rng.random() < 0.5) else rng.choice(PHASE_SETS)
            ixs.append({'kind': 'm', 'stream': via, 'phases': list(phs),
                        'data': [[float(rng.choice(VALS)) for _ in range(n)] for _ in phs]})
    return ixs

def gen_mat_source_op(rng, j, cur, n):
    """material arriving from a multi-phase indexer: 1-3 phases, preferably several the receiver lacks"""
    missing = [ph for ph in ['g', 'l', 's', 'L', 'S'] if ph not in cur[j]]
    k = rng.randint(1, 3)
    if len(missing) >= 2 and rng.random() < 0.7:
        sp = rng.sample(missing, min(len(missing), max(2, k)))
        if rng.random() < 0.4: sp = sorted(set(sp + [rng.choice(cur[j])]))
    else:
        sp = rng.sample(['g', 'l', 's', 'L', 'S'], k)
    kind = rng.choice(['mixm', 'copym'])
    src = [[ph, [float(rng.choice(VALS)) for _ in range(n)]] for ph in sorted(sp)]
    old = cur[j]
    if kind == 'mixm':
        if any(ph not in old and ph.swapcase() not in old for ph in sp): cur[j] = sorted(set(old) | set(sp))
    elif old != sorted(sp) and [x.lower() for x in old] != [x.lower() for x in sorted(sp)]:
        cur[j] = sorted(set(old) | set(sp))
    return [kind, j, src]

def gen_extra_package(rng, chems, more=True):
    """another property package over the same chemicals in another order (optionally one more chemical), with its own
    aliases and groups: an indexer can be re-based onto it with reset_chemicals"""
    cs = [{'ID': c['ID'], 'CAS': c['CAS'], 'names': [], 'MW': c['MW']} for c in chems]
    rng.shuffle(cs)
    if more and rng.random() < 0.3:
        free = [x for x in LETTERS if x not in [c['ID'] for c in cs]]
        if free: cs.insert(rng.randrange(len(cs) + 1), {'ID': rng.choice(free), 'CAS': '90-00-9', 'names': [], 'MW': 16.0})
    return {'chems': cs, 'cops': gen_cops(rng, cs, rng.randint(0, 3), tidy=True)}

def small_case(rng):
    malformed = rng.random() < 0.3
    chems = gen_package(rng, tidy=not malformed and rng.random() < 0.7)
    cops = gen_cops(rng, chems, rng.randint(0, 5), tidy=not malformed)
    ids = [c['ID'] for c in chems]
    names = ids + [c['CAS'] for c in chems] + [c[2] for c in cops if c[0] == 'alias'] + [x for c in chems for x in c['names']]
    groups = [c[1] for c in cops if c[0] == 'group']
    glen = {c[1]: len(c[2]) for c in cops if c[0] == 'group'}
    n0 = len(chems)
    ixs = gen_indexers(rng, n0)
    other = rng.sample([c['CAS'] for c in chems] + ['90-00-9'], rng.randint(1, min(n0 + 1, 4)))
    pkgs = [gen_extra_package(rng, chems) for _ in range(rng.choice([0, 0, 0, 1, 1, 2]))]
    specs = [{'chems': chems, 'cops': cops}] + pkgs
    for sp_ in pkgs:
        names = names + [c[2] for c in sp_['cops'] if c[0] == 'alias'] + [c['ID'] for c in sp_['chems'] if c['ID'] not in ids]
        groups = groups + [c[1] for c in sp_['cops'] if c[0] == 'group' and c[1] not in groups]
    glens = [{c[1]: len(c[2]) for c in sp_['cops'] if c[0] == 'group'} for sp_ in specs]
    pkof = [0] * len(ixs)                     # the package every indexer is on (changes with 'reset')
    ops = []
    cur = {j: sorted(set(y['phases'])) for j, y in enumerate(ixs) if y['kind'] == 'm'}    # phases change when an indexer gains one
    def whole(x, key):
        """the key addresses all chemicals of one row (single-phase ellipsis, bare phase, (phase, ...))"""
        if x['kind'] == 'c': return key == KE
        return key[0] == 's' or (key[0] in 'tl' and len(key[1]) == 2 and key[1][1] == KE and key[1][0] != KE)
    for _ in range(rng.randint(15, 60)):
        r = rng.random()
        i = rng.randrange(len(ixs))
        x = ixs[i]
        n = len(specs[pkof[i]]['chems']); glen = glens[pkof[i]]
        if pkgs and r > 0.94 and rng.random() < 0.5:
            have = set(c['ID'] for c in specs[pkof[i]]['chems'])
            ok = [k_ for k_, sp_ in enumerate(specs) if have <= set(c['ID'] for c in sp_['chems'])]   # every CAS must exist in the target
            k_ = rng.choice(ok)
            ops.append(['reset', i, k_]); pkof[i] = k_
            continue
        if r < 0.5:
            key = gen_chem_key(rng, names, groups, malformed) if x['kind'] == 'c' else gen_mat_key(rng, cur[i], names, groups, malformed)
            ops.append(['getm' if rng.random() < 0.2 else 'get', i, key])
        elif r < 0.83:
            if x['kind'] == 'c':
                key = gen_chem_key(rng, names, groups, malformed)
                ck = key
            else:
                key = gen_mat_key(rng, cur[i], names, groups, malformed)
                ck = key[1][1] if key[0] in 'tl' and len(key[1]) == 2 else KE
            w = key_width(ck, glen)
            dt = gen_data(rng, n if w is None else w, malformed, cap=n if w is None else None)
            ellp = x['kind'] == 'm' and key[0] in 'tl' and len(key[1]) == 2 and key[1][0] == KE
            if ellp:
                # (..., IDs) goes through SparseArray column assignment (C09): scalars, or vectors of exactly the indexed length
                if ck[0] in 'tl' and dt[0] == 'v': dt = ['v', (dt[1] + [1.0] * len(ck[1]))[:len(ck[1])]]
                elif dt[0] != 'n': dt = ['n', float(rng.choice(VALS))]
            if whole(x, key) and rng.random() < 0.5:
                dt = ['sv', [float(rng.choice(VALS)) for _ in range(n)]]      # sparse data read from another indexer
            ops.append(['setm' if (not ellp and rng.random() < 0.2) else 'set', i, key, dt])
        elif r < 0.9:
            m = rng.randint(0, len(other))
            cas = rng.sample(other, m) if rng.random() < 0.8 else rng.sample(sorted(set(names + groups)), min(2, len(set(names))))
            if rng.random() < 0.5:
                ops.append(['overlap', cas])
            else:
                ci = [j for j, y in enumerate(ixs) if y['kind'] == 'c']
                ops.append(['mix', rng.choice(ci), cas, [float(rng.choice(VALS[1:])) for _ in cas]])
        elif r < 0.95 and cur:
            j = rng.choice(sorted(cur))
            ph = rng.choice(['g', 'l', 's', 'L', 'S'])
            n = len(specs[pkof[j]]['chems'])
            ops.append([rng.choice(['mixp', 'mixp', 'copyp']), j, ph, [float(rng.choice(VALS)) for _ in range(n)]])
            if ph not in cur[j] and ph.swapcase() not in cur[j]: cur[j] = sorted(cur[j] + [ph])
        elif r < 0.975 and cur:
            j = rng.choice(sorted(cur))
            ops.append(gen_mat_source_op(rng, j, cur, len(specs[pkof[j]]['chems'])))
        else:
            ops.append(['index', gen_chem_key(rng, names, groups, True)])
    case = {'chems': chems, 'cops': cops, 'ixs': ixs, 'ops': ops}
    if pkgs: case['pkgs'] = pkgs
    return case

def big_case(rng, nops):
    """many distinct keys: fills and evicts both caches"""
    chems = gen_package(rng, 4, 8, tidy=True)
    cops = gen_cops(rng, chems, rng.randint(2, 4), tidy=True)
    cops = [c for c in cops if not (c[0] == 'alias' and len(c[2]) == 1)]   # keep phase letters free in big cases
    ids = [c['ID'] for c in chems]
    names = ids + [c['CAS'] for c in chems if c['CAS'] != c['ID']] + [c[2] for c in cops if c[0] == 'alias']
    groups = list(dict.fromkeys(c[1] for c in cops if c[0] == 'group' and len(c[1]) > 1))
    n = len(chems)
    shared = rng.choice(PHASE_SETS[:5])
    ixs = [{'kind': 'c', 'stream': False, 'data': [float(rng.choice(VALS)) for _ in range(n)]},
           {'kind': 'm', 'stream': True, 'phases': list(shared), 'data': [[float(rng.choice(VALS)) for _ in range(n)] for _ in shared]},
           {'kind': 'm', 'stream': False, 'phases': list(shared), 'data': [[float(rng.choice(VALS)) for _ in range(n)] for _ in shared]}]
    other_cas = [c['CAS'] for c in chems]
    seen = []
    ops = []
    focus = rng.choice(['m', 'm', 'c', 'both'])
    cur = {1: sorted(set(shared)), 2: sorted(set(shared))}
    spare = [ph for ph in ['g', 'l', 's', 'L', 'S'] if ph not in shared and ph.swapcase() not in shared]
    expand_at = rng.randrange(nops // 3, 2 * nops // 3) if spare else -1
    pkgs = [gen_extra_package(rng, chems, more=False)] if rng.random() < 0.6 else []
    pkgs = [dict(sp_, cops=[c for c in sp_['cops'] if not (c[0] == 'alias' and len(c[2]) == 1)]) for sp_ in pkgs]
    reset_at = rng.randrange(nops // 4, 3 * nops // 4) if pkgs else -1
    if pkgs and reset_at == expand_at: reset_at += 1
    while len(ops) < nops:
        r = rng.random()
        if len(ops) == reset_at:
            ops.append(['reset', 1, 1])      # indexer 2 stays on the old package and keeps its cache
            continue
        if len(ops) == expand_at:
            ph = rng.choice(spare)
            ops.append([rng.choice(['mixp', 'copyp']), 2, ph, [float(rng.choice(VALS)) for _ in range(n)]])
            cur[2] = sorted(cur[2] + [ph])
            continue
        if r < 0.03 and seen:
            i, key = rng.choice(seen[-50:])
            ops.append(['getm', i, key])
            continue
        if r < 0.12 and seen:
            i, key = rng.choice(seen[-700:]) if rng.random() < 0.8 else rng.choice(seen)
            ops.append(['get', i, key])
            continue
        if r < 0.17:
            cas = rng.sample(other_cas, rng.randint(1, min(n, 4)))
            if rng.random() < 0.5: ops.append(['overlap', cas])
            else: ops.append(['mix', 0, cas, [float(rng.choice(VALS[1:])) for _ in cas]])
            if rng.random() < 0.7:
                # the same CAS tuple as a user key, right after and later
                seen.append((0, kT([kS(c) for c in cas])))
                ops.append(['get', rng.choice([0, 1, 2]), kT([kS(c) for c in cas])])
            continue
        m = rng.choice([1, 2, 2, 3, 3, 3, 4, 4, 5])
        elems = [kS(x) for x in gen_names(rng, names, groups, m, allow_groups=rng.random() < 0.25, dup=0.05)]
        ck = kL(elems) if rng.random() < 0.1 else kT(elems)
        if focus == 'c' or (focus == 'both' and rng.random() < 0.4):
            i, key = 0, ck
        else:
            i = rng.choice([1, 2])
            f = rng.random()
            if f < 0.2: key = ck
            else:
                p = kS(rng.choice(cur[i])) if f < 0.8 else (kS(rng.choice(cur[i]).swapcase()) if f < 0.9 else KE)
                key = kT([p, ck])
        seen.append((i, key))
        if rng.random() < 0.07:
            ops.append(['set', i, key, ['n', float(rng.choice(VALS))] if rng.random() < 0.5 else ['v', [float(rng.choice(VALS)) for _ in range(m)]]])
        else:
            ops.append(['get', i, key])
    case = {'chems': chems, 'cops': cops, 'ixs': ixs, 'ops': ops, 'big': True}
    if pkgs: case['pkgs'] = pkgs
    return case

def _chems4():
    return [{'ID': x, 'CAS': x, 'names': [], 'MW': 16.0} for x in ['A_', 'B_', 'C_', 'D_']]

def corpus_trim():
    """601 distinct keys on one (phases, chemicals) combination: the 500-entry cache must be trimmed"""
    names = ['A_', 'B_', 'C_', 'D_']
    keys = []
    for r in range(1, 5):
        for p in itertools.product(names, repeat=r):
            keys.append(kT([kS('l'), kT([kS(x) for x in p])]))
    keys = keys[:300]
    ops = [['get', 0, k] for k in keys]
    ops += [['get', 0, kT([kS('g'), k[1][1]])] for k in keys]
    ops += [['get', 0, keys[0]], ['get', 0, keys[150]], ['get', 0, keys[299]]]
    return {'chems': _chems4(), 'cops': [], 'ops': ops, 'big': True,
            'ixs': [{'kind': 'm', 'stream': False, 'phases': ['g', 'l'], 'data': [[1.0, 2.0, 0.0, 4.0], [0.5, 0.0, 3.0, 1.0]]}]}

def corpus_overlap():
    """index_overlap caches a CAS tuple; the same tuple is then used as a key"""
    return {'chems': _chems4(), 'cops': [],
            'ixs': [{'kind': 'c', 'stream': False, 'data': [1.0, 2.0, 0.0, 4.0]},
                    {'kind': 'm', 'stream': False, 'phases': ['g', 'l'], 'data': [[1.0, 2.0, 0.0, 4.0], [0.5, 0.0, 3.0, 1.0]]}],
            'ops': [['mix', 0, ['C_', 'A_'], [16.0, 8.0]], ['get', 0, kT([kS('C_'), kS('A_')])], ['get', 0, kT([kS('A_'), kS('C_')])],
                    ['get', 1, kT([kS('C_'), kS('A_')])], ['set', 0, kT([kS('C_'), kS('A_')]), ['v', [1.0, 2.0]]],
                    ['overlap', []], ['get', 0, kT([])], ['overlap', ['C_', 'A_']]]}

def corpus_pell():
    """(phase, ...) and (..., ...)"""
    return {'chems': _chems4(), 'cops': [],
            'ixs': [{'kind': 'm', 'stream': True, 'phases': ['g', 'l'], 'data': [[1.0, 2.0, 0.0, 4.0], [0.5, 0.0, 3.0, 1.0]]}],
            'ops': [['get', 0, kT([kS('l'), KE])], ['get', 0, kT([KE, KE])], ['set', 0, kT([kS('g'), KE]), ['v', [1.0, 0.0, 2.0, 0.0]]],
                    ['set', 0, kT([kS('L'), KE]), ['n', 2.0]], ['get', 0, kT([kS('G'), KE])], ['set', 0, kT([KE, KE]), ['n', 3.0]]]}

def corpus_expand():
    """two multi-phase indexers of one phase set (one class-level cache); one of them gains a phase, so that its rows
    shift, and moves on to another cache; phase-qualified keys are then read and written on both, interleaved"""
    ks = [kS('A_'), kS('C_'), kT([kS('A_'), kS('B_')]), kT([kS('D_'), kS('A_')])]
    ops = []
    for k in ks:
        for ph in ('l', 's'):
            ops += [['get', 0, kT([kS(ph), k])], ['get', 1, kT([kS(ph), k])]]
    ops.append(['mixp', 0, 'g', [100.0, 0.0, 300.0, 0.0]])
    for n_, k in enumerate(ks):
        for ph in ('l', 's'):
            a, b = (0, 1) if n_ % 2 else (1, 0)
            ops += [['get', a, kT([kS(ph), k])], ['get', b, kT([kS(ph), k])]]
    ops += [['get', 0, kT([kS('g'), k])] for k in ks]
    ops += [['set', 1, kT([kS('s'), kS('B_')]), ['n', 7.0]], ['set', 0, kT([kS('l'), kS('B_')]), ['n', 8.0]],
            ['get', 2, kT([kS('s'), kS('B_')])], ['copyp', 1, 'L', [1.0, 2.0, 0.0, 4.0]], ['get', 1, kS('l')], ['get', 1, kS('L')],
            ['copyp', 1, 'g', [0.5, 0.0, 0.0, 4.0]], ['get', 1, kT([kS('s'), kS('A_')])], ['get', 2, kT([kS('s'), kS('A_')])],
            ['get', 0, kT([kS('s'), kS('A_')])], ['mixp', 2, 'S', [1.0, 1.0, 1.0, 1.0]], ['get', 2, kS('s')],
            # several phases at once: the jointly added rows are separate objects
            ['mixm', 2, [['L', [0.0, 0.0, 3.0, 0.0]], ['g', [0.0, 2.0, 0.0, 0.0]], ['l', [1.0, 0.0, 0.0, 0.0]]]],
            ['set', 2, kT([kS('g'), kS('A_')]), ['n', 21.0]], ['get', 2, kT([kS('L'), kS('A_')])], ['get', 2, kS('A_')],
            ['copym', 0, [['L', [1.0, 1.0, 1.0, 1.0]], ['S', [2.0, 0.0, 2.0, 0.0]]]], ['set', 0, kT([kS('S'), kS('B_')]), ['n', 5.0]],
            ['get', 0, kT([kS('L'), kS('B_')])], ['get', 0, kS('B_')], ['copym', 1, [['L', [1.0, 0.0, 0.0, 0.0]], ['s', [0.0, 4.0, 0.0, 0.0]]]],
            ['get', 1, kS('l')]]
    rows = [[1.0, 2.0, 3.0, 0.5], [10.0, 20.0, 30.0, 0.25]]
    return {'chems': _chems4(), 'cops': [], 'ops': ops,
            'ixs': [{'kind': 'm', 'stream': False, 'phases': ['l', 's'], 'data': rows},
                    {'kind': 'm', 'stream': True, 'phases': ['l', 's'], 'data': [[4.0, 5.0, 6.0, 0.0], [40.0, 50.0, 60.0, 2.0]]},
                    {'kind': 'm', 'stream': False, 'phases': ['l', 's'], 'data': [[0.0, 1.0, 0.0, 1.0], [2.0, 0.0, 2.0, 0.0]]}]}

def corpus_mass():
    """the mass view is read first (so it exists and is memoised), then all flows / a whole phase row are overwritten
    with sparse data read from another indexer, then both bases are read; and the same through the mass view"""
    ids = kT([kS('A_'), kS('B_'), kS('C_'), kS('D_')])
    ops = [['getm', 0, ids], ['set', 0, KE, ['sv', [5.0, 0.0, 7.0, 0.0]]], ['get', 0, ids], ['getm', 0, ids], ['getm', 0, kS('G1')],
           ['setm', 0, kS('B_'), ['n', 64.0]], ['get', 0, kS('B_')], ['setm', 0, KE, ['sv', [0.0, 64.0, 0.0, 8.0]]], ['get', 0, ids],
           ['getm', 0, ids], ['set', 0, kS('C_'), ['n', 2.0]], ['getm', 0, kS('C_')], ['setm', 0, kS('G1'), ['n', 16.0]], ['get', 0, ids],
           ['getm', 1, kT([kS('l'), ids])], ['set', 1, kS('l'), ['sv', [5.0, 0.0, 7.0, 0.0]]], ['get', 1, kT([kS('l'), ids])],
           ['getm', 1, kT([kS('l'), ids])], ['getm', 1, kT([kS('g'), ids])], ['getm', 1, ids], ['setm', 1, kS('g'), ['sv', [16.0, 0.0, 0.0, 4.0]]],
           ['get', 1, kS('g')], ['setm', 1, kT([kS('l'), kS('G1')]), ['n', 32.0]], ['get', 1, kS('l')], ['getm', 1, kT([kS('l'), KE])],
           ['set', 1, kT([kS('l'), KE]), ['sv', [1.0, 1.0, 0.0, 0.0]]], ['getm', 1, kS('L')]]
    chems = _chems4()
    for c, mw in zip(chems, [16.0, 32.0, 8.0, 4.0]): c['MW'] = mw
    return {'chems': chems, 'cops': [['group', 'G1', ['C_', 'B_'], [1.0, 3.0], False]], 'ops': ops,
            'ixs': [{'kind': 'c', 'stream': True, 'data': [1.0, 2.0, 3.0, 0.0]},
                    {'kind': 'm', 'stream': False, 'phases': ['g', 'l'], 'data': [[4.0, 5.0, 6.0, 1.0], [1.0, 2.0, 3.0, 0.0]]}]}

def corpus_rebase():
    """a multi-phase indexer is re-based (reset_chemicals) onto a package that orders the chemicals differently and
    defines the group differently, after keys were cached for the old package; a bystander stays on the old package"""
    chems = _chems4()
    for c, mw in zip(chems, [16.0, 32.0, 8.0, 4.0]): c['MW'] = mw
    p1 = {'chems': [dict(chems[k]) for k in (3, 0, 2, 1)], 'cops': [['group', 'G1', ['A_', 'D_'], None, False], ['alias', 'C_', 'cee']]}
    ks = [kS('A_'), kS('D_'), kS('G1'), kT([kS('D_'), kS('A_')]), kT([kS('B_'), kS('G1')])]
    ops = []
    for k in ks: ops += [['get', 0, kT([kS('l'), k])], ['get', 1, kT([kS('l'), k])], ['get', 0, k]]
    ops += [['getm', 0, kT([kS('l'), kS('A_')])], ['reset', 0, 1]]
    for k in ks: ops += [['get', 0, kT([kS('l'), k])], ['get', 1, kT([kS('l'), k])], ['get', 0, k], ['get', 1, k]]
    ops += [['get', 0, kT([kS('g'), kS('cee')])], ['get', 1, kT([kS('g'), kS('C_')])], ['set', 0, kT([kS('l'), kS('D_')]), ['n', 9.0]],
            ['get', 0, kS('l')], ['get', 1, kS('l')], ['set', 1, kT([kS('l'), kS('G1')]), ['n', 8.0]], ['set', 0, kT([kS('l'), kS('G1')]), ['n', 8.0]],
            ['getm', 0, kT([kS('l'), kS('A_')])], ['reset', 2, 1], ['get', 2, kT([kS('D_'), kS('A_')])], ['get', 2, kS('G1')],
            ['reset', 0, 0], ['get', 0, kT([kS('l'), kS('G1')])], ['get', 0, kS('l')]]
    return {'chems': chems, 'cops': [['group', 'G1', ['C_', 'B_'], [1.0, 3.0], False]], 'pkgs': [p1], 'ops': ops,
            'ixs': [{'kind': 'm', 'stream': False, 'phases': ['g', 'l'], 'data': [[1.0, 2.0, 3.0, 4.0], [5.0, 6.0, 7.0, 8.0]]},
                    {'kind': 'm', 'stream': True, 'phases': ['g', 'l'], 'data': [[0.5, 0.0, 2.0, 0.0], [4.0, 5.0, 6.0, 7.0]]},
                    {'kind': 'c', 'stream': False, 'data': [1.0, 0.0, 3.0, 4.0]}]}

def corpus_zero_share():
    """a group with a zero share whose member currently has flow; non-zero scalars on both bases"""
    chems = _chems4()
    ops = [['set', 0, kS('G1'), ['n', 8.0]], ['get', 0, kS('G1')], ['set', 0, KE, ['v', [1.0, 2.0, 3.0, 4.0]]], ['setm', 0, kS('G1'), ['n', -4.0]],
           ['set', 1, kT([kS('l'), kS('G1')]), ['n', 8.0]], ['get', 1, kS('l')], ['set', 1, kT([kS('g'), kT([kS('D_'), kS('G1')])]), ['v', [1.0, 4.0]]],
           ['set', 1, kT([KE, kS('G1')]), ['n', 2.0]], ['set', 0, kS('G2'), ['n', 3.0]], ['get', 0, KE]]
    return {'chems': chems, 'cops': [['group', 'G1', ['C_', 'A_', 'B_'], [1.0, 0.0, 3.0], False], ['group', 'G2', ['D_', 'A_'], [0.0, 1.0], True]],
            'ops': ops, 'ixs': [{'kind': 'c', 'stream': False, 'data': [1.0, 2.0, 3.0, 4.0]},
                                {'kind': 'm', 'stream': False, 'phases': ['g', 'l'], 'data': [[1.0, 2.0, 3.0, 4.0], [5.0, 6.0, 7.0, 8.0]]}]}

CORPUS = [corpus_trim(), corpus_overlap(), corpus_pell(), corpus_expand(), corpus_mass(), corpus_rebase(), corpus_zero_share()]

def gen_cases(rng, tier):
    if tier == 'quick':
        nsmall, nbig = 300, 10
    else:
        nsmall, nbig = 3000, 120
    small = [small_case(rng) for _ in range(nsmall)]
    big = [big_case(rng, rng.choice([700, 900, 1200, 1600])) for _ in range(nbig)]
    nhist = 70 if tier == 'quick' else 900
    hist = [hist_case(rng) for _ in range(nhist)]
    small = [c for pair in itertools.zip_longest(small, hist) for c in pair if c is not None]
    # spread the big cases over the shards
    return spread(small, big, len(CORPUS))

def spread(small, big, offset):
    """order the cases so that the expensive ones are shared evenly between the shards the driver evaluates in parallel
    (the driver cuts the case list into consecutive pieces of vf.SHARD cases)"""
    import vf
    total = offset + len(small) + len(big)
    nsh = max(1, -(-total // vf.SHARD))
    cap = [vf.SHARD] * nsh
    cap[-1] = total - vf.SHARD * (nsh - 1)
    cap[0] -= offset
    per = [[] for _ in range(nsh)]
    cost = [0.06 * cap[i] for i in range(nsh)]
    cost[0] += 4.0
    for c in sorted(big, key=lambda c: -len(c['ops'])):
        k = min((i for i in range(nsh) if len(per[i]) < cap[i]), key=lambda i: cost[i])
        per[k].append(c); cost[k] += len(c['ops']) / 450.0
    it = iter(small)
    out = []
    for i in range(nsh):
        sh = list(per[i])
        while len(sh) < cap[i]:
            sh.append(next(it))
        out += sh
    return out

# ------------------------------------------------------------------ implementation side
def build_packages(case):
    """[main package, extra packages...] with their configuration calls applied, per-package outcomes of those calls;
    None when the main package does not compile"""
    chems, cerr_ = build_package(case)
    if chems is None: return None, None
    P = [chems] + [build_package(spec)[0] for spec in case.get('pkgs', [])]
    oks = []
    for ch, spec in zip(P, [case] + list(case.get('pkgs', []))):
        ok = []
        for c in spec['cops']:
            try: apply_cop(ch, c); ok.append(None)
            except Exception as e: ok.append(err_of(e))
        oks.append(ok)
    return P, oks

def build_package(case):
    """returns (chemicals or None, compile error enum or None)"""
    tmo = env()['tmo']
    cs = []
    for c in case['chems']:
        kw = {}
        if c['CAS'] != c['ID']: kw['CAS'] = c['CAS']
        ch = tmo.Chemical(c['ID'], search_db=False, MW=c['MW'], Hf=0., Cn=64., phase='l', default=True, **kw)
        for nm in c['names']: ch.aliases.add(nm)
        cs.append(ch)
    chems = tmo.Chemicals(cs)
    try:
        chems.compile()
    except Exception as e:
        return None, err_of(e)
    return chems, None

def apply_cop(chems, c):
    if c[0] == 'alias':
        chems.set_alias(c[1], c[2])
    else:
        chems.define_group(c[1], c[2], c[3], c[4])

def build_indexers(case, chems):
    tmo = env()['tmo']; ix = env()['ix']
    from thermosteam.base import SparseVector, SparseArray
    th = None
    out = []
    for x in case['ixs']:
        if x['stream'] and th is None:
            th = tmo.Thermo(chems)
        if x['kind'] == 'c':
            if x['stream']:
                o = tmo.Stream('', thermo=th).imol
            else:
                o = ix.ChemicalMolarFlowIndexer.blank('l', chems)
            for i, v in enumerate(x['data']):
                if v: o.data.dct[i] = float(v)
        else:
            if x['stream']:
                o = tmo.MultiStream('', phases=tuple(x['phases']), thermo=th).imol
            else:
                o = ix.MolarFlowIndexer.blank(tuple(x['phases']), chems)
            assert list(o._phases) == sorted(set(x['phases'])), (o._phases, x['phases'])
            for r, row in enumerate(x['data']):
                for i, v in enumerate(row):
                    if v: o.data.rows[r].dct[i] = float(v)
        out.append(o)
    return out

def dense(o, n):
    a = np.asarray(o.data.to_array(), float)
    if a.ndim == 1: a = a.reshape(1, -1)
    return [[fr_json(frac(v)) for v in row] for row in a]

def canon_val(v):
    from thermosteam.base import SparseVector, SparseArray
    if isinstance(v, (SparseVector, SparseArray)):
        v = v.to_array()
    if isinstance(v, np.ndarray):
        if v.dtype == object: return ['x', repr(v)]
        a = np.asarray(v, float)
        if a.ndim == 0: return ['n', fr_json(frac(a))]
        if a.ndim == 1: return ['v', [fr_json(frac(x)) for x in a]]
        if a.ndim == 2: return ['m', [[fr_json(frac(x)) for x in r] for r in a]]
        return ['x', repr(v)]
    if isinstance(v, (int, float, np.floating, np.integer)):
        return ['n', fr_json(frac(v))]
    return ['x', repr(v)]

def canon_index(v, key):
    """python index value produced for python key `key` -> JSON cindex"""
    if v is None or isinstance(v, slice): return ['all']
    if isinstance(key, str):
        return ['one', ['p', int(v)] if isinstance(v, (int, np.integer)) else ['g', [int(i) for i in v]]]
    return ['many', [['p', int(i)] if isinstance(i, (int, np.integer)) else ['g', [int(j) for j in i]] for i in v]]

def pydata(d, chems=None, mass=False):
    """'sv' = a SparseVector read from another indexer of the same chemicals (through its mass view when the
    write goes through a mass view), which takes the copy-the-dict branch of reset_sparse_chemical_data"""
    if d[0] != 'sv': return d[1]
    ix = env()['ix']
    src = ix.ChemicalMolarFlowIndexer.blank('l', chems)
    MW = chems.MW
    for i, v in enumerate(d[1]):
        if v: src.data.dct[i] = float(v) / float(MW[i]) if mass else float(v)
    # what src[...] / src.by_mass()[...] return, taken without a look-up (the harness must not touch the caches)
    return src.by_mass().data if mass else src.data

def material_source(chems, src):
    """a multi-phase indexer of the same chemicals holding the rows src = [[phase, values], ...]"""
    ix = env()['ix']
    m = ix.MolarFlowIndexer.blank(tuple(p for p, _ in src), chems)
    for p, vals in src:
        row = m.data.rows[m._phases.index(p)]
        for i, v in enumerate(vals):
            if v: row.dct[i] = float(v)
    return m

def phase_source(chems, phase, vals):
    ix = env()['ix']
    g = ix.ChemicalMolarFlowIndexer.blank(phase, chems)
    for i, v in enumerate(vals):
        if v: g.data.dct[i] = float(v)
    return g

def make_other(cas):
    """a second property package whose CAS numbers are `cas` (in this order)"""
    tmo = env()['tmo']
    cs = []
    for i, c in enumerate(cas):
        if c[:1].isdigit():     # a CAS number given explicitly must be numeric; otherwise CAS defaults to the ID
            cs.append(tmo.Chemical(f'o{i}_', search_db=False, CAS=c, MW=8., Hf=0., Cn=64., phase='l', default=True))
        else:
            cs.append(tmo.Chemical(c, search_db=False, MW=8., Hf=0., Cn=64., phase='l', default=True))
    o = tmo.Chemicals(cs); o.compile()
    return o

def run_ops(case, P, ixs, on_op=None, seen_phases=None, pk_of=None):
    """P: the property packages (P[0] is the main one); pk_of[i]: the package indexer i is on (updated by 'reset')"""
    ix = env()['ix']
    obs = []
    if not isinstance(P, list): P = [P]
    if seen_phases is None: seen_phases = set()
    if pk_of is None: pk_of = [0] * len(ixs)
    for op in case['ops']:
        kind = op[0]
        pk = pk_of[op[1]] if kind not in ('overlap', 'index') else 0
        chems = P[pk]; n = chems.size
        if kind == 'reset':
            o = ixs[op[1]]
            o.reset_chemicals(P[op[2]])
            pk_of[op[1]] = op[2]
            ob = {'w': None, 'd': dense(o, P[op[2]].size)}
            if hasattr(o, '_phases'): seen_phases.add((op[2], tuple(o._phases)))
            obs.append(ob)
            if on_op: on_op(op, ob)
            continue
        if kind in ('get', 'getm'):
            o = ixs[op[1]]
            try:
                ob = {'v': canon_val((o.by_mass() if kind == 'getm' else o)[pykey(op[2])])}
            except Exception as e:
                ob = {'e': err_of(e), 'msg': f'{type(e).__name__}: {e}'[:120]}
        elif kind in ('mixp', 'copyp'):
            o = ixs[op[1]]
            g = phase_source(chems, op[2], op[3])
            if kind == 'mixp': o.mix_from([o, g])
            else: o.copy_like(g)
            ob = {'ph': list(o._phases), 'd': dense(o, n)}
            seen_phases.add((pk, tuple(o._phases)))
        elif kind in ('mixm', 'copym'):
            o = ixs[op[1]]
            m = material_source(chems, op[2])
            if kind == 'mixm': o.mix_from([o, m])
            else: o.copy_like(m)
            ob = {'ph': list(o._phases), 'd': dense(o, n)}
            seen_phases.add((pk, tuple(o._phases)))
        elif kind in ('set', 'setm'):
            o = ixs[op[1]]
            try:
                (o.by_mass() if kind == 'setm' else o)[pykey(op[2])] = pydata(op[3], chems, kind == 'setm')
                ob = {'w': None}
            except Exception as e:
                ob = {'w': err_of(e), 'msg': f'{type(e).__name__}: {e}'[:120]}
            ob['d'] = dense(o, n)
        elif kind == 'overlap':
            other = make_other(op[1])
            try:
                li, ri = ix.index_overlap(chems, other, list(range(len(op[1]))))
                ob = {'i': canon_index(li, ())}
            except Exception as e:
                ob = {'e': err_of(e), 'msg': f'{type(e).__name__}: {e}'[:120]}
        elif kind == 'mix':
            o = ixs[op[1]]
            other = make_other(op[2])
            src = ix.ChemicalMolarFlowIndexer.blank('l', other)
            for j, v in enumerate(op[3]):       # insertion order of the dict = order of right_index
                src.data.dct[j] = float(v)
            try:
                o.mix_from([src])
                ob = {'w': None}
            except Exception as e:
                ob = {'w': err_of(e), 'msg': f'{type(e).__name__}: {e}'[:120]}
            ob['d'] = dense(o, n)
        elif kind == 'index':
            k = pykey(op[1])
            try:
                ob = {'i': canon_index(chems.get_index(k), k)}
            except Exception as e:
                ob = {'e': err_of(e), 'msg': f'{type(e).__name__}: {e}'[:120]}
        else:
            raise ValueError(kind)
        obs.append(ob)
        if on_op: on_op(op, ob)
    return obs

def canon_mval(key, v):
    index, kind, sap = v
    if sap:
        mi = ['chem', canon_index(index, key)]
    elif kind is None and not isinstance(index, tuple):
        mi = ['none'] if index is None else ['phase', int(index)]
    else:
        pi, ci = index
        mi = ['pair', None if pi is None else int(pi), canon_index(ci, key[1])]
    return [mi, kind, bool(sap)]

def run_impl(case):
    if case.get('hist'): return run_impl_hist(case)
    chems, cerr = build_package(case)
    out = {'compile_err': cerr}
    if chems is None:
        return out
    cerrs = []
    for c in case['cops']:
        try:
            apply_cop(chems, c); cerrs.append(None)
        except Exception as e:
            cerrs.append(err_of(e))
    out['cop_errs'] = cerrs
    out['table'] = sorted([[k, ['p', int(v)] if isinstance(v, (int, np.integer)) else ['g', [int(i) for i in v]]]
                           for k, v in chems._index.items()])
    out['absent'] = sorted(set(x for x in NAME_POOL + ALIAS_POOL + GROUP_POOL + LETTERS + CAS_POOL + ['nope'] if x not in chems._index))
    out['comps'] = sorted([[k, [fr_json(frac(x)) for x in v]] for k, v in chems._group_mol_compositions.items()])
    out['wcomps'] = sorted([[k, [fr_json(frac(x)) for x in v]] for k, v in chems._group_wt_compositions.items()])
    P = [chems]; out['other_errs'] = []
    for spec in case.get('pkgs', []):
        ch, e = build_package(spec)
        assert ch is not None, 'extra packages are generated well-formed'
        errs = []
        for c in spec['cops']:
            try: apply_cop(ch, c); errs.append(None)
            except Exception as ex: errs.append(err_of(ex))
        P.append(ch); out['other_errs'].append(errs)
    ixs = build_indexers(case, chems)
    pk_of = [0] * len(ixs)
    seen_phases = set((0, tuple(o._phases)) for o, x in zip(ixs, case['ixs']) if x['kind'] == 'm')
    out['obs'] = run_ops(case, P, ixs, seen_phases=seen_phases, pk_of=pk_of)
    out['cc'] = [[[key_of_py(k), canon_index(v[0], k), v[1]] for k, v in ch._index_cache.items()] for ch in P]
    # every class-level cache the packages ever used (an indexer that gained a phase or was re-based moved on to another one)
    caches = env()['ix'].MaterialIndexer._index_caches
    out['mc'] = [[pk, list(phs), [[key_of_py(k), canon_mval(k, v)] for k, v in caches.get((phs, P[pk]), {}).items()]]
                 for pk, phs in sorted(seen_phases)]
    for o, x, pk in zip(ixs, case['ixs'], pk_of):
        assert o._chemicals is P[pk]
        if x['kind'] == 'm':
            assert o._index_cache is caches[(tuple(o._phases), P[pk])], 'indexer does not use the cache registered for (its phases, its chemicals)'
    return out

# ------------------------------------------------------------------ model side
def ctarget(t):
    return (f'p{t[1]}' if t[1] < 9 else f'(Pos {cnat(t[1])})') if t[0] == 'p' else f'(g_ {clist(t[1], cnat)})'

def ccindex(c):
    if c[0] == 'all': return 'CAll'
    if c[0] == 'one': return f'(co {ctarget(c[1])})'
    return f'(cy {clist([ctarget(t) for t in c[1]])})'

def ckind(k):
    return 'None' if k is None else (f's{k}' if k in (0, 1, 2, 3) else f'(Some {cnat(k)})')

def cmentry(k, v):
    mi, kind, sap = v
    if mi[0] == 'chem' and sap: return f'(emc {ckey(k)} {ccindex(mi[1])} {ckind(kind)})'
    if mi[0] == 'none' and kind is None and not sap: return f'(eno {ckey(k)})'
    if mi[0] == 'phase' and kind is None and not sap: return f'(eph {ckey(k)} {mi[1]})'
    if mi[0] == 'pair' and not sap: return f'(emp {ckey(k)} {copt(mi[1], cnat)} {ccindex(mi[2])} {ckind(kind)})'
    raise ValueError(f'unexpected cache value {v}')

def cerr(e):
    return 'None' if e is None else f'(Some {e})'

def cvec(v):
    return qlist([F(x) for x in v])

def cdata(d):
    if d[0] == 'n': return f'(DNum {q(d[1])})'
    if d[0] in ('v', 'sv'): return f'(DVec {qlist(d[1])})'
    return f'(DMat {clist([qlist(r) for r in d[1]])})'

def cop_term(op):
    k = op[0]
    if k in ('get', 'set'): return cop_term0(op)
    if k == 'reset': return f'(MReset {cnat(op[1])} {cnat(op[2])})'
    return f'(mo {cop_term0(op)})'

def cop_term0(op):
    k = op[0]
    if k == 'get': return f'(og {op[1]} {ckey(op[2])})'
    if k == 'set': return f'(os {op[1]} {ckey(op[2])} {cdata(op[3])})'
    if k == 'overlap': return f'(OOverlap {clist(op[1], cstr)})'
    if k == 'mix': return f'(OMix {cnat(op[1])} {clist(op[2], cstr)} {qlist(op[3])})'
    if k == 'index': return f'(OIndex {ckey(op[1])})'
    if k == 'getm': return f'(OGetMass {cnat(op[1])} {ckey(op[2])})'
    if k == 'setm': return f'(OSetMass {cnat(op[1])} {ckey(op[2])} {cdata(op[3])})'
    if k == 'mixp': return f'(OMixPhase {cnat(op[1])} {cstr(op[2])} {qlist(op[3])})'
    if k == 'copyp': return f'(OCopyPhase {cnat(op[1])} {cstr(op[2])} {qlist(op[3])})'
    if k in ('mixm', 'copym'):
        src = clist([f'({cstr(p_)}, {qlist(v)})' for p_, v in sorted(op[2])])
        return f'({"OMixMat" if k == "mixm" else "OCopyMat"} {cnat(op[1])} {src})'
    raise ValueError(k)

def cobs(ob):
    if 'v' in ob:
        v = ob['v']
        if v[0] == 'n': return f'(bn {q(F(v[1]))})'
        if v[0] == 'v': return f'(bv {cvec(v[1])})'
        if v[0] == 'm': return f'(bm {clist([cvec(r) for r in v[1]])})'
        raise ValueError(f'unmodelled value {v}')
    if 'e' in ob: return f'(be {ob["e"]})'
    if 'i' in ob: return f'(BIdx {ccindex(ob["i"])})'
    if 'ph' in ob: return f'(BPh {clist(ob["ph"], cstr)} {clist([cvec(r) for r in ob["d"]])})'
    return f'(bw {cerr(ob["w"])} {clist([cvec(r) for r in ob["d"]])})'

def cixr(x):
    if x['kind'] == 'c': return f'(IC {qlist(x["data"])})'
    return f'(IM {clist(sorted(set(x["phases"])), cstr)} {clist([qlist(r) for r in x["data"]])})'

def case_args(case, out):
    chems = clist([f'(mkchem {cstr(c["ID"])} {cstr(c["CAS"])} {clist(sorted(set(x for x in c["names"] if x)), cstr)} {q(c["MW"])})'
                   for c in case['chems']])
    cops = clist([f'(CAlias {cstr(c[1])} {cstr(c[2])})' if c[0] == 'alias' else
                  f'(CGroup {cstr(c[1])} {clist(c[2], cstr)} {copt(c[3], qlist)} {cbool(c[4])})' for c in case['cops']])
    return chems, cops

def others_arg(case):
    return clist(['(%s, %s)' % case_args(spec, None) for spec in case.get('pkgs', [])])

def coq_case(case, out):
    if case.get('hist'): return coq_case_hist(case, out)
    chems, cops = case_args(case, out)
    if out.get('compile_err'):
        return f'(mcase_eqb {VARIANT} {chems} {cops} (Some {out["compile_err"]}) [] [] [] [] [] [] [] [] [] [] [] [])'
    table = clist([f'({cstr(k)}, {ctarget(t)})' for k, t in out['table']])
    absent = clist(out['absent'], cstr)
    comps = clist([f'({cstr(k)}, {cvec(v)})' for k, v in out['comps']])
    comps += ' ' + clist([f'({cstr(k)}, {cvec(v)})' for k, v in out['wcomps']])
    ixs = clist([cixr(x) for x in case['ixs']])
    ops = clist([cop_term(o) for o in case['ops']])
    obs = clist([cobs(o) for o in out['obs']])
    cc = clist([clist([f'(ec {ckey(k)} {ccindex(i)} {ckind(kd)})' for k, i, kd in ents]) for ents in out['cc']])
    mc = clist([f'({cnat(pk)}, ({clist(ph, cstr)}, {clist([cmentry(k, v) for k, v in ents])}))' for pk, ph, ents in out['mc']])
    oerrs = clist([clist(es, cerr) for es in out['other_errs']])
    return (f'(mcase_eqb {VARIANT} {chems} {cops} None {clist(out["cop_errs"], cerr)} {table} {absent} {comps} '
            f'{others_arg(case)} {oerrs} {ixs} {ops} {obs} {cc} {mc})')

def coq_show(case, out):
    if case.get('hist'): return coq_show_hist(case, out)
    chems, cops = case_args(case, out)
    ixs = clist([cixr(x) for x in case['ixs']])
    ops = clist([cop_term(o) for o in case['ops'][:80]])
    return (f'(match compile {chems} with Err e => None | Ok c0 => let (c, es) := cbuild c0 {cops} in '
            f'let cs := c :: map (fun x => fst (build_pkg x)) {others_arg(case)} in '
            f'Some (es, tb c, comps c, snd (mrun {VARIANT} cs (minit (length cs) {ixs}) {ops})) end)')

def nontrivial(case, out):
    obs = out.get('obs', [])
    return sum(1 for o in obs if 'v' in o or 'ph' in o or 'sv' in o or ('w' in o and o['w'] is None) or ('sw' in o and o['sw'] is None)) >= 5

def classify(case, out):
    ks = ['size:%d' % len(case['chems']), 'big' if case.get('big') else 'small']
    if case.get('hist'): return ks + classify_hist(case, out)
    if out.get('compile_err'): ks.append('compile:' + out['compile_err'])
    for c, e in zip(case['cops'], out.get('cop_errs', [])):
        ks.append(f'cfg:{c[0]}:{e or "ok"}')
    for op, ob in zip(case['ops'], out.get('obs', [])):
        if 'v' in ob: ks.append(f'op:{op[0]}:ok:{ob["v"][0]}')
        elif 'e' in ob: ks.append(f'op:{op[0]}:{ob["e"]}')
        elif 'i' in ob: ks.append(f'op:{op[0]}:ok')
        elif 'ph' in ob: ks.append(f'op:{op[0]}:phases={len(ob["ph"])}')
        else: ks.append(f'op:{op[0]}:{ob["w"] or "ok"}')
    if 'cc' in out:
        ks.append('chem-cache-full' if len(out['cc'][0]) >= 100 else 'chem-cache-partial')
        ks.append('packages:%d' % len(out['cc']))
        for pk_, ph, ents in out['mc']:
            ks.append('mat-cache>=400' if len(ents) >= 400 else 'mat-cache<400')
    keys = set()
    for op in case['ops']:
        if op[0] in ('get', 'set'): keys.add((op[1], repr(op[2])))
    ks.append('distinct-keys>500' if len(keys) > 500 else ('distinct-keys>100' if len(keys) > 100 else 'distinct-keys<=100'))
    return ks

# ------------------------------------------------------------------ direct oracle: the property on the implementation
def spec_positions(index, key):
    """positions denoted by a chemical key, from chemicals._index alone.
    Returns ('all',) | ('one', [pos...]) | ('many', [[pos...], ...]) or None when the key is not valid."""
    def one(name):
        if not isinstance(name, str) or name not in index: return None
        v = index[name]
        return [int(v)] if isinstance(v, (int, np.integer)) else [int(i) for i in v]
    if key is ...: return ('all',)
    if isinstance(key, str):
        p = one(key)
        return None if p is None else ('one', p, not isinstance(index[key], (int, np.integer)))
    if isinstance(key, (tuple, list)):
        ps = [one(k) for k in key]
        if any(p is None for p in ps): return None
        return ('many', ps)
    return None

def spec_phase(phases, p):
    """row of a phase key: exact, else case-insensitive when unambiguous"""
    if not isinstance(p, str) or len(p) != 1: return None
    if p in phases: return phases.index(p)
    sw = p.swapcase()
    if sw in phases: return phases.index(sw)
    return None

def spec_read(index, arr, phases, key):
    """expected value of indexer[key] from the dense data, or None if the key is not a valid key.
    arr: 2-d dense array (one row per phase); phases None for single-phase data."""
    def chem_part(a, sp):
        if sp[0] == 'all': return a.copy()
        if sp[0] == 'one': return float(sum(a[i] for i in sp[1]))
        return np.array([float(sum(a[i] for i in ps)) for ps in sp[1]])
    if phases is None:
        sp = spec_positions(index, key)
        return None if sp is None else chem_part(arr[0], sp)
    sp = spec_positions(index, key)
    if sp is not None:
        return chem_part(arr.sum(0), sp)          # chemical names take precedence; phases summed
    if isinstance(key, str):
        r = spec_phase(phases, key)
        return None if r is None else arr[r].copy()
    if isinstance(key, (tuple, list)) and len(key) == 2:
        p, k = key
        sp = spec_positions(index, k)
        if sp is None: return None
        if p is ...:
            if sp[0] == 'all': return arr.copy()
            return np.array([chem_part(a, sp) for a in arr])
        r = spec_phase(phases, p)
        if r is None: return None
        return chem_part(arr[r], sp)
    return None

def close(a, b, tol=1e-9):
    a = np.asarray(a, float); b = np.asarray(b, float)
    if a.shape != b.shape: return False
    return bool(np.all(np.abs(a - b) <= tol * np.maximum(1, np.maximum(np.abs(a), np.abs(b)))))

def tag_of(e, chems=None):
    s = f'{type(e).__name__}: {e}'
    if "'int' object is not iterable" in s: return 'trim_cache'
    if "unhashable type: 'list'" in s: return 'overlap_kind'
    if 'list indices must be integers' in s: return 'phase_ellipsis'
    if chems is not None and any(isinstance(k, tuple) and v[1] == 0 for k, v in chems._index_cache.items()):
        return 'overlap_kind'      # a tuple key cached as a single chemical: same defect, other symptom
    return type(e).__name__

def ell_pair(phases, key):
    return phases is not None and isinstance(key, (tuple, list)) and len(key) == 2 and key[0] is ...

def flat(sp, n):
    if sp[0] == 'all': return list(range(n))
    if sp[0] == 'one': return list(sp[1])
    return [i for ps in sp[1] for i in ps]

def declared(case, cop_ok, impl_index):
    """name -> position / member positions IN THE USER'S ORDER, and mol compositions in that order, computed from
    the declarations of the case (not read back from the implementation)"""
    idx = {}
    for i, c in enumerate(case['chems']): idx[c['CAS']] = i
    for i, c in enumerate(case['chems']): idx[c['ID']] = i
    for i, c in enumerate(case['chems']):
        for nm in set(c['names']):
            if nm and sum(1 for c2 in case['chems'] if nm in c2['names']) == 1: idx[nm] = i
    mw = [c['MW'] for c in case['chems']]
    comps = {}; wcomps = {}
    for c, ok in zip(case['cops'], cop_ok):
        if c[0] == 'alias':
            src, al = c[1], c[2]
            if src in idx and (ok or isinstance(idx[src], list)) and (al not in idx or idx[al] == idx[src]):
                idx[al] = idx[src]
        elif ok:
            name, members, comp, wt = c[1], c[2], c[3], c[4]
            pos = [idx.get(m) for m in members]
            if any(not isinstance(q_, int) for q_ in pos):       # malformed member list: nothing to say
                idx[name] = impl_index.get(name); comps.pop(name, None); wcomps.pop(name, None); continue
            x = np.ones(len(members)) if comp is None else np.array(comp, float)
            mwp = np.array([mw[q_] for q_ in pos])
            xm = x / mwp if wt else x
            xw = x if wt else x * mwp
            idx[name] = pos
            comps[name] = xm / xm.sum() if len(x) else xm
            wcomps[name] = xw / xw.sum() if len(x) else xw
    return idx, comps, wcomps

def probe_config(case):
    """the case's package plus: a group with a zero share, a group given by weight with members out of chemical order,
    and a second package over the same chemicals in reverse order that defines the first group differently"""
    ids = [c['ID'] for c in case['chems']]
    used = set(ids) | set(c['CAS'] for c in case['chems']) | set(x for c in case['chems'] for x in c['names']) | set(c[1] for c in case['cops']) | set(c[2] for c in case['cops'] if c[0] == 'alias')
    cops = list(case['cops'])
    k = min(3, len(ids))
    if k >= 2 and 'Gzero_' not in used:
        cops.append(['group', 'Gzero_', ids[:k][::-1], [1.0, 0.0, 3.0][:k], False])
    if k >= 2 and 'Gwt_' not in used:
        cops.append(['group', 'Gwt_', ids[-k:][::-1], [3.0, 1.0, 4.0][:k], True])
    rev = [{'ID': c['ID'], 'CAS': c['CAS'], 'names': [], 'MW': c['MW']} for c in case['chems']][::-1]
    p1 = {'chems': rev, 'cops': [['group', 'Gzero_', [rev[0]['ID']], None, False]] if 'Gzero_' not in used else []}
    return dict(case, cops=cops, pkgs=[p1])

def probe_case(case, index, comps):
    """systematic writes on data whose entries are all non-zero: scalars 0 / 0.0 / -0.0 and a non-zero scalar through
    every key form (names, groups, tuples and lists of names, tuples mixing chemicals and groups in both orders, the
    ellipsis; phase-qualified for multi-phase data)"""
    n = len(case['chems'])
    ids = [c['ID'] for c in case['chems']]
    base = [float(i) + 1.5 for i in range(n)]
    names = [k for k, v in index.items() if isinstance(v, int)]
    groups = [g for g in comps if isinstance(index.get(g), list) and len(set(index[g])) == len(index[g])]
    keys = [kS(x) for x in ids] + [kS(x) for x in names if x not in ids][:4] + [kS(g) for g in groups]
    keys += [kT([kS(x) for x in ids]), kL([kS(x) for x in reversed(ids)]), KE]
    if names: keys.append(kT([kS(names[-1])]))
    for g in groups:
        outside = [x for x in ids if index[x] not in index[g]]
        keys.append(kT([kS(g)]))
        for x in outside[:2]:
            keys += [kT([kS(x), kS(g)]), kT([kS(g), kS(x)]), kL([kS(x), kS(g)])]
        for g2 in groups:
            if g2 != g and not set(index[g]) & set(index[g2]):
                keys.append(kT([kS(g), kS(g2)]))
                rest = [x for x in ids if index[x] not in index[g] + index[g2]]
                if rest: keys.append(kT([kS(g), kS(rest[0]), kS(g2)]))
    phs = ['g', 'l']
    ixs = [{'kind': 'c', 'stream': False, 'data': list(base)},
           {'kind': 'm', 'stream': False, 'phases': phs, 'data': [list(base), [2 * v for v in base]]},
           {'kind': 'm', 'stream': False, 'phases': phs, 'data': [[3 * v for v in base], [4 * v for v in base]]}]
    idk = kT([kS(x) for x in ids])
    # the mass views exist from the start; rows are reset alternately with plain and with sparse data
    ops = [['getm', 0, KE], ['getm', 1, kS('l')], ['getm', 2, idk]]
    m = 0
    for k in keys:
        for val in (0, 0.0, -0.0, 5.0):
            m += 1
            ops.append(['set', 0, KE, ['sv' if m % 2 else 'v', list(base)]])
            ops.append(['set', 0, k, ['n', val]])
            ops.append(['set', 1, kS('l'), ['sv' if m % 2 else 'v', [2 * v for v in base]]])
            ops.append(['set', 1, kT([kS('l'), k]), ['n', val]])
        ops += [['getm', 0, k], ['getm', 1, kT([kS('l'), k])]]
    ops += [['setm', 0, KE, ['sv', list(base)]], ['get', 0, idk], ['setm', 1, kS('g'), ['sv', list(base)]], ['get', 1, kT([kS('g'), idk])]]
    # two indexers of one phase set; one gains a phase, then the other
    ops += [['get', 1, kT([kS('l'), idk])], ['get', 2, kT([kS('l'), idk])], ['mixp', 1, 's', list(base)],
            ['set', 2, kT([kS('l'), kS(ids[0])]), ['n', 9.0]], ['set', 1, kT([kS('l'), kS(ids[0])]), ['n', 11.0]],
            ['copyp', 2, 'S', list(base)], ['get', 1, kT([kS('s'), idk])], ['get', 2, kT([kS('s'), idk])],
            ['mixm', 1, [['L', list(base)], ['S', [2 * v for v in base]]]], ['copym', 2, [['L', list(base)], ['s', [2 * v for v in base]]]]]
    # two indexers share a cache; one is re-based onto the reversed package, then both are used; then the single-phase one
    ixs.append({'kind': 'm', 'stream': False, 'phases': phs, 'data': [list(base), [5 * v for v in base]]})
    ixs.append({'kind': 'm', 'stream': False, 'phases': phs, 'data': [[6 * v for v in base], [7 * v for v in base]]})
    for k in keys[:8]:
        ops += [['get', 3, kT([kS('l'), k])], ['get', 4, kT([kS('g'), k])], ['get', 3, k]]
    ops += [['getm', 3, kT([kS('l'), idk])], ['reset', 3, 1]]
    for k in keys[:8]:
        ops += [['get', 3, kT([kS('l'), k])], ['get', 4, kT([kS('l'), k])], ['get', 3, k], ['get', 4, k]]
    ops += [['set', 3, kT([kS('l'), kS(ids[0])]), ['n', 13.0]], ['set', 4, kT([kS('l'), kS(ids[-1])]), ['n', 17.0]], ['getm', 3, kT([kS('l'), idk])],
            ['reset', 0, 1], ['get', 0, idk], ['set', 0, kS(ids[0]), ['n', 3.0]], ['reset', 3, 0], ['get', 3, kT([kS('l'), idk])]]
    return dict(case, ixs=ixs, ops=ops, probe=True)

def oracle(case):
    """name-keyed access vs positional access on the dense data, along the whole history, then the
    systematic probe writes of probe_case on the same property package"""
    if case.get('hist'): return oracle_hist(case)
    msg = oracle_core(case)
    if msg or case.get('probe'): return msg
    ext = probe_config(case)
    P, oks = build_packages(ext)
    if P is None: return None
    index, comps, wcomps = declared(ext, [e is None for e in oks[0]], dict(P[0]._index))
    msg = oracle_core(probe_case(ext, index, comps))
    return None if msg is None else 'probe-' + msg

def oracle_core(case):
    from thermosteam.base import SparseVector, SparseArray
    P, oks = build_packages(case)
    if P is None: return None
    specs = [case] + list(case.get('pkgs', []))
    D = []        # per package: what the declarations say (table, compositions, MW, IDs)
    for ch, spec, ok in zip(P, specs, oks):
        idx_, cm_, cw_ = declared(spec, [e is None for e in ok], dict(ch._index))
        D.append({'index': {k: v for k, v in idx_.items() if v is not None}, 'cm': cm_, 'cw': cw_, 'chems': ch, 'n': ch.size,
                  'MW': np.array([c['MW'] for c in spec['chems']], float), 'ids': tuple(c['ID'] for c in spec['chems']),
                  'cas': [c['CAS'] for c in spec['chems']], 'spec': spec})
    pk_of = [0] * len(case['ixs'])
    def ctx(j): return D[pk_of[j]]
    def where(o): return next(j for j, y in enumerate(ixs) if y is o)

    def rows_of(o):
        a = np.asarray(o.data.to_array(), float)
        return a.reshape(1, -1) if a.ndim == 1 else a

    def both_bases(num, what):
        """the mass view (memoised, possibly created long ago) and the molar data describe the same flows"""
        for j, o in enumerate(ixs):
            if 'mass' not in o._data_cache: continue
            m = np.asarray(o.by_mass().data.to_array(), float)
            if m.ndim == 1: m = m.reshape(1, -1)
            if not close(m, rows_of(o) * ctx(j)['MW']):
                return (f'mass-view: op {num}: after {what} the mass view of indexer {j} holds {m.tolist()} '
                        f'but the molar data times MW are {(rows_of(o) * ctx(j)["MW"]).tolist()}')
        return None

    def independent_rows(num, what, o):
        """a write through (phase, ID) changes that entry only -- in particular not the same entry of another row"""
        ID = ctx(where(o))['ids'][0]
        for r, ph in enumerate(o._phases):
            if ph in ctx(where(o))['index']: continue
            before = rows_of(o)
            try:
                o[ph, ID] = 977.0 + r
            except Exception as e:
                return f'row-frame: op {num}: after {what}: writing ({ph!r}, {ID!r}) raised {type(e).__name__}: {e}'
            exp = before.copy(); exp[r, 0] = 977.0 + r
            got = rows_of(o)
            if not close(got, exp):
                return (f'row-frame: op {num}: after {what}: indexer[{ph!r}, {ID!r}] = {977.0 + r} turned the data (phases {o._phases}) '
                        f'into {got.tolist()} instead of {exp.tolist()}')
            o[ph, ID] = float(before[r, 0])
        return None

    def sweep(num, what):
        """phase-qualified reads on EVERY multi-phase indexer, interleaved, against its own rows"""
        ms = [(j, o) for j, (o, x) in enumerate(zip(ixs, case['ixs'])) if x['kind'] == 'm']
        for j, (o, x) in enumerate(zip(ixs, case['ixs'])):
            if x['kind'] == 'c':            # single-phase indexers: all IDs of their package
                ids = ctx(j)['ids']
                try:
                    got = o[ids]
                except Exception as e:
                    return f'phase-rows: op {num}: after {what}, indexer {j}: reading {ids!r} raised {type(e).__name__}: {e}'
                if not close(got, rows_of(o)[0]):
                    return f'phase-rows: op {num}: after {what}, indexer {j}: {ids!r} reads {np.asarray(got).tolist()} but the data are {rows_of(o)[0].tolist()}'
        for rnd in range(2):
            for j, o in (ms if rnd == 0 else ms[::-1]):
                ids = ctx(j)['ids']
                for r, ph in enumerate(o._phases):
                    if ph in ctx(j)['index']: continue          # a chemical, alias or group named like the phase takes precedence
                    for key in ((ph, ids), (ph, ids[0]), (ph, ...)):
                        try:
                            got = o[key]
                        except Exception as e:
                            return f'phase-rows: op {num}: after {what}, indexer {j} (phases {o._phases}): reading {key!r} raised {type(e).__name__}: {e}'
                        if isinstance(got, (SparseVector, SparseArray)): got = got.to_array()
                        exp = rows_of(o)[r] if key[1] is ... or isinstance(key[1], tuple) else rows_of(o)[r][0]
                        if not close(got, exp):
                            return (f'phase-rows: op {num}: after {what}, indexer {j} (phases {o._phases}): {key!r} reads {np.asarray(got).tolist()} '
                                    f'but row {r} holds {np.asarray(exp).tolist()}')
        return None

    # every declared name resolves to the declared position(s), group members in the user's order
    for d_ in D:
        for nm, v in d_['index'].items():
            try:
                got = d_['chems'].index(nm)
            except Exception as e:
                return f'names:{type(e).__name__}: declared name {nm!r} does not resolve: {e}'
            if isinstance(v, int):
                if got != v: return f'names:wrong-position: name {nm!r} of chemical {v} resolves to {got}'
        # a name carried by two chemicals belongs to neither: it must not resolve (unless an alias/group call defined it later)
        for nm in sorted(set(x_ for c in d_['spec']['chems'] for x_ in c['names'] if x_)):
            owners = [i for i, c in enumerate(d_['spec']['chems']) if nm in c['names']]
            if len(owners) > 1 and nm not in d_['index'] and nm in d_['chems']._index:
                return f'names:ambiguous: name {nm!r} is shared by chemicals {owners} but resolves to {d_["chems"]._index[nm]}'
    ixs = build_indexers(case, P[0])
    ix = env()['ix']
    for num, op in enumerate(case['ops']):
        kind = op[0]
        mass = kind in ('getm', 'setm')
        if mass: kind = kind[:-1]
        d_ = D[0] if kind in ('overlap', 'index') else ctx(op[1])
        index, comps_mol, comps_wt, MW, n, chems = d_['index'], d_['cm'], d_['cw'], d_['MW'], d_['n'], d_['chems']
        comps = comps_wt if mass else comps_mol
        if kind == 'reset':
            o = ixs[op[1]]; new_ = D[op[2]]
            before = rows_of(o)
            exp = np.zeros((before.shape[0], new_['n']))
            for j_, cas_ in enumerate(d_['cas']):
                if before[:, j_].any(): exp[:, new_['index'][cas_]] = before[:, j_]
            what = f'indexer {op[1]} was re-based (reset_chemicals) from package {pk_of[op[1]]} {d_["ids"]} onto package {op[2]} {new_["ids"]}'
            try:
                o.reset_chemicals(new_['chems'])
            except Exception as e:
                return f'rebase: op {num}: {what} raised {type(e).__name__}: {e}'
            pk_of[op[1]] = op[2]
            if not close(rows_of(o), exp):
                return f'rebase: op {num}: {what}: data {rows_of(o).tolist()} instead of {exp.tolist()}'
            msg = sweep(num, what) or (independent_rows(num, what, o) if case['ixs'][op[1]]['kind'] == 'm' else None) or both_bases(num, what)
            if msg: return 'rebase-' + msg
            continue
        if kind in ('get', 'set'):
            o = ixs[op[1]]
            x = case['ixs'][op[1]]
            key = pykey(op[2])
            phases = None if x['kind'] == 'c' else list(o._phases)
            arr = rows_of(o) * MW if mass else rows_of(o)
            expected = spec_read(index, arr, phases, key)
            tgt = o.by_mass() if mass else o          # the view is created here at the latest
            nm_ = 'indexer.by_mass()' if mass else 'indexer'
        if kind in ('mixm', 'copym'):
            o = ixs[op[1]]
            before = rows_of(o); old = list(o._phases); src = sorted(op[2]); sp = [p_ for p_, _ in src]
            if kind == 'mixm':
                grow = any(spec_phase(old, p_) is None for p_ in sp)
            else:
                grow = not (old == sp or [x_.lower() for x_ in old] == [x_.lower() for x_ in sp])
            new = sorted(set(old) | set(sp)) if grow else old
            exp = np.zeros((len(new), n))
            if kind == 'mixm':
                for k_, q_ in enumerate(old): exp[new.index(q_)] = before[k_]
            for p_, v_ in src:
                r = spec_phase(new, p_)
                if kind == 'mixm': exp[r] += np.array(v_, float)
                else: exp[r] = np.array(v_, float)
            what = f'indexer {op[1]} (phases {tuple(old)}) received material in phases {tuple(sp)} ({"mix_from" if kind == "mixm" else "copy_like"})'
            try:
                m = material_source(chems, op[2])
                if kind == 'mixm': o.mix_from([o, m])
                else: o.copy_like(m)
            except Exception as e:
                return f'phase-rows: op {num}: {what} raised {type(e).__name__}: {e}'
            if list(o._phases) != new or not close(rows_of(o), exp):
                return f'phase-rows: op {num}: {what}: phases {o._phases}, rows {rows_of(o).tolist()} instead of {new}, {exp.tolist()}'
            msg = independent_rows(num, what, o) or sweep(num, what) or both_bases(num, what)
            if msg: return msg
            continue
        if kind in ('mixp', 'copyp'):
            o = ixs[op[1]]
            before = rows_of(o); old = list(o._phases); ph = op[2]; vals = np.array(op[3], float)
            r = spec_phase(old, ph)
            new = old if r is not None else sorted(old + [ph])
            exp = np.zeros((len(new), n))
            if kind == 'mixp':
                for k_, q_ in enumerate(old): exp[new.index(q_)] = before[k_]
            exp[new.index(ph) if r is None else r] += vals
            what = f'indexer {op[1]} received material in phase {ph!r} ({"mix_from" if kind == "mixp" else "copy_like"})'
            try:
                if kind == 'mixp': o.mix_from([o, phase_source(chems, ph, op[3])])
                else: o.copy_like(phase_source(chems, ph, op[3]))
            except Exception as e:
                return f'phase-rows: op {num}: {what} raised {type(e).__name__}: {e}'
            if list(o._phases) != new or not close(rows_of(o), exp):
                return f'phase-rows: op {num}: {what}: phases {o._phases}, rows {rows_of(o).tolist()} instead of {new}, {exp.tolist()}'
            msg = independent_rows(num, what, o) or sweep(num, what) or both_bases(num, what)
            if msg: return msg
            continue
        if kind == 'get':
            if expected is None:
                try: tgt[key]
                except Exception: pass
                continue
            try:
                got = tgt[key]
            except Exception as e:
                return f'{tag_of(e, chems)}: op {num}: reading valid key {key!r} raised {type(e).__name__}: {e}'
            if isinstance(got, (SparseVector, SparseArray)): got = got.to_array()
            if not close(got, expected):
                return f'read-value: op {num}: {nm_}[{key!r}] = {got!r} but the dense data{" times MW" if mass else ""} give {expected!r}'
        elif kind == 'set':
            data = pydata(op[3], chems, mass)
            dkind = 'v' if op[3][0] == 'sv' else op[3][0]
            dvals = op[3][1]
            # which writes does the property cover?  phase-qualified (or single-phase) valid key,
            # scalar or vector of the indexed width, distinct positions
            if phases is None:
                sp = spec_positions(index, key); rows = [0]; ck = key
            else:
                sp = None; rows = None
                if spec_positions(index, key) is None and isinstance(key, str):
                    r = spec_phase(phases, key)
                    if r is not None: sp = ('all',); rows = [r]; ck = ...
                elif spec_positions(index, key) is None and isinstance(key, (tuple, list)) and len(key) == 2:
                    p, ck = key
                    sp = spec_positions(index, ck)
                    if p is ...: rows = list(range(len(phases)))
                    else:
                        r = spec_phase(phases, p)
                        rows = None if r is None else [r]
            valid = sp is not None and rows is not None and dkind in 'nv'
            if valid and mass and ell_pair(phases, key): valid = False      # column assignment on dictionary views: not covered
            if valid:
                fl = flat(sp, n)
                if len(set(fl)) != len(fl): valid = False
                width = n if sp[0] == 'all' else (len(sp[1]) if sp[0] == 'many' or sp[2] else 1)
                if dkind == 'v' and (len(dvals) != width or (sp[0] == 'one' and not sp[2])): valid = False
                ell = phases is not None and isinstance(key, (tuple, list)) and len(key) == 2 and key[0] is ...
                if dkind == 'v' and ell and sp[0] != 'many': valid = False   # per-row semantics of column assignment (C09)
                if dkind == 'n' and ell and sp[0] == 'many' and any(len(ps) != 1 or isinstance(index[k], list) for ps, k in zip(sp[1], ck)): valid = False
                if sp[0] != 'all' and any((isinstance(index[k], list) and k not in comps) for k in ([ck] if isinstance(ck, str) else ck)): valid = False
            try:
                tgt[key] = data
            except Exception as e:
                if valid:
                    return f'{tag_of(e, chems)}: op {num}: writing {dvals!r} through valid key {key!r} raised {type(e).__name__}: {e}'
                continue
            if not valid: continue
            after = rows_of(o) * MW if mass else rows_of(o)
            # expected dense data
            exp = arr.copy()
            for r in rows:
                if sp[0] == 'all':
                    exp[r, :] = dvals if dkind == 'n' else np.array(dvals, float)
                else:
                    names = [ck] if sp[0] == 'one' else list(ck)
                    groups_ = [sp[1]] if sp[0] == 'one' else sp[1]
                    for j, (nm, ps) in enumerate(zip(names, groups_)):
                        isg = isinstance(index[nm], list)
                        if sp[0] == 'one' and isg and dkind == 'v':
                            for i, v in zip(ps, dvals): exp[r, i] = v
                        else:
                            v = dvals if dkind == 'n' else dvals[j]
                            if isg:
                                for i, c in zip(ps, comps[nm]): exp[r, i] = v * c
                            else:
                                exp[r, ps[0]] = v
            if not close(after, exp):
                return f'write: op {num}: after {nm_}[{key!r}] = {dvals!r} ({"sparse vector" if op[3][0] == "sv" else "plain"}) the dense data{" times MW" if mass else ""} are {after.tolist()} instead of {exp.tolist()}'
            try:
                back = tgt[key]
            except Exception as e:
                return f'{tag_of(e, chems)}: op {num}: reading back {key!r} raised {type(e).__name__}: {e}'
            if isinstance(back, (SparseVector, SparseArray)): back = back.to_array()
            e2 = spec_read(index, after, phases, key)
            if not close(back, e2):
                return f'read-back: op {num}: {nm_}[{key!r}] reads {back!r} after the write, dense data give {e2!r}'
            msg = both_bases(num, f'{nm_}[{key!r}] = {dvals!r}')
            if msg: return msg
        elif kind in ('overlap', 'mix'):
            cas = op[1] if kind == 'overlap' else op[2]
            other = make_other(cas)
            ok = all(c in index and not isinstance(index[c], list) for c in cas)
            # two right chemicals landing on one left position: what mix_from then does is C01's concern
            ok = ok and len(set(int(index[c]) for c in cas)) == len(cas) and len(set(cas)) == len(cas)
            try:
                if kind == 'overlap':
                    li, ri = ix.index_overlap(chems, other, list(range(len(cas))))
                    if ok and [int(i) for i in li] != [int(index[c]) for c in cas]:
                        return f'overlap: op {num}: index_overlap gives {li} for {cas}'
                else:
                    o = ixs[op[1]]
                    src = ix.ChemicalMolarFlowIndexer.blank('l', other)
                    for j, v in enumerate(op[3]): src.data.dct[j] = float(v)
                    o.mix_from([src])
                    if ok:
                        exp = np.zeros(n)
                        for c, v in zip(cas, op[3]): exp[index[c]] += v
                        if not close(o.data.to_array(), exp):
                            return f'mix: op {num}: mix_from gives {o.data.to_array()} instead of {exp}'
            except Exception as e:
                if ok: return f'{tag_of(e)}: op {num}: {kind} with known CAS numbers {cas} raised {type(e).__name__}: {e}'
        elif kind == 'index':
            key = pykey(op[1])
            sp = spec_positions(index, key)
            try:
                got = chems.get_index(key)
            except Exception as e:
                if sp is not None: return f'{tag_of(e)}: op {num}: get_index({key!r}) raised {type(e).__name__}: {e}'
                continue
    for o in ixs: o.by_mass()
    return both_bases(len(case['ops']), 'the whole history') or sweep(len(case['ops']), 'the whole history')

def finding_key(case, msg):
    return 'C10:' + msg.split(':')[0]


# ====================================================================== histories with configuration calls in between,
# and SplitIndexer (coq/C10/ModelCfg.v).  case['hist'] = True; case['sps'] = data of the SplitIndexers;
# extra operations: ['cfg', cop]  ['sget', i, key]  ['sset', i, key, ['n', x] | ['items', [x | [x, ...], ...]]]
NEW_ALIASES = ['ay', 'bee', 'cee', 'dee', 'z9', 'nm1', 'nm2', 'Water']
SPLITS = [F(0), F(1), F(1, 2), F(1, 4), F(3, 4), F(1, 8), F(1, 1024)]

def gen_cfg_op(rng, ids, known, groups, risky):
    """a configuration call made in the middle of the history.  risky: may redefine an existing group, take a chemical's
    or a phase letter's name (the stale-cache situations); otherwise the name is usually new"""
    if rng.random() < 0.5:
        src = rng.choice(known)
        al = rng.choice(NEW_ALIASES + (['l', 'g', 's', 'L'] + ids if risky else []))
        known.append(al)
        return ['alias', src, al]
    name = rng.choice(GROUP_POOL[:3] + (groups + ['l', 's'] + ids[:1] if risky else ['G3', 'G4', 'Gy']))
    k = rng.randint(1, min(3, len(ids)))
    members = rng.sample(ids, k)
    comp = None
    if rng.random() < 0.6:
        cands = [c for c in COMPS if len(c) == k]
        if cands: comp = [float(x) for x in rng.choice(cands)]
    groups.append(name)
    return ['group', name, members, comp, rng.random() < 0.2]

def gen_sdata(rng, key, glen, malformed, n=8):
    r = rng.random()
    if r < 0.35: return ['n', float(rng.choice(SPLITS))]
    if key[0] in 'tl': elems = [glen.get(e[1], 0) if e[0] == 's' else 0 for e in key[1]]
    elif key[0] == 's': elems = [0] * glen.get(key[1], 1)
    else: elems = [0] * n
    items = []
    for g in elems:
        if g and rng.random() < 0.5:
            items.append([float(rng.choice(SPLITS)) for _ in range(max(0, g + (rng.choice([-1, 0, 1]) if malformed else 0)))])
        else:
            items.append(float(rng.choice(SPLITS)))
    if malformed:
        m = rng.randrange(4)
        if m == 0 and items: items = items[:-1]
        elif m == 1: items = items + [0.5]
        elif m == 2 and items: items[rng.randrange(len(items))] = [0.25, 0.5]
        elif m == 3 and items: items[0] = []
    if key[0] == 'e': items = items[:n]       # longer data through the ellipsis put keys beyond the size into the dict
    return ['items', items]

def gen_ell_data(rng, ck, glen, nph, groups, dt, n=8):
    """data for indexer[..., IDs] = data (SparseArray column assignment): scalars, vectors with one entry per phase, per
    listed chemical, of length 1 (stripped to a scalar), too short / too long, and 2-d data with one row per phase"""
    w = key_width(ck, glen) or 1
    if ck == KE: w = n; nphv = min(nph, n)       # (..., ...): longer rows put keys beyond the size into the dicts
    else: nphv = nph
    f = rng.random()
    val = lambda: float(rng.choice(VALS))
    if f < 0.25: return ['n', val()]
    if f < 0.6:
        m = rng.choice([nphv, w, 1, nphv, w, max(0, w - 1), w + 1, nphv + 1, 0])
        if ck == KE: m = min(m, n)
        return ['v', [val() for _ in range(m)]]
    single_group = ck[0] == 's' and ck[1] in groups
    if f < 0.9 and not single_group:          # (2-d data) * composition is not modelled
        nr = rng.choice([nph, nph, nph, 1, nph + 1, max(0, nph - 1)])
        ncol = rng.choice([w, w, w, 1, w + 1])
        if ck == KE: ncol = min(ncol, n)
        return ['m', [[val() for _ in range(ncol)] for _ in range(nr)]]
    return dt if dt[0] in 'nv' else ['n', val()]

BVALS = [1.0, 2.0, 3.0, 4.0, 5.0, 7.0, 8.0, 0.5, 0.25, 16.0]

def gen_bdef_ops(rng, ids, groups, glen, bufs, sim, ixs, cur, malformed):
    """the caller defines a group from a VIEW of one of its own float arrays (ModelBuf.v) and then keeps using the array:
    re-fills it, rescales it, zeroes it; afterwards scalars are written to the group and read back (every indexer kind).
    sim = the generator's picture of the arrays (a definition needs a view with a positive sum)"""
    ops = []
    b = rng.randrange(len(bufs))
    k = rng.randint(1, min(len(sim[b]), len(ids), 3))
    if rng.random() < 0.6 or sum(sim[b][:k]) <= 0:          # the array is (re-)filled for this definition
        vals = [rng.choice(BVALS) for _ in range(k)]
        sim[b][:k] = vals
        ops.append(['poke', b, vals])
    name = rng.choice(GROUP_POOL[:3] + ['G3', 'G4', 'Gy'])
    members = rng.sample(ids, k)
    ln = k + (rng.choice([-1, 1]) if malformed and rng.random() < 0.3 else 0)
    if ln <= 0 or sum(sim[b][:ln]) <= 0: ln = k
    ops.append(['bdef', name, members, b, ln, rng.random() < 0.3])
    groups.append(name); glen[name] = k
    f = rng.random()
    m = len(sim[b])
    if f < 0.8:                                              # what the caller does with ITS array afterwards
        w = rng.randint(1, m)
        g = rng.random()
        if g < 0.4: vals = [rng.choice(BVALS) for _ in range(w)]
        elif g < 0.7: vals = [x * rng.choice([8.0, 0.125, 2.0]) for x in sim[b][:w]]
        elif g < 0.85: vals = [0.0] * w
        else: vals = [rng.choice(BVALS + [0.0]) for _ in range(w)]
        sim[b][:w] = vals
        ops.append(['poke', b, vals])
    for _ in range(rng.randint(1, 3)):
        i = rng.randrange(len(ixs))
        key = kS(name) if ixs[i]['kind'] == 'c' else kT([kS(rng.choice(cur)), kS(name)])
        if rng.random() < 0.25: key = kT([kS(rng.choice(ids)), kS(name)]) if ixs[i]['kind'] == 'c' else kT([kS(rng.choice(cur)), kT([kS(rng.choice(ids)), kS(name)])])
        ops.append(['set', i, key, ['n', float(rng.choice([8, 1, 0.5, 3, 1024]))]])
        ops.append(['getm' if rng.random() < 0.3 else 'get', i, key if rng.random() < 0.6 else (KE if ixs[i]['kind'] == 'c' else kS(rng.choice(cur)))])
    return ops

def hist_case(rng, nops=None):
    risky = rng.random() < 0.5
    malformed = rng.random() < 0.25
    chems = gen_package(rng, 2, 8, tidy=True)
    cops = gen_cops(rng, chems, rng.randint(0, 3), tidy=True)
    ids = [c['ID'] for c in chems]
    n = len(chems)
    known = ids + [c['CAS'] for c in chems] + [c[2] for c in cops if c[0] == 'alias']
    groups = [c[1] for c in cops if c[0] == 'group']
    glen = {c[1]: len(c[2]) for c in cops if c[0] == 'group'}
    phs = rng.choice(PHASE_SETS[:5])
    ixs = [{'kind': 'c', 'stream': False, 'data': [float(rng.choice(VALS)) for _ in range(n)]},
           {'kind': 'm', 'stream': rng.random() < 0.3, 'phases': list(phs), 'data': [[float(rng.choice(VALS)) for _ in range(n)] for _ in phs]},
           {'kind': 'm', 'stream': False, 'phases': list(phs), 'data': [[float(rng.choice(VALS)) for _ in range(n)] for _ in phs]}]
    sps = [[float(rng.choice(SPLITS)) for _ in range(n)] for _ in range(rng.randint(1, 2))]
    many = nops is None and rng.random() < 0.12
    if nops is None: nops = rng.randint(150, 260) if many else rng.randint(20, 60)
    ops = []; seen = []
    bufs = [[rng.choice(BVALS) for _ in range(rng.randint(2, 4))] for _ in range(rng.randint(1, 2))] if rng.random() < 0.6 else []
    sim = [list(b) for b in bufs]
    later = ['G3', 'Gy', 'ay', 'z9', 'l', 's']          # names that may only come to exist later: looked up before and after
    cur = sorted(set(phs))
    while len(ops) < nops:
        r = rng.random()
        names = known + (later if rng.random() < 0.3 else [])
        if r < (0.04 if many else 0.12) and bufs and rng.random() < 0.5:
            ops += gen_bdef_ops(rng, ids, groups, glen, bufs, sim, ixs, cur, malformed)
            continue
        if r < (0.04 if many else 0.12):
            op = gen_cfg_op(rng, ids, known, groups, risky)
            if op[0] == 'group': glen[op[1]] = len(op[2])
            ops.append(['cfg', op])
            # right after a configuration call: revisit keys looked up before it
            for i, key in rng.sample(seen, min(len(seen), 3)):
                ops.append([('sget' if i < 0 else 'get'), abs(i) - 1 if i < 0 else i, key])
            continue
        if r < 0.3 and seen:
            i, key = rng.choice(seen[-40:])
            ops.append([('sget' if i < 0 else 'get'), abs(i) - 1 if i < 0 else i, key])
            continue
        if r < 0.5:
            j = rng.randrange(len(sps))
            if many:
                key = kT([kS(x) for x in gen_names(rng, names, groups, rng.choice([2, 3, 4, 5]), allow_groups=rng.random() < 0.4, dup=0.05)])
            else:
                key = gen_chem_key(rng, names, groups, malformed)
            seen.append((-(j + 1), key))
            if rng.random() < 0.45:
                ops.append(['sset', j, key, gen_sdata(rng, key, glen, malformed, n)])
            else:
                ops.append(['sget', j, key])
            continue
        i = rng.randrange(len(ixs))
        x = ixs[i]
        if many:
            ck = kT([kS(x_) for x_ in gen_names(rng, names, groups, rng.choice([2, 3, 4, 5]), allow_groups=rng.random() < 0.3, dup=0.05)])
            key = ck if x['kind'] == 'c' else kT([kS(rng.choice(cur)), ck])
        else:
            key = gen_chem_key(rng, names, groups, malformed) if x['kind'] == 'c' else gen_mat_key(rng, cur, names, groups, malformed)
        if r < 0.62 and x['kind'] == 'm' and rng.random() < 0.35:
            key = kT([KE, key if many and key[0] == 't' and key[1][0][0] != 's' else gen_chem_key(rng, names, groups, malformed)])
            if many: key = kT([KE, ck])
        seen.append((i, key))
        if r < 0.62:
            ck = key if x['kind'] == 'c' else (key[1][1] if key[0] in 'tl' and len(key[1]) == 2 else KE)
            ellp = x['kind'] == 'm' and key[0] in 'tl' and len(key[1]) == 2 and key[1][0] == KE
            w = key_width(ck, glen)
            dt = gen_data(rng, n if w is None else w, malformed, cap=n if w is None else None)
            if ellp:
                dt = gen_ell_data(rng, ck, glen, len(cur), groups, dt, n)
            ops.append(['set', i, key, dt])
        elif r < 0.66:
            ops.append(['overlap', rng.sample([c['CAS'] for c in chems], rng.randint(1, min(n, 3)))])
        else:
            ops.append(['getm' if rng.random() < 0.15 else 'get', i, key])
    return {'hist': True, 'chems': chems, 'cops': cops, 'ixs': ixs, 'sps': sps, 'ops': ops, 'bufs': bufs}

def corpus_buf_reuse():
    """groups defined (molar and by weight) from views of ONE array the caller re-uses, rescales and zeroes afterwards; then
    scalars written to every group on every indexer kind, molar and mass views read back"""
    ops = []
    for name, members, vals, wt, after in [('G1', ['B_', 'C_'], [2.0, 0.5], False, [3.0, 1.0, 4.0]), ('G2', ['C_', 'D_', 'B_'], [3.0, 1.0, 4.0], True, [24.0, 0.125]),
                                           ('G3', ['D_', 'A_'], [5.0, 15.0], False, [0.0, 0.0, 0.0])]:
        ops += [['poke', 0, vals], ['bdef', name, members, 0, len(vals), wt], ['poke', 0, after]]
    for name in ['G1', 'G2', 'G3']:
        g = kS(name)
        ops += [['set', 0, g, ['n', 8.0]], ['get', 0, KE], ['get', 0, g], ['getm', 0, g], ['set', 1, kT([kS('l'), g]), ['n', 0.5]], ['get', 1, kS('l')],
                ['set', 0, kT([kS('C_'), g]), ['n', 3.0]], ['get', 0, KE], ['sget', 0, g]]
    return {'hist': True, 'chems': _chems4(), 'cops': [], 'ops': ops, 'bufs': [[7.0, 1.0, 1.0]],
            'ixs': [{'kind': 'c', 'stream': False, 'data': [1.0, 2.0, 4.0, 8.0]},
                    {'kind': 'm', 'stream': False, 'phases': ['g', 'l'], 'data': [[1.0, 2.0, 4.0, 8.0], [16.0, 32.0, 64.0, 128.0]]}],
            'sps': [[0.125, 0.25, 0.5, 0.75]]}

def corpus_cfg_redefine():
    """a group is read, REDEFINED, and read again (every indexer kind); also a chemical's ID taken over by a group"""
    g = kS('G1')
    ops = [['get', 0, g], ['get', 1, kT([kS('l'), g])], ['sget', 0, g], ['get', 0, kT([kS('D_'), g])],
           ['cfg', ['group', 'G1', ['C_', 'D_'], [1.0, 3.0], False]],
           ['get', 0, g], ['get', 1, kT([kS('l'), g])], ['sget', 0, g], ['get', 0, kT([kS('D_'), g])], ['get', 0, kT([g, kS('A_')])],
           ['set', 0, g, ['n', 8.0]], ['sset', 0, g, ['n', 0.5]], ['get', 0, KE], ['sget', 0, KE],
           ['get', 0, kS('A_')], ['cfg', ['group', 'A_', ['C_', 'D_'], None, False]], ['get', 0, kS('A_')], ['get', 0, kT([kS('A_'), kS('B_')])]]
    return {'hist': True, 'chems': _chems4(), 'cops': [['group', 'G1', ['A_', 'B_'], None, False]], 'ops': ops,
            'ixs': [{'kind': 'c', 'stream': False, 'data': [1.0, 2.0, 4.0, 8.0]},
                    {'kind': 'm', 'stream': False, 'phases': ['g', 'l'], 'data': [[1.0, 2.0, 4.0, 8.0], [16.0, 32.0, 64.0, 128.0]]}],
            'sps': [[0.125, 0.25, 0.5, 0.75]]}

def corpus_cfg_phase_alias():
    """a phase letter is used as a key, then becomes the alias of a chemical"""
    ops = [['get', 0, kS('l')], ['get', 0, kT([kS('l'), kS('B_')])], ['cfg', ['alias', 'A_', 'l']],
           ['get', 0, kS('l')], ['get', 0, kT([kS('l'), kS('B_')])], ['get', 0, kT([kS('l'), kS('C_')])], ['get', 1, kS('l')]]
    return {'hist': True, 'chems': _chems4(), 'cops': [], 'ops': ops,
            'ixs': [{'kind': 'm', 'stream': False, 'phases': ['g', 'l'], 'data': [[1.0, 2.0, 4.0, 8.0], [16.0, 32.0, 64.0, 128.0]]},
                    {'kind': 'c', 'stream': False, 'data': [1.0, 2.0, 4.0, 8.0]}],
            'sps': []}

def corpus_cfg_safe():
    """new names defined between look-ups (the situation the theorem covers), unknown-name errors before, hits after"""
    ops = [['get', 0, kS('G3')], ['get', 0, kS('ay')], ['sget', 0, kT([kS('A_'), kS('G3')])], ['get', 1, kT([kS('l'), kS('ay')])],
           ['cfg', ['group', 'G3', ['B_', 'D_'], [1.0, 3.0], False]], ['cfg', ['alias', 'C_', 'ay']],
           ['get', 0, kS('G3')], ['get', 0, kS('ay')], ['sget', 0, kT([kS('A_'), kS('G3')])], ['get', 1, kT([kS('l'), kS('ay')])],
           ['sset', 0, kT([kS('A_'), kS('G3')]), ['items', [0.5, [0.25, 0.125]]]], ['sget', 0, KE], ['sset', 0, kS('G3'), ['n', 0.75]],
           ['sget', 0, kS('G3')], ['sset', 0, kT([kS('G3'), kS('ay')]), ['items', [0.5, 0.25]]], ['sget', 0, kT([kS('G3'), kS('ay')])],
           ['set', 1, kT([kS('g'), kS('G3')]), ['n', 8.0]], ['get', 1, kS('g')], ['sset', 0, KE, ['items', [0.5, 0.25]]], ['sget', 0, KE],
           ['sset', 0, kT([kS('A_'), kS('B_')]), ['items', [[0.5], 0.25]]], ['sset', 0, kT([kS('A_'), kS('G3')]), ['items', [0.5]]],
           ['sset', 0, kT([kS('A_'), kS('G3')]), ['items', [[0.5, 0.25], 0.25]]], ['sset', 0, kS('A_'), ['items', [0.5]]]]
    return {'hist': True, 'chems': _chems4(), 'cops': [], 'ops': ops,
            'ixs': [{'kind': 'c', 'stream': False, 'data': [1.0, 2.0, 4.0, 8.0]},
                    {'kind': 'm', 'stream': True, 'phases': ['g', 'l'], 'data': [[1.0, 2.0, 4.0, 8.0], [16.0, 32.0, 64.0, 128.0]]}],
            'sps': [[0.125, 0.25, 0.5, 0.75]]}

def corpus_ell_full():
    """indexer[..., IDs] = data with every data form (SparseArray column assignment strips leading length-1 dimensions):
    per-phase vectors, length-1 vectors, 2-d data, too short / too long, groups and mixed tuples; restored in between"""
    base = [[1.0, 2.0, 4.0, 8.0], [16.0, 32.0, 64.0, 128.0]]
    E = KE
    ws = [(kS('B_'), ['v', [5.0, 7.0]]), (kT([kS('cee'), kS('A_')]), ['v', [5.0]]), (kT([kS('cee'), kS('A_')]), ['m', [[5.0, 6.0], [7.0, 9.0]]]),
          (kS('G1'), ['v', [4.0, 8.0]]), (kS('B_'), ['v', [5.0]]), (kS('B_'), ['v', [5.0, 7.0, 9.0]]), (kS('B_'), ['v', []]),
          (kS('B_'), ['m', [[5.0], [7.0]]]), (kS('B_'), ['m', [[5.0, 6.0], [7.0, 9.0]]]), (kS('B_'), ['m', [[5.0, 7.0]]]),
          (kT([kS('B_'), kS('D_')]), ['v', [5.0, 7.0, 9.0]]), (kT([kS('B_'), kS('D_')]), ['v', []]), (kT([kS('B_'), kS('D_')]), ['m', [[5.0, 6.0]]]),
          (kT([kS('B_'), kS('D_')]), ['m', [[5.0, 6.0], [7.0], [1.0, 1.0]]]), (kT([kS('B_'), kS('D_')]), ['m', [[[5.0]]]] if False else ['m', [[5.0]]]),
          (kS('G1'), ['v', [4.0]]), (kS('G1'), ['v', [4.0, 8.0, 1.0]]), (kS('G1'), ['n', 0.0]), (kS('G2'), ['n', 6.0]), (kS('G2'), ['v', [6.0, 3.0]]),
          (kT([kS('G1'), kS('D_')]), ['n', 3.0]), (kT([kS('G1'), kS('D_')]), ['v', [8.0, 3.0]]), (kT([kS('G1'), kS('D_')]), ['v', [8.0]]),
          (kT([kS('D_'), kS('G1')]), ['v', [8.0]]), (kT([kS('G1'), kS('D_')]), ['m', [[8.0, 4.0], [3.0, 5.0]]]), (kT([kS('D_'), kS('G2')]), ['m', [[3.0, 5.0], [6.0]]]),
          (kT([kS('D_'), kS('G1')]), ['m', [[3.0, 5.0], [6.0, 1.0, 2.0]]]), (kT([]), ['v', [1.0, 2.0]]), (kT([]), ['n', 2.0]), (E, ['m', [[1.0, 2.0, 3.0, 4.0]]]),
          (E, ['m', [[1.0, 2.0, 3.0, 4.0], [5.0, 6.0, 7.0, 8.0]]]), (E, ['v', [1.0, 2.0]])]
    ops = [['get', 0, kT([E, kS('B_')])], ['cfg', ['alias', 'C_', 'cee']]]
    for k, d in ws:
        ops += [['set', 0, kT([E, k]), d], ['set', 0, kT([E, E]), ['m', base]]]
    return {'hist': True, 'chems': _chems4(), 'cops': [['group', 'G1', ['A_', 'B_'], None, False], ['group', 'G2', ['C_'], None, False]], 'ops': ops,
            'ixs': [{'kind': 'm', 'stream': False, 'phases': ['g', 'l'], 'data': base}], 'sps': []}

CORPUS += [corpus_cfg_redefine(), corpus_cfg_phase_alias(), corpus_cfg_safe(), corpus_ell_full(), corpus_buf_reuse()]

def build_splits(case, chems):
    ix = env()['ix']
    out = []
    for data in case.get('sps', []):
        o = ix.SplitIndexer.blank(chems)
        for i, v in enumerate(data):
            if v: o.data.dct[i] = float(v)
        out.append(o)
    return out

def pysdata(d):
    return d[1] if d[0] == 'n' else [list(x) if isinstance(x, list) else x for x in d[1]]

def canon_sval(v):
    from thermosteam.base import SparseVector
    if isinstance(v, SparseVector): v = v.to_array()
    if isinstance(v, np.ndarray):
        if v.dtype == object:
            items = []
            for e in v:
                if isinstance(e, (np.ndarray, list)): items.append([fr_json(frac(x)) for x in e])
                else: items.append(fr_json(frac(e)))
            return ['nest', items]
        a = np.asarray(v, float)
        if a.ndim == 0: return ['n', fr_json(frac(a))]
        if a.ndim == 1: return ['v', [fr_json(frac(x)) for x in a]]
        return ['x', repr(v)]
    if isinstance(v, (int, float, np.floating, np.integer)): return ['n', fr_json(frac(v))]
    return ['x', repr(v)]

def hist_step(op, chems, ixs, sps, seen_phases, bufs=None):
    """one operation of a history on the real objects -> canonical observation"""
    kind = op[0]
    if kind == 'bdef':              # chemicals.define_group(name, IDs, view of the caller's float array, wt)
        view = bufs[op[3]][:op[4]]
        try: chems.define_group(op[1], op[2], view, op[5]); e = None
        except Exception as ex: e = err_of(ex)
        return {'bd': e, 'view': [fr_json(frac(x)) for x in view]}
    if kind == 'poke':              # the caller writes into its own array
        bufs[op[1]][:len(op[2])] = op[2]
        return {'bp': [fr_json(frac(x)) for x in bufs[op[1]]]}
    if kind == 'cfg':
        try: apply_cop(chems, op[1]); return {'c': None}
        except Exception as e: return {'c': err_of(e), 'msg': f'{type(e).__name__}: {e}'[:120]}
    if kind == 'sget':
        try: return {'sv': canon_sval(sps[op[1]][pykey(op[2])])}
        except Exception as e: return {'se': err_of(e), 'msg': f'{type(e).__name__}: {e}'[:120]}
    if kind == 'sset':
        o = sps[op[1]]
        try:
            o[pykey(op[2])] = pysdata(op[3]); ob = {'sw': None}
        except Exception as e:
            ob = {'sw': err_of(e), 'msg': f'{type(e).__name__}: {e}'[:120]}
        ob['d'] = dense(o, chems.size)[0]
        return ob
    return run_ops({'ops': [op]}, [chems], ixs, seen_phases=seen_phases)[0]

def run_impl_hist(case):
    chems, cerr = build_package(case)
    assert chems is not None, 'packages of history cases are generated well-formed'
    out = {'compile_err': None}
    cerrs = []
    for c in case['cops']:
        try: apply_cop(chems, c); cerrs.append(None)
        except Exception as e: cerrs.append(err_of(e))
    out['cop_errs'] = cerrs
    ixs = build_indexers(case, chems)
    sps = build_splits(case, chems)
    seen_phases = set((0, tuple(o._phases)) for o, x in zip(ixs, case['ixs']) if x['kind'] == 'm')
    bufs = [np.array(b, float) for b in case.get('bufs', [])]
    out['obs'] = [hist_step(op, chems, ixs, sps, seen_phases, bufs) for op in case['ops']]
    out['bufs'] = [[fr_json(frac(x)) for x in b] for b in bufs]
    out['table'] = sorted([[k, ['p', int(v)] if isinstance(v, (int, np.integer)) else ['g', [int(i) for i in v]]]
                           for k, v in chems._index.items()])
    out['absent'] = sorted(set(x for x in NAME_POOL + ALIAS_POOL + GROUP_POOL + LETTERS + CAS_POOL + ['nope'] if x not in chems._index))
    out['comps'] = sorted([[k, [fr_json(frac(x)) for x in v]] for k, v in chems._group_mol_compositions.items()])
    out['wcomps'] = sorted([[k, [fr_json(frac(x)) for x in v]] for k, v in chems._group_wt_compositions.items()])
    out['cc'] = [[key_of_py(k), canon_index(v[0], k), v[1]] for k, v in chems._index_cache.items()]
    caches = env()['ix'].MaterialIndexer._index_caches
    out['mc'] = [[list(phs), [[key_of_py(k), canon_mval(k, v)] for k, v in caches.get((phs, chems), {}).items()]]
                 for _, phs in sorted(seen_phases)]
    out['sps'] = [dense(o, chems.size)[0] for o in sps]
    out['clr'] = cfg_calls_clear_caches()       # which step models this tree's configuration calls
    return out

def csitem(x):
    return f'(SG {cvec(x)})' if isinstance(x, list) else f'(SI {q(F(x))})'

def csdata(d):
    if d[0] == 'n': return f'(SDNum {q(d[1])})'
    return '(SDItems %s)' % clist([f'(SG {qlist(x)})' if isinstance(x, list) else f'(SI {q(x)})' for x in d[1]])

def chop_term(op):
    k = op[0]
    if k == 'cfg':
        c = op[1]
        t = (f'(CAlias {cstr(c[1])} {cstr(c[2])})' if c[0] == 'alias' else
             f'(CGroup {cstr(c[1])} {clist(c[2], cstr)} {copt(c[3], qlist)} {cbool(c[4])})')
        return f'(HCfg {t})'
    if k == 'sget': return f'(HSGet {cnat(op[1])} {ckey(op[2])})'
    if k == 'sset': return f'(HSSet {cnat(op[1])} {ckey(op[2])} {csdata(op[3])})'
    if k == 'get': return f'(HOp (OGet {cnat(op[1])} {ckey(op[2])}))'
    if k == 'set': return f'(HOp (OSet {cnat(op[1])} {ckey(op[2])} {cdata(op[3])}))'
    return f'(HOp {cop_term0(op)})'

def ceop_term(op):
    """writes of flow indexers go through the full model of __setitem__ (ModelEll.estep)"""
    if op[0] == 'set': return f'(ESet {cnat(op[1])} {ckey(op[2])} {cdata(op[3])})'
    return f'(EOp {chop_term(op)})'

def chobs(ob):
    if 'c' in ob: return f'(HC {cerr(ob["c"])})'
    if 'sv' in ob:
        v = ob['sv']
        if v[0] == 'n': return f'(HSV (SVNum {q(F(v[1]))}))'
        if v[0] == 'v': return f'(HSV (SVVec {cvec(v[1])}))'
        if v[0] == 'nest': return f'(HSV (SVNest {clist([csitem(x) for x in v[1]])}))'
        raise ValueError(f'unmodelled value {v}')
    if 'se' in ob: return f'(HSE {ob["se"]})'
    if 'sw' in ob: return f'(HSW {cerr(ob["sw"])} {cvec(ob["d"])})'
    return f'(HB {cobs(ob)})'

def cbop_term(op):
    if op[0] == 'bdef': return f'(BDefine {cstr(op[1])} {clist(op[2], cstr)} {cnat(op[3])} {cnat(op[4])} {cbool(op[5])})'
    if op[0] == 'poke': return f'(BPoke {cnat(op[1])} {qlist(op[2])})'
    return f'(BOp {ceop_term(op)})'

def cbobs(ob):
    if 'bd' in ob: return f'(BD {cerr(ob["bd"])} {cvec(ob["view"])})'
    if 'bp' in ob: return f'(BP {cvec(ob["bp"])})'
    return f'(BH {chobs(ob)})'

_repaired = []
def cfg_calls_clear_caches():
    """does THIS tree's set_alias / define_group empty the look-up caches (pending_fixes C10_4)?  Probed by behaviour: a key
    is cached, a configuration call is made, the cache is inspected.  The model step follows the answer (hstepc clr)"""
    if not _repaired:
        tmo = env()['tmo']
        ch = tmo.Chemicals([tmo.Chemical(x, search_db=False, MW=16., Hf=0., Cn=64., phase='l', default=True) for x in ('A_', 'B_')])
        ch.compile()
        ch._get_index_and_kind('A_')
        a = bool(ch._index_cache)
        ch.set_alias('A_', 'zz9')
        b = not ch._index_cache
        ch._get_index_and_kind('A_')
        ch.define_group('Gq_', ['A_', 'B_'])
        _repaired.append(a and b and not ch._index_cache)
    return _repaired[0]

def coq_case_hist(case, out):
    chems, cops = case_args(case, out)
    table = clist([f'({cstr(k)}, {ctarget(t)})' for k, t in out['table']])
    comps = clist([f'({cstr(k)}, {cvec(v)})' for k, v in out['comps']])
    wcomps = clist([f'({cstr(k)}, {cvec(v)})' for k, v in out['wcomps']])
    cc = clist([f'(ec {ckey(k)} {ccindex(i)} {ckind(kd)})' for k, i, kd in out['cc']])
    mc = clist([f'({clist(ph, cstr)}, {clist([cmentry(k, v) for k, v in ents])})' for ph, ents in out['mc']])
    return (f'(bcasec_eqb {cbool(out["clr"])} {VARIANT} {chems} {cops} {clist(out["cop_errs"], cerr)} {clist([cixr(x) for x in case["ixs"]])} '
            f'{clist([qlist(d) for d in case["sps"]])} {clist([qlist(d) for d in case.get("bufs", [])])} '
            f'{clist([cbop_term(o) for o in case["ops"]])} {clist([cbobs(o) for o in out["obs"]])} '
            f'{table} {clist(out["absent"], cstr)} {comps} {wcomps} {cc} {mc} {clist([cvec(d) for d in out["sps"]])} '
            f'{clist([cvec(d) for d in out.get("bufs", [])])})')

def coq_show_hist(case, out):
    chems, cops = case_args(case, out)
    return (f'(match compile {chems} with Err e => None | Ok c0 => let (c, es) := cbuild c0 {cops} in '
            f'Some (es, snd (brunc {cbool(out["clr"])} {VARIANT} (mkbs (mkhs c (mkst [] [] {clist([cixr(x) for x in case["ixs"]])}) {clist([qlist(d) for d in case["sps"]])}) '
            f'{clist([qlist(d) for d in case.get("bufs", [])])}) {clist([cbop_term(o) for o in case["ops"][:80]])})) end)')

def classify_hist(case, out):
    ks = ['hist']
    ncfg = 0
    for op, ob in zip(case['ops'], out.get('obs', [])):
        if 'bd' in ob: ks.append(f'hist:define-from-caller-array:{"wt" if op[5] else "mol"}:{ob["bd"] or "ok"}'); ncfg += 1
        elif 'bp' in ob: ks.append('hist:caller-writes-own-array')
        elif 'c' in ob: ks.append(f'hist:cfg:{op[1][0]}:{ob["c"] or "ok"}'); ncfg += 1
        elif 'sv' in ob: ks.append(f'hist:sget:ok:{ob["sv"][0]}')
        elif 'se' in ob: ks.append(f'hist:sget:{ob["se"]}')
        elif 'sw' in ob: ks.append(f'hist:sset:{op[3][0]}:{ob["sw"] or "ok"}')
        elif 'v' in ob: ks.append(f'hist:{op[0]}:ok')
        elif 'e' in ob: ks.append(f'hist:{op[0]}:{ob["e"]}')
        elif 'w' in ob: ks.append(f'hist:{op[0]}:{ob["w"] or "ok"}')
    ks.append('hist:cfg-calls-in-between:%s' % ('0' if ncfg == 0 else ('1-2' if ncfg < 3 else '>=3')))
    if 'cc' in out: ks.append('hist:chem-cache-full' if len(out['cc']) >= 100 else 'hist:chem-cache-partial')
    return ks

# ------------------------------------------------------------------ direct oracle for histories: the result of a look-up does not
# depend on the look-ups made earlier -- every read/write is repeated on a FRESH property package that received the same
# configuration calls in the same order but no look-up at all, on the same data
def spec_split_read(index, a, key):
    """SplitIndexer: the listed entries (a group reads as the vector of its members)"""
    def one(nm):
        if not isinstance(nm, str) or nm not in index: return None
        v = index[nm]
        return float(a[v]) if isinstance(v, (int, np.integer)) else [float(a[i]) for i in v]
    if key is ...: return [float(x) for x in a]
    if isinstance(key, str): return one(key)
    if isinstance(key, (tuple, list)):
        r = [one(k) for k in key]
        return None if any(x is None for x in r) else r
    return None

def same_outcome(a, b):
    if a[0] != b[0]: return False
    if a[0] == 'err': return a[1] == b[1]
    x, y = a[1], b[1]
    def flat_(v):
        if isinstance(v, np.ndarray) and v.dtype == object: return [flat_(e) for e in v]
        if isinstance(v, (list, tuple)): return [flat_(e) for e in v]
        if hasattr(v, 'to_array'): v = v.to_array()
        return np.asarray(v, float).tolist()
    try:
        fx, fy = flat_(x), flat_(y)
    except Exception:
        return repr(x) == repr(y)
    def eq(u, w):
        if isinstance(u, list) != isinstance(w, list): return False
        if isinstance(u, list): return len(u) == len(w) and all(eq(i, j) for i, j in zip(u, w))
        return abs(u - w) <= 1e-9 * max(1, abs(u), abs(w))
    return eq(fx, fy)

def oracle_hist(case):
    ix = env()['ix']
    chems, _ = build_package(case)
    if chems is None: return None
    for c in case['cops']:
        try: apply_cop(chems, c)
        except Exception: pass
    ixs = build_indexers(case, chems); sps = build_splits(case, chems)
    done = []                                    # configuration calls made so far
    bufs = [np.array(b, float) for b in case.get('bufs', [])]      # the caller's own arrays
    def stored():
        return {nm: (np.array(chems._group_mol_compositions[nm], float), np.array(chems._group_wt_compositions[nm], float))
                for nm in chems._group_mol_compositions}
    def fresh():
        ch, _ = build_package(case)
        for c in case['cops'] + done:
            try: apply_cop(ch, c)
            except Exception: pass
        return ch
    def twin(o, ch):
        """an indexer of the same kind on the fresh package holding the same data"""
        if isinstance(o, ix.SplitIndexer):
            t = ix.SplitIndexer.blank(ch); t.data.dct.update(o.data.dct)
        elif hasattr(o, '_phases'):
            t = ix.MolarFlowIndexer.blank(tuple(o._phases), ch)
            for r, row in zip(t.data.rows, o.data.rows): r.dct.update(row.dct)
        else:
            t = ix.ChemicalMolarFlowIndexer.blank('l', ch); t.data.dct.update(o.data.dct)
        return t
    def outcome(f):
        try: return ('ok', f())
        except Exception as e: return ('err', type(e).__name__, str(e)[:80])
    for num, op in enumerate(case['ops']):
        kind = op[0]
        if kind == 'bdef':
            view = bufs[op[3]][:op[4]]; given = view.copy()
            try: chems.define_group(op[1], op[2], view, op[5])
            except Exception: pass
            if not np.array_equal(view, given):
                return (f'define-group-changes-caller-array: op {num}: define_group({op[1]!r}, {op[2]!r}, <float array {given.tolist()}>, wt={op[5]}) '
                        f'left the array of the caller holding {view.tolist()}')
            done.append(['group', op[1], op[2], given.tolist(), op[5]]); continue
        if kind == 'poke':
            before = stored()
            bufs[op[1]][:len(op[2])] = op[2]
            after = stored()
            for nm in before:
                for x, y, basis in zip(before[nm], after[nm], ('molar', 'mass')):
                    if not np.array_equal(x, y):
                        return (f'group-composition-aliased: op {num}: the caller wrote {op[2]} into its OWN array (once passed to define_group) and the stored '
                                f'{basis} composition of group {nm!r} changed from {x.tolist()} to {y.tolist()}: a scalar written to the group is no longer '
                                f'distributed by the composition the group was defined with')
            continue
        if kind == 'cfg':
            try: apply_cop(chems, op[1])
            except Exception: pass
            done.append(op[1]); continue
        if kind in ('get', 'getm', 'sget', 'set', 'sset'):
            o = (sps if kind[0] == 's' and kind != 'set' else ixs)[op[1]]
            key = pykey(op[2])
            t = twin(o, fresh())
            nm = 'split' if kind in ('sget', 'sset') else ('indexer.by_mass()' if kind == 'getm' else 'indexer')
            if kind in ('get', 'getm', 'sget'):
                view = (lambda z: z.by_mass()) if kind == 'getm' else (lambda z: z)
                a = outcome(lambda: view(o)[key]); b = outcome(lambda: view(t)[key])
                if not same_outcome(a, b):
                    return (f'config-stale-cache: op {num}: after {len(done)} configuration call(s) made between look-ups, {nm}[{key!r}] gives {a[1:]!r}; '
                            f'the same package configured by the same calls but without the earlier look-ups gives {b[1:]!r}')
                if kind == 'sget' and a[0] == 'ok':
                    exp = spec_split_read(dict(fresh()._index), np.asarray(o.data.to_array(), float), key)
                    if exp is not None and not same_outcome(('ok', a[1]), ('ok', exp)):
                        return f'split-read: op {num}: split[{key!r}] = {a[1]!r} but the listed entries are {exp!r}'
            else:
                data = pysdata(op[3]) if kind == 'sset' else pydata(op[3], chems, False)
                data2 = pysdata(op[3]) if kind == 'sset' else pydata(op[3], t._chemicals, False)
                def wr_(z, d_):
                    z[key] = d_
                a = outcome(lambda: wr_(o, data)); b = outcome(lambda: wr_(t, data2))
                da = np.asarray(o.data.to_array(), float); db = np.asarray(t.data.to_array(), float)
                if a[0] != b[0] or (a[0] == 'err' and a[1] != b[1]) or da.shape != db.shape or not close(da, db):
                    return (f'config-stale-cache: op {num}: after {len(done)} configuration call(s) made between look-ups, {nm}[{key!r}] = {op[3][1]!r} '
                            f'gives {a[:2]!r} and data {da.tolist()}; without the earlier look-ups {b[:2]!r} and data {db.tolist()}')
        else:
            hist_step(op, chems, ixs, sps, set())
    return None

class _Witnesses(list):
    """the witnesses of C10_cfg_redefine_refuted / C10_cfg_phase_alias_refuted apply to a tree whose configuration calls do
    not empty the caches; on the repaired tree (pending_fixes C10_4) the same cases stay in CORPUS and must agree with the
    repaired step.  Decided when the driver iterates (the implementation is importable then)"""
    def __iter__(self):
        if os.environ.get('VERIF_C10_NO_WITNESS'): return iter([])      # development aid only
        try:
            if cfg_calls_clear_caches(): return iter([])
        except Exception:
            pass
        return list.__iter__(self)
WITNESSES = _Witnesses([{'key': 'C10:config-stale-cache', 'case': corpus_cfg_redefine()},
                        {'key': 'C10:config-stale-cache', 'case': corpus_cfg_phase_alias()}])
