"""C02 -- stream energy balance.  Correspondence harness, generators and direct oracle."""
import numpy as np
from fractions import Fraction as F
from vf import q, qlist, clist, cbool, cnat, copt, frac, fr_json

ID = 'C02'
COQ_DIR = 'C02'
COQ_HEADER = 'From V Require Import Common.Num C02.Model C02.ModelX C02.ModelS.\nOpen Scope Q_scope.'
RULE = ('stub property package of three user-defined chemicals whose mixture H / Cn models are exact and phase dependent: '
        'H = sum n_i Cn_i (T - 298.15) with Cn = 64, 32, 128 in l/L/s/S and H = sum n_i (Cn_i (T - 298.15) + L_i) with Cn = 32, 16, 64, '
        'L = 8192, 4096, 16384 in g, plus a pressure term n k (P - 101325)/1024 in every phase (so that WHEN an inlet is read matters); S is '
        'rational and phase / pressure dependent too; histories before the operation: property reads (fill the per-stream memo) and phase changes at '
        'unchanged T, P, flows; '
        'stores of 2-5 streams (single-phase l/g/s/L and two-phase g/l MultiStreams, also as receivers of s/L inlets; dyadic flows '
        'incl. empty streams and 1/1024..1024; T = 300..400 K in quarters, six pressures).  kinds: mix (Stream.mix_from with the real solver: 1-4 inlets, empty inlets, None, Heat/Power '
        'objects, receiver among the inlets 0-2 times, Q in {0, +-dyadic}), mixs (the same with solve_T_at_HP/xsolve_T_at_HP replaced '
        'by a scripted solver keyed on the phases, so that the phase-flip fallback of the H setter and the convert-to-multi-phase '
        'fallback of mix_from run), sep (separate_out), set (H / h / S / Hnet setters, real and scripted solver, assigning a new value '
        'and the current value), iter (iter_T_at_HP / iter_T_at_SP / xiter_* called directly with affine models and a rational stand-in '
        'for exp), wrap (the four Mixture.(x)solve_T_at_HP/SP wrappers with scripted flexsolve calls that return or raise; result AND what '
        'is left in _free_energy_args), hist (histories over a stream and its proxies: reads of H/S/h, T/P/phase/H/h/Hnet assignments, '
        's.X = s.X, mixes, separations; every returned value, every exception and the final state through every handle), mixmm (kind mix/mixs: exactly one non-empty '
        'inlet, a MultiStream over any of 11 phase sets, into a MultiStream receiver over another / a compatible / the same phase set, so that '
        'MaterialIndexer.copy_like runs its expansion, renaming and identical-indexer branches, then H += Q), copy (copy_like called directly on every '
        'pair of classes and phase sets, also on itself), mixcp (mix_from(conserve_phases=True), real and scripted solver, all stream shapes, Heat / None '
        'among the inlets), wseq (HISTORIES OF TEMPERATURE SOLVES in one process on one mixture: 2-5 calls of one of the four Mixture.(x)solve_T_at_HP/SP '
        'wrappers whose extensive scale differs by up to 2^22 from one call to the next, Cn depending on T or not, a driver in place of flexsolve.aitken that '
        'really calls the iteration function 0-7 times with relaxation weights, scripted secant; per solve: result / exception, number of model evaluations, '
        'number of Cn evaluations and the last Cn handed out, i.e. the content of the solve\'s scratch list, evaluated with ModelS.solve_seq); '
        'every mix / mixs case is evaluated with ModelX.mix_from_x.  Compared: every stream of the store afterwards (class, '
        'phases, flows per phase exactly, T to 1e-9, P exactly), H of every stream to 1e-9, exception class.  non-trivial = the '
        'operation changed the store (or returned a value / raised); distinct = distinct case hash')
ASSUMPTIONS = [
    'solve_spec: when (x)solve_T_at_HP / (x)solve_T_at_SP returns T then xH(phase_mol, T, P) == H (resp. xS == S) -- convergence of '
    'flexsolve.aitken / aitken_secant is not proved; measured on every run by the oracle on the real solver',
    'solve_fix: when the guess already satisfies the equation the solver returns the guess (used only by C02_setH_idem)',
    'homogeneity: mixture.H and mixture.S are homogeneous of degree one in mol (Stream.H is total * H(mol/total), the setter solves '
    'H(mol) = target); holds for IdealMixture (C07), proved here for the linear stub',
    'H of an all-zero mol vector is 0 and the upper-case phases L / S use the property models of l / s (used only for one '
    'non-empty single-phase inlet copied into a MultiStream receiver); both hold for PhaseHandle / IdealMixture',
    'the stream after the operation is non-empty (total flow != 0): with flows of both signs the total can cancel, and then '
    'Stream.H reads 0 whatever was assigned',
    'float rounding is not modelled: values compared to 1e-9 relative (H is not compared where the float evaluation of '
    'C*(T - 298.15) cancels to < 1e-5 of C*T)',
]
TRUSTED = [
    'model coq/C02/Model.v is hand-written from thermosteam/_stream.py (mix_from, separate_out, H/h/S/Hnet, copy_like, phases setter), '
    '_multi_stream.py (H/h/S setters, phase getter), indexer.py (mix_from, separate_out, copy_like for one property package), '
    'mixture/mixture.py (iter_T_at_HP/SP, solve_T_at_HP); tie = correspondence check',
    'the property cache of _get_property is treated as transparent (C14)',
    'coq/C02/ModelX.v is hand-written from indexer.py MaterialIndexer.copy_like (MultiStream <- MultiStream, all three phase-indexer branches) and '
    '_stream.py mix_from(conserve_phases=True); tie = correspondence (kinds mix, mixs, copy, mixcp)',
    'streams of a second property package (same chemicals, other order and another Chemicals object) are compared in the coordinates of the first; '
    'packages with chemicals the receiver lacks: C01',
    'coq/C02/ModelS.v is hand-written from mixture.py (the four solve wrappers with the allocation of their [counter, Cn] list, the four '
    'iteration functions mutating it); flexsolve.aitken is represented by relaxed fixed-point drivers; tie = correspondence (kind wseq)',
    'vle=True argument of mix_from is not modelled (the VLE solver is C08 / C15 territory)',
]

import os
# MaterialIndexer.copy_like empties a MultiStream that copies (mixes from) one of its own phases: pending fix
# pending_fixes/C02_4_copy_like_from_own_phase_empties_stream.diff.  The model is the repaired code.  Until the patch is in
# /repo the generator keeps the receiver of a `mixv` different from the parent of the views and the witness stays out of
# the corpus; VERIF_C02_4=1 (or flipping this default once the patch is applied) switches both on.
AFTER_FIX_C02_4 = os.environ.get('VERIF_C02_4', '1') == '1'   # fix applied to /repo as commit (see known_findings.txt)

S_SETTER = 'setS'          # name of the model of the Stream.S setter

PH = {'L': 1, 'S': 2, 'g': 3, 'l': 4, 's': 5}
PHn = {v: k for k, v in PH.items()}
CN = [64., 32., 128.]            # heat capacities of the condensed phases (l, L, s, S)
CNG = [32., 16., 64.]            # heat capacities of the gas
LAT = [8192., 4096., 16384.]     # latent offset of the gas:  H(g, T) = sum n (CNG (T - Tref) + LAT)
S0L = [4., 2., 8.]               # entropy offsets:  S(phase, T) = sum n (Cn(phase) (T - Tref) / 256 + S0(phase))
SG = [16., 8., 32.]
KPL = [1., 2., 1.]                # pressure coefficients:  H += n k (P - PREF) / 1024,  S -= n k (P - PREF) / 65536
KPG = [16., 8., 32.]
PREF = 101325.
HF = [-1024., -512., 256.]
IDS = ['A_', 'B_', 'C_']
IDS1 = ['C_', 'A_', 'B_']
TREF = F(298.15)

_env = {}
def env():
    if not _env:
        import thermosteam as tmo
        import thermosteam.mixture.mixture as mm
        chems = tmo.Chemicals([tmo.Chemical(n, search_db=False, MW=mw, Hf=hf, Cn=cn, phase='l', default=True)
                               for n, mw, cn, hf in zip(IDS, [16., 32., 8.], CN, HF)])
        tmo.settings.set_thermo(chems)
        _env['tmo'] = tmo
        _env['mm'] = mm
        _env['thermo'] = tmo.settings.get_thermo()
        # the mixture models of this package only (slots of its IdealMixture): exact, phase-dependent H and Cn;
        # S keeps the package's own model plus a gas offset
        mix = _env['thermo'].mixture
        def items(mol):
            return mol.dct.items() if hasattr(mol, 'dct') else [(i, x) for i, x in enumerate(np.asarray(mol, float)) if x]
        def H_model(phase, mol, T, P):
            if phase == 'g': return sum([x * (CNG[i] * (T - 298.15) + LAT[i] + KPG[i] * (P - PREF) / 1024.) for i, x in items(mol)])
            return sum([x * (CN[i] * (T - 298.15) + KPL[i] * (P - PREF) / 1024.) for i, x in items(mol)])
        def Cn_model(phase, mol, T, P=None):
            c = CNG if phase == 'g' else CN
            return sum([x * c[i] for i, x in items(mol)])
        def S_model(phase, mol, T, P):
            c, s0, kp = (CNG, SG, KPG) if phase == 'g' else (CN, S0L, KPL)
            return sum([x * (c[i] * (T - 298.15) / 256. + s0[i] - kp[i] * (P - PREF) / 65536.) for i, x in items(mol)])
        mix._H, mix.Cn, mix._S = H_model, Cn_model, S_model
        # a second property package made of the SAME chemicals in another order (its Chemicals object is a different one, so
        # every `chemicals is other.chemicals` test takes the other-package branch); same property models, permuted
        chems1 = tmo.Chemicals([getattr(chems, i) for i in IDS1])
        tmo.settings.set_thermo(chems1)
        _env['thermo1'] = tmo.settings.get_thermo()
        perm = [IDS.index(i) for i in IDS1]
        def permuted(f):
            def g(phase, mol, T, P=None):
                u = np.zeros(len(IDS))
                for i, x in items(mol): u[perm[i]] = x
                return f(phase, u, T, P)
            return g
        mix1 = _env['thermo1'].mixture
        mix1._H, mix1.Cn, mix1._S = permuted(H_model), permuted(Cn_model), permuted(S_model)
    _env['tmo'].settings.set_thermo(_env['thermo'])
    _env['ids'] = IDS
    return _env

REAL_IDS = ['Water', 'Ethanol', 'Nitrogen']
def env_real():
    """database chemicals (search step only; they load offline from the packaged data)"""
    e = env()
    if 'real' not in e:
        tmo = e['tmo']
        tmo.settings.set_thermo(tmo.Chemicals(REAL_IDS, cache=True))
        e['real'] = tmo.settings.get_thermo()
    e['tmo'].settings.set_thermo(e['real'])
    e['ids'] = REAL_IDS
    return e

def setenv(case):
    return env_real() if case.get('package') == 'real' else env()

FLOWS = [0, 0, 1, 2, F(1, 2), 4, F(1, 4), 3, 8, 1024, F(1, 1024)]
TS = [300 + F(k, 4) for k in range(0, 401)]
PS = [101325., 100000., 200000., 50000., 1000000., 10000.]
QS = [0, 0, 0, 512, -512, 1024, -1024, 4096, F(1, 2), -F(1, 2), 65536]

# ------------------------------------------------------------------ generators
def gen_row(rng, empty=False):
    if empty:
        return [0., 0., 0.]
    r = [float(rng.choice(FLOWS)) for _ in range(3)]
    if not any(r):
        r[rng.randrange(3)] = float(rng.choice([1, 2, F(1, 2)]))
    return r

def gen_stream(rng, empty_p=0.15, multi_p=0.25, phases='llgglgsL'):
    T = float(rng.choice(TS)); P = rng.choice(PS)
    empty = rng.random() < empty_p
    if rng.random() < multi_p:
        rows = {'g': gen_row(rng, empty or rng.random() < 0.25), 'l': gen_row(rng, empty or rng.random() < 0.25)}
        return {'multi': True, 'rows': rows, 'T': T, 'P': P}
    return {'multi': False, 'rows': {rng.choice(phases): gen_row(rng, empty)}, 'T': T, 'P': P}

def gen_script(rng, fail_single=None):
    """scripted solver: phases (as a string) -> None (raises) | [a, b, c] (returns a + b*target + c*T_guess)"""
    def val():
        return [float(rng.choice([300, 320, 350.5, 0, 400])), float(rng.choice([0, 0, F(1, 64), F(1, 2), 1])),
                float(rng.choice([0, 0, 1, F(1, 2)]))]
    tbl = {}
    for key in ['g', 'l', 's', 'L', 'gl']:
        p = 0.5 if key in 'gl' else 0.3
        tbl[key] = None if rng.random() < p else val()
    if fail_single:
        tbl['g'] = tbl['l'] = None
        tbl['gl'] = val()
    return tbl

def stub_C(d):
    return sum(F(x) * F(c) for ph, row in d['rows'].items() for x, c in zip(row, CNG if ph == 'g' else CN))
def stub_H(d):
    return (stub_C(d) * (F(d['T']) - TREF) + sum(F(x) * F(c) for ph, row in d['rows'].items() if ph == 'g' for x, c in zip(row, LAT))
            + sum(F(x) * F(c) for ph, row in d['rows'].items() for x, c in zip(row, KPG if ph == 'g' else KPL)) * (F(d['P']) - F(PREF)) / 1024)
def is_empty(d):
    return not any(any(r) for r in d['rows'].values())
TMIN = 50     # the stub's enthalpy is only defined for T > 0: targets that need a colder stream are outside the property

def gen_pre(rng, streams, p=0.45):
    """history before the operation: reads of H / S / h / Hnet (they fill the per-stream property memo) interleaved with phase
    changes of single-phase streams at unchanged T, P and flows"""
    if rng.random() > p: return []
    pre = []
    for _ in range(rng.randint(1, 4)):
        i = rng.randrange(len(streams))
        pre.append(['read', i, rng.choice(['H', 'H', 'S', 'h', 'Hnet'])])
        if not streams[i]['multi'] and rng.random() < 0.75:
            ph, = streams[i]['rows']
            pre.append(['phase', i, rng.choice([x for x in 'glgls' if x != ph])])
            if rng.random() < 0.3: pre.append(['read', i, 'H'])
    return pre

def gen_mix(rng, scripted, fail_single=False):
    n = rng.randint(2, 5)
    multi_recv = rng.random() < 0.2 and not fail_single
    phases = 'llgglg' if rng.random() < 0.7 else 'llgglgsL'
    streams = [gen_stream(rng, phases=phases) for _ in range(n)]
    r = rng.randrange(n)
    if multi_recv and not streams[r]['multi']:
        streams[r] = gen_stream(rng, multi_p=1.)
    if fail_single and streams[r]['multi']:
        streams[r] = gen_stream(rng, multi_p=0., phases='lg')
    k = rng.choice([1, 1, 2, 2, 2, 3, 3, 4])
    others = [['s', rng.randrange(n)] for _ in range(k)]
    if rng.random() < 0.35:
        others[rng.randrange(k)] = ['s', r]
    if rng.random() < 0.08:
        others.append(['s', r])
    if rng.random() < 0.25:
        others.insert(rng.randrange(len(others) + 1), [rng.choice(['heat', 'power']), float(rng.choice(QS[3:]))])
    if rng.random() < 0.08:
        others.insert(rng.randrange(len(others) + 1), ['none'])
    case = {'kind': 'mixs' if scripted else 'mix', 'streams': streams, 'r': r, 'others': others, 'Q': float(rng.choice(QS))}
    case['pre'] = gen_pre(rng, streams)
    if rng.random() < 0.3:
        for d in streams:
            if rng.random() < 0.5: d['pkg'] = 1
    ne = [streams[o[1]] for o in others if o[0] == 's' and not is_empty(streams[o[1]])]
    if ne and not scripted:
        H = sum(stub_H(d) for d in ne) + F(case['Q']) + sum(F(o[1]) for o in others if o[0] in ('heat', 'power'))
        if TREF + H / sum(stub_C(d) for d in ne) < TMIN:       # unreachable: needs T < 0
            case['Q'] = abs(case['Q'])
            case['others'] = [[o[0], abs(o[1])] if o[0] in ('heat', 'power') else o for o in others]
    if scripted:
        case['script'] = gen_script(rng, fail_single=fail_single)
    return case

MPHASES = [('g', 'l'), ('g', 's'), ('L', 'g'), ('L', 'l'), ('g', 'l', 's'), ('l', 's'), ('L', 'S'), ('L', 's'), ('L', 'g', 'l'),
           ('S', 'g', 'l'), ('g', 'l'), ('S', 'l')]
def gen_mstream(rng, phases=None, empty=False):
    """a MultiStream over any of the phase sets above (not only g/l)"""
    ps = phases or rng.choice(MPHASES)
    rows = {p: gen_row(rng, empty or rng.random() < 0.25) for p in ps}
    if not empty and not any(any(r) for r in rows.values()):
        rows[rng.choice(ps)] = gen_row(rng)
    return {'multi': True, 'rows': rows, 'T': float(rng.choice(TS)), 'P': rng.choice(PS)}

def guard_reachable(case):
    """heat that would need T < TMIN is outside the property: make it positive"""
    streams, others = case['streams'], case['others']
    ne = [streams[o[1]] for o in others if o[0] == 's' and not is_empty(streams[o[1]])]
    if ne and not case.get('script'):
        H = sum(stub_H(d) for d in ne) + F(case['Q']) + sum(F(o[1]) for o in others if o[0] in ('heat', 'power'))
        if TREF + H / sum(stub_C(d) for d in ne) < TMIN:
            case['Q'] = abs(case['Q'])
            case['others'] = [[o[0], abs(o[1])] if o[0] in ('heat', 'power') else o for o in others]
    return case

def gen_mixmm(rng, scripted=False):
    """exactly one non-empty inlet, a MultiStream, mixed into a MultiStream receiver over ANOTHER phase set (sometimes the same
    set, sometimes a single-phase receiver): Stream.mix_from takes the copy_like shortcut and MaterialIndexer.copy_like runs
    its phase-set branch (identical indexer / compatible renaming l<->L, s<->S / _expand_phases), then `self.H += Q`"""
    k = rng.random()
    inlet = gen_mstream(rng)
    if k < 0.2:
        pair = rng.sample([('l', 's'), ('L', 'S'), ('L', 's')], 2)           # compatible, not identical
        recv = gen_mstream(rng, pair[0], empty=rng.random() < 0.3); inlet = gen_mstream(rng, pair[1])
    elif k < 0.3: recv = gen_mstream(rng, tuple(inlet['rows']), empty=rng.random() < 0.3)
    elif k < 0.4: recv = gen_stream(rng, multi_p=0., phases='lgsL')
    else: recv = gen_mstream(rng, empty=rng.random() < 0.3)
    streams = [recv, inlet]
    others = [['s', 1]]
    for _ in range(rng.choice([0, 0, 1, 2])):
        e = gen_mstream(rng, empty=True) if rng.random() < 0.5 else gen_stream(rng, empty_p=1., multi_p=0.)
        streams.append(e); others.insert(rng.randrange(len(others) + 1), ['s', len(streams) - 1])
    if rng.random() < 0.15 and is_empty(recv): others.append(['s', 0])
    if rng.random() < 0.3:
        others.insert(rng.randrange(len(others) + 1), [rng.choice(['heat', 'power']), float(rng.choice(QS[3:]))])
    if rng.random() < 0.08: others.append(['none'])
    case = {'kind': 'mixs' if scripted else 'mix', 'streams': streams, 'r': 0, 'others': others, 'Q': float(rng.choice(QS)), 'pre': gen_pre(rng, streams, 0.3)}
    case['pre'] = [op for op in case['pre'] if op[0] == 'read' or not streams[op[1]]['multi']]
    if rng.random() < 0.3:
        for d in streams:
            if rng.random() < 0.5: d['pkg'] = 1
    if scripted: case['script'] = gen_script_x(rng)
    return guard_reachable(case)

def gen_script_x(rng):
    """scripted solver over the phase sets of gen_mstream"""
    tbl = gen_script(rng)
    for ps in MPHASES + [('L', 'g', 'l', 's'), ('L', 'S', 'l', 's'), ('L', 'l', 's'), ('L', 'S', 's'), ('L', 'S', 'l'), ('S', 'g', 'l', 's'), ('L', 'g', 's'), ('L', 'S', 'g'), ('L', 'S', 'g', 'l')]:
        key = ''.join(ps)
        if key not in tbl:
            tbl[key] = None if rng.random() < 0.35 else [float(rng.choice([300, 320, 350.5, 400])), float(rng.choice([0, F(1, 64), F(1, 2)])), float(rng.choice([0, 0, 1]))]
    return tbl

def gen_copy(rng):
    """self.copy_like(other) called directly on every pair of classes and phase sets (and on the stream itself)"""
    def any_stream():
        return gen_mstream(rng, empty=rng.random() < 0.1) if rng.random() < 0.65 else gen_stream(rng, empty_p=0.1, multi_p=0., phases='lgsLS')
    a, b = any_stream(), any_stream()
    if a['multi'] and rng.random() < 0.15:
        pair = rng.sample([('l', 's'), ('L', 'S'), ('L', 's')], 2)
        a, b = gen_mstream(rng, pair[0]), gen_mstream(rng, pair[1])
    case = {'kind': 'copy', 'streams': [a, b], 'same': rng.random() < 0.08}
    if rng.random() < 0.3: b['pkg'] = 1
    if rng.random() < 0.1: a['pkg'] = 1
    case['pre'] = [['read', rng.randrange(2), rng.choice(['H', 'S'])]] if rng.random() < 0.3 else []
    return case

def gen_mixcp(rng, scripted=False):
    """Stream.mix_from(..., conserve_phases=True): the receiver takes the phases of itself and of every object in `others`
    before the material is mixed and the enthalpy assigned (no fallback)"""
    if rng.random() < 0.6:
        case = gen_mix(rng, scripted)
    else:
        n = rng.randint(2, 4)
        streams = [gen_mstream(rng, empty=rng.random() < 0.15) if rng.random() < 0.5 else gen_stream(rng, multi_p=0., phases='llgglgsL') for _ in range(n)]
        r = rng.randrange(n)
        others = [['s', rng.randrange(n)] for _ in range(rng.choice([2, 2, 3, 4]))]
        if rng.random() < 0.3: others[rng.randrange(len(others))] = ['s', r]
        if rng.random() < 0.1: others.append(['heat', float(rng.choice(QS[3:]))])
        case = {'streams': streams, 'r': r, 'others': others, 'Q': float(rng.choice(QS)), 'pre': []}
        if rng.random() < 0.3:
            for d in streams:
                if rng.random() < 0.5: d['pkg'] = 1
        if scripted: case['script'] = gen_script_x(rng)
        guard_reachable(case)
    case['kind'] = 'mixcp'
    return case

def gen_zero_sum(rng):
    """energy balances whose target enthalpy is exactly (or, through Q = -sum H, to the last bit) zero: inlets at the
    reference state mixed into a receiver that still carries an older temperature, heat that cancels the inlets' enthalpy,
    and H = 0 / h = 0 assigned to a hot stream"""
    k = rng.random()
    def ref_stream(ph='l'):
        return {'multi': False, 'rows': {ph: gen_row(rng)}, 'T': 298.15, 'P': PREF}
    if k < 0.4:
        n = rng.randint(2, 3)
        streams = [ref_stream(rng.choice('lls')) for _ in range(n)] + [gen_stream(rng, empty_p=0.3, multi_p=0.2, phases='llg')]
        r = rng.choice([n, n, rng.randrange(n)])
        streams[r]['T'] = float(rng.choice(TS)) if r == n else streams[r]['T']
        return {'kind': 'mix', 'streams': streams, 'r': r, 'others': [['s', i] for i in range(n)], 'Q': 0., 'pre': []}
    if k < 0.8:
        n = rng.randint(1, 3)
        streams = [gen_stream(rng, empty_p=0.2, multi_p=0.15, phases='llg') for _ in range(n)] + [gen_stream(rng, empty_p=0.5, multi_p=0.1, phases='lg')]
        r = rng.choice([n, rng.randrange(n)])
        others = [['s', i] for i in range(n)]
        if rng.random() < 0.3: others.append(['heat', float(rng.choice([512, -512]))])
        return {'kind': 'mix', 'streams': streams, 'r': r, 'others': others, 'Q': 0., 'Qcancel': True, 'pre': []}
    s = gen_stream(rng, empty_p=0., multi_p=0.3, phases='llg')
    return {'kind': 'set', 'stream': s, 'which': rng.choice(['H', 'H', 'h', 'Hnet']), 'mode': 'zero', 'value': 0., 'pre': []}

def gen_sep(rng):
    n = rng.randint(2, 3)
    streams = [gen_stream(rng, empty_p=0.1, phases='llgglg') for _ in range(n)]
    r, o = rng.randrange(n), rng.randrange(n)
    if rng.random() < 0.7 and r != o:
        # make the subtrahend a part of the receiver so that the result is usually non-negative
        for ph, row in streams[o]['rows'].items():
            tgt = streams[r]['rows']
            key = ph if ph in tgt else next(iter(tgt))
            tgt[key] = [a + b + float(rng.choice([0, 1, F(1, 2)])) for a, b in zip(tgt[key], row)]
    Cr, Co = stub_C(streams[r]), stub_C(streams[o])
    if r != o and Cr != Co and TREF + (stub_H(streams[r]) - stub_H(streams[o])) / (Cr - Co) < TMIN:
        streams[o]['T'] = streams[r]['T']
    case = {'kind': 'sep', 'streams': streams, 'r': r, 'o': o, 'pre': gen_pre(rng, streams, 0.35)}
    if rng.random() < 0.3:
        for d in streams:
            if rng.random() < 0.5: d['pkg'] = 1
    if r != o and rng.random() < 0.4:
        # a product of an isothermal unit: the stream taken out is at exactly the receiver's temperature, often in another phase
        streams[o]['T'] = streams[r]['T']
        if not streams[o]['multi'] and rng.random() < 0.8:
            ph, = streams[o]['rows']
            rph = next(iter(streams[r]['rows']))
            new = 'g' if (rph != 'g' and not streams[r]['multi']) else rng.choice('lg')
            if streams[r]['multi'] or new != rph:
                streams[o]['rows'] = {new: streams[o]['rows'][ph]}
    return case

def gen_set(rng):
    s = gen_stream(rng, empty_p=0.1, multi_p=0.3)
    which = rng.choice(['H', 'H', 'h', 'S', 'S', 'Hnet'])
    scripted = which == 'S' or rng.random() < 0.4
    mode = rng.choice(['value', 'value', 'current', 'zero'])
    case = {'kind': 'set', 'stream': s, 'which': which, 'mode': mode,
            'value': float(rng.choice([0, 1024, -1024, 4096, 8192, F(1, 2), 65536, 100, 20000]))}
    case['pre'] = gen_pre(rng, [s], 0.5)
    C = stub_C(s)
    if not scripted and C > 0 and case['value'] < 0:
        tot = sum(F(x) for row in s['rows'].values() for x in row)
        Hf = sum(F(x) * F(h) for row in s['rows'].values() for x, h in zip(row, HF))
        H = {'H': F(case['value']), 'h': F(case['value']) * tot, 'Hnet': F(case['value']) - Hf}[which]
        if TREF + H / C < TMIN: case['value'] = abs(case['value'])
    if scripted:
        case['script'] = gen_script(rng)
        if which == 'S' and rng.random() < 0.5:
            ph = next(iter(s['rows']))
            if not s['multi'] and ph in 'gl':      # first solve raises, the flipped phase succeeds
                case['script'][ph] = None
                case['script']['l' if ph == 'g' else 'g'] = [float(rng.choice([300, 320, 350.5])), float(rng.choice([F(1, 64), F(1, 2), 1])), 0.]
    return case

DY = [0, 1, -1, 2, F(1, 2), 4, F(1, 4), 3, 64, -F(1, 2), 300, 1024]
def gen_iter(rng):
    return {'kind': 'iter', 'var': rng.choice(['H', 'S', 'xH', 'xS']), 'T': float(rng.choice(TS)), 'X': float(rng.choice(DY + [4096, 20000])),
            'a': float(rng.choice(DY)), 'b': float(rng.choice(DY)), 'c': float(rng.choice([0, 1, 2, 4, 64, F(1, 2), 3, 128])),
            'd': float(rng.choice([0, 0, 0, F(1, 4), F(1, 64)])), 'counter': rng.randrange(0, 12),
            'Cn': rng.choice([None, 2., 64., 0., 0.5]), 'ea': float(rng.choice([1, 1, 2, F(1, 2)])), 'eb': float(rng.choice([1, 2, 4]))}

def gen_wrap(rng):
    """Mixture.(x)solve_T_at_HP / SP with scripted flexsolve calls, any of which may raise; the work-space left behind is observed"""
    return {'kind': 'wrap', 'var': rng.choice(['H', 'H', 'xH', 'S', 'xS']),
            'Tguess': float(rng.choice(TS)), 'H': float(rng.choice([0, 1024, 4096, 20000, -512])),
            'a': float(rng.choice([1, 2, 64, F(1, 2), 128])), 'b': float(rng.choice(DY)),
            'c': float(rng.choice([0, 0, 1, 2, 64, 128, F(1, 2)])), 'aitken': float(rng.choice(TS)),
            'exact_guess': rng.random() < 0.3, 'secant': float(rng.choice(TS)),
            'aitken_raises': rng.random() < 0.15, 'secant_raises': rng.random() < 0.3,
            'ea': float(rng.choice([1, 1, 2])), 'eb': float(rng.choice([1, 2, 4]))}

def gen_imodel(rng):
    """the in-repo ideal mixture models called directly on UNNORMALISED flows (any total), affine pure-component models,
    a rational stand-in for log"""
    n = rng.randint(1, 4)
    mol = [float(rng.choice([0, 1, 2, F(1, 2), 4, F(1, 4), 3, 8, 120, F(1, 8)])) for _ in range(n)]
    return {'kind': 'imodel', 'var': rng.choice(['S', 'S', 'TP', 'T']), 'phase': rng.choice('lgs'),
            'mol': mol, 'T': float(rng.choice(TS)), 'P': rng.choice(PS),
            'models': [[float(rng.choice(DY)), float(rng.choice([0, 1, F(1, 2), 2])), float(rng.choice([0, 8, 64]))] for _ in range(n)],
            'ea': float(rng.choice([1, 1, 2, F(1, 2)])), 'eb': float(rng.choice([1, 2, 4]))}

def gen_hist_multi(rng):
    """histories around a MultiStream: property reads (fill the memo), material moved between its phases at unchanged T, P
    and overall composition, phase sub-streams ms[p] read, used as inlets' siblings and separated out of their own parent
    (the view shares its flow data with the receiver), then reads / `s.X = s.X` / mixes / separations"""
    ms = gen_stream(rng, empty_p=0., multi_p=1.)
    for ph in 'gl':
        if not any(ms['rows'][ph]) and rng.random() < 0.6: ms['rows'][ph] = gen_row(rng)
    ms['T'] = rng.choice(HIST_T); ms['P'] = rng.choice(HIST_P)
    streams = [ms] + [gen_stream(rng, empty_p=0.1, multi_p=0.3, phases='llgg') for _ in range(rng.randint(0, 2))]
    for d in streams[1:]:
        d['T'] = rng.choice(HIST_T); d['P'] = rng.choice(HIST_P)
    n = len(streams)
    ops = []
    multis = [i for i, d in enumerate(streams) if d['multi']]
    def read(h): ops.append(['read', h, rng.choice(['H', 'H', 'S', 'h'])])
    def move(h):
        a, b = rng.choice([('l', 'g'), ('g', 'l')])
        ops.append(['move', h, a, b, float(rng.choice([1, 1, F(1, 2), F(1, 4)]))])
    def mixv(r):
        """phase views among the inlets; the receiver may be their parent"""
        m = rng.choice(multis)
        if r == m and not AFTER_FIX_C02_4:
            cand = [x for x in range(n) if x != m]
            if not cand: return read(m)
            r = rng.choice(cand)
        vs = [[m, p] for p in 'gl' if rng.random() < 0.6] or [[m, rng.choice('gl')]]
        others = [['s', x] for x in range(n) if x not in (m, r) and rng.random() < 0.5]
        if rng.random() < 0.2: others.append(['heat', 512.])
        ops.append(['mixv', r, vs, others, float(rng.choice([0, 0, 512, 1024]))])
    def use(h):
        k = rng.random()
        if k < 0.35: read(h)
        elif k < 0.55: ops.append(['cur', h, rng.choice(['H', 'S', 'h', 'Hnet'])])
        elif k < 0.7 and n > 1:
            r = rng.choice([x for x in range(n) if x != h])
            others = [['s', h]] + [['s', x] for x in range(n) if x not in (h, r) and rng.random() < 0.5]
            rng.shuffle(others)
            ops.append(['mix', r, others, float(rng.choice([0, 0, 512]))])
        elif k < 0.8 and n > 1:
            ops.append(['sep', rng.choice([x for x in range(n) if x != h]), h])
        elif k < 0.87: ops.append(['readview', h, rng.choice('gl'), rng.choice(['H', 'S', 'h'])])
        elif k < 0.94: ops.append(['sepview', h, rng.choice(multis), rng.choice('gl')])
        else: mixv(rng.randrange(n))
    for _ in range(rng.randint(2, 5)):
        h = rng.choice(multis)
        k = rng.random()
        if k < 0.3: read(h)
        elif k < 0.6:
            read(h); move(h); use(h)
        elif k < 0.75: ops.append(['sepview', rng.choice([h, h, rng.randrange(n)]), h, rng.choice('gl')])
        elif k < 0.82: ops.append(['T', h, rng.choice(HIST_T)])
        elif k < 0.9: mixv(rng.choice([h, rng.randrange(n)]))
        else: use(rng.randrange(n))
    return {'kind': 'hist', 'streams': streams, 'ops': ops}

HIST_T = [300., 320., 350., 350.5, 400.]
HIST_P = [101325., 200000., 50000.]
def gen_hist(rng):
    """histories over several handles (a stream and its proxies) of 1-3 single-phase streams: reads of H / S / h, assignments
    of T / P / phase / H / h / Hnet, `s.X = s.X`, mixes and separations.  Half of the cases follow the pattern that makes a
    shared memo matter: read through one handle, take the stream elsewhere and read through ANOTHER handle, come back to
    exactly the first state, use the first handle again"""
    n = rng.randint(1, 3)
    streams = [gen_stream(rng, empty_p=0.05, multi_p=0., phases='llgg') for _ in range(n)]
    for d in streams:
        d['T'] = rng.choice(HIST_T); d['P'] = rng.choice(HIST_P)
    cells = list(range(n))              # handle -> cell
    ops = []
    phase_of = [next(iter(d['rows'])) for d in streams]
    def proxy(h):
        ops.append(['proxy', h]); cells.append(cells[h]); return len(cells) - 1
    def handle_of(c):
        return rng.choice([h for h, x in enumerate(cells) if x == c])
    def read(h):
        ops.append(['read', h, rng.choice(['H', 'H', 'S', 'h'])])
    def use(h):
        k = rng.random()
        c = cells[h]
        if k < 0.45: read(h)
        elif k < 0.65: ops.append(['cur', h, rng.choice(['H', 'S', 'h', 'Hnet'])])
        elif k < 0.85 and n > 1:
            r = rng.choice([x for x in range(n) if x != c])
            others = [['s', h]] + [['s', handle_of(x)] for x in range(n) if x not in (c, r) and rng.random() < 0.5]
            hr = handle_of(r)          # inside one call a cell is always named by ONE handle (`is` distinguishes proxies)
            if rng.random() < 0.3: others.append(['s', hr])
            rng.shuffle(others)
            ops.append(['mix', hr, others, float(rng.choice([0, 0, 512, 1024]))])
        elif n > 1:
            r = rng.choice([x for x in range(n) if x != c])
            ops.append(['sep', handle_of(r), h])
        else: read(h)
    def change(h):
        """an excursion; returns the op that restores the state exactly"""
        c = cells[h]; d = streams[c]
        k = rng.random()
        if k < 0.4:
            ops.append(['T', h, rng.choice([t for t in HIST_T if t != d['T']])]); return lambda g: ops.append(['T', g, d['T']])
        if k < 0.6:
            ops.append(['set', h, 'H', float(rng.choice([4096, 8192, 65536, 20000]))]); return lambda g: ops.append(['T', g, d['T']])
        if k < 0.8:
            ops.append(['P', h, rng.choice([p for p in HIST_P if p != d['P']])]); return lambda g: ops.append(['P', g, d['P']])
        ph = phase_of[c]
        ops.append(['phase', h, 'g' if ph == 'l' else 'l']); return lambda g: ops.append(['phase', g, ph])
    if rng.random() < 0.5:
        c = rng.randrange(n)
        a = c if rng.random() < 0.5 else None
        b = proxy(c)
        if a is None: a = proxy(c)
        if rng.random() < 0.5: a, b = b, a
        for _ in range(rng.randint(1, 2)):
            read(a)
            back = change(rng.choice([a, b]))
            if rng.random() < 0.85: read(b)
            back(rng.choice([a, b]))
            use(a)
    else:
        for _ in range(rng.randint(3, 9)):
            h = rng.randrange(len(cells))
            k = rng.random()
            if k < 0.15: proxy(h)
            elif k < 0.45: read(h)
            elif k < 0.7:
                back = change(h)
                if rng.random() < 0.4: back(handle_of(cells[h]))
            elif k < 0.8: ops.append(['set', h, rng.choice(['H', 'h', 'Hnet']), float(rng.choice([4096, 8192, 1024, 20000]))])
            else: use(h)
    return {'kind': 'hist', 'streams': streams, 'ops': ops}

WSEQ_W = [1, 1, 1, F(1, 2), F(3, 4), 2, F(1, 4)]
WSEQ_SCALE = [F(1, 1024), F(1, 64), F(1, 4), 1, 1, 4, 64, 1024, 4096]
def gen_wseq(rng):
    """a history of temperature solves made one after the other in one process on one mixture object, through one of the four
    wrappers, with extensive scales (total flow) that differ by orders of magnitude from one solve to the next; the driver
    standing for flexsolve.aitken really calls the iteration function (relaxed fixed-point steps)"""
    var = rng.choice(['H', 'S', 'S', 'xH', 'xS'])
    ent = var[-1] == 'S'
    ea, eb = rng.choice([(1, 1), (1, 1), (1, 1), (2, 2), (1, 2), (2, 1)])
    reqs = []
    for _ in range(rng.randint(2, 5)):
        a = rng.choice([F(1, 4), F(1, 2), 1, 2])
        if ent: c = a * rng.choice([64, 128, 256])          # keeps the stand-in exponential's argument of order one
        else: c = rng.choice([a, a, 2 * a, a / 2, 64])
        if rng.random() < 0.06: c = 0                        # Cn = 0: ZeroDivisionError inside the iteration
        d = rng.choice([0, 0, F(1, 4), F(1, 64)]) if c else 0
        reqs.append({'F': float(rng.choice(WSEQ_SCALE)), 'a': float(a), 'b': float(rng.choice([0, 8, -8, 64])), 'c': float(c), 'd': float(d),
                     'ws': [float(rng.choice(WSEQ_W)) for _ in range(rng.randint(0, 5 if ent else 7))],
                     'Tguess': float(rng.choice(TS)), 'Tt': float(rng.choice(TS)), 'secant': float(rng.choice(TS)),
                     'secant_raises': rng.random() < 0.2, 'phase': rng.choice('lg'), 'P': rng.choice(PS)})
    return {'kind': 'wseq', 'var': var, 'ea': float(ea), 'eb': float(eb), 'reqs': reqs}

def gen_cases(rng, tier):
    n = 1 if tier == 'quick' else 12
    cases = []
    cases += [gen_mix(rng, False) for _ in range(150 * n)]
    cases += [gen_mix(rng, True, rng.random() < 0.5) for _ in range(70 * n)]
    cases += [gen_sep(rng) for _ in range(40 * n)]
    cases += [gen_set(rng) for _ in range(70 * n)]
    cases += [gen_iter(rng) for _ in range(40 * n)]
    cases += [gen_wrap(rng) for _ in range(30 * n)]
    cases += [gen_hist(rng) for _ in range(80 * n)]
    cases += [gen_hist_multi(rng) for _ in range(60 * n)]
    cases += [gen_imodel(rng) for _ in range(40 * n)]
    cases += [gen_zero_sum(rng) for _ in range(30 * n)]
    cases += [gen_mixmm(rng, rng.random() < 0.2) for _ in range(70 * n)]
    cases += [gen_copy(rng) for _ in range(50 * n)]
    cases += [gen_mixcp(rng, rng.random() < 0.25) for _ in range(60 * n)]
    cases += [gen_wseq(rng) for _ in range(40 * n)]
    return cases

# ------------------------------------------------------------------ implementation side
ERR = {'ZeroDivisionError': 'EZeroDiv', 'RuntimeError': 'ERuntime', 'RecursionError': 'ERuntime', 'KeyError': 'EKey',
       'UndefinedPhase': 'EUndefPhase', 'TypeError': 'EType', 'IndexError': 'EIndex', 'ValueError': 'EValue',
       'FloatingPointError': 'EZeroDiv'}
def err_of(ex):
    return ERR.get(type(ex).__name__, 'EOther')

def build_stream(d):
    tmo = _env['tmo']; ids = _env['ids']       # the package was selected by env() / setenv(case)
    kwt = {'thermo': _env['thermo1']} if d.get('pkg') else {}
    if d['multi']:
        kw = {ph: [(i, x) for i, x in zip(ids, row) if x] for ph, row in d['rows'].items() if any(row)}
        s = tmo.MultiStream(None, T=d['T'], P=d['P'], phases=tuple(sorted(d['rows'])), **kw, **kwt)
    else:
        (ph, row), = d['rows'].items()
        s = tmo.Stream(None, T=d['T'], P=d['P'], phase=ph, **{i: x for i, x in zip(ids, row) if x}, **kwt)
    return s

def universe(s, row):
    """flows of a row in the coordinates of IDS, whatever the order of the stream's own package"""
    arr = np.asarray(row.to_array(), float)
    own = list(s.chemicals.IDs)
    if own == _env['ids']: return arr
    return np.array([arr[own.index(i)] for i in _env['ids']])

def snap(s):
    tmo = env()['tmo']
    if isinstance(s, tmo.MultiStream):
        rows = [[PH[p], [fr_json(frac(x)) for x in universe(s, row)]] for p, row in zip(s.phases, s.imol.data.rows)]
        multi = True
    else:
        rows = [[PH[s.phase], [fr_json(frac(x)) for x in universe(s, s.mol)]]]
        multi = False
    return {'multi': multi, 'pm': rows, 'T': fr_json(frac(s.T)), 'P': fr_json(frac(s.P))}

def resolve_Q(case, objs):
    """Q = -(sum of the non-empty inlets' enthalpy + heat objects) when the case asks for heat that cancels the inlets"""
    if not case.get('Qcancel'): return case['Q']
    tmo = _env['tmo']
    ins = [objs[o[1]] for o in case['others'] if o[0] == 's' and not objs[o[1]].isempty()]
    return -(sum([true_H(x) for x in ins]) + sum(o[1] for o in case['others'] if o[0] in ('heat', 'power')))

def build_others(case, objs):
    tmo = env()['tmo']
    out = []
    for o in case['others']:
        if o[0] == 's': out.append(objs[o[1]])
        elif o[0] == 'heat': out.append(tmo.Heat(None, heat=o[1]))
        elif o[0] == 'power': out.append(tmo.Power(None, power=o[1]))
        else: out.append(None)
    return out

class Scripted:
    """replace Mixture.(x)solve_T_at_HP/SP by a function of (phases, target, T_guess)"""
    def __init__(self, table, real_otherwise=False):
        self.table = table; self.real = real_otherwise
    def __enter__(self):
        M = env()['mm'].Mixture
        self.saved = {n: getattr(M, n) for n in ('solve_T_at_HP', 'xsolve_T_at_HP', 'solve_T_at_SP', 'xsolve_T_at_SP')}
        table, real, saved = self.table, self.real, self.saved
        def answer(key, x, Tg):
            r = table.get(key, None)
            if r is None: raise RuntimeError('scripted solver: no root for phases ' + key)
            return r[0] + r[1] * x + r[2] * Tg
        def single(name):
            def f(self_, phase, mol, X, T_guess, P):
                if real and table.get(phase, None) is not None: return saved[name](self_, phase, mol, X, T_guess, P)
                return answer(phase, X, T_guess)
            return f
        def multi(name):
            def f(self_, phase_mol, X, T_guess, P):
                phase_mol = tuple(phase_mol)
                key = ''.join(p for p, _ in phase_mol)
                if real and table.get(key, None) is not None: return saved[name](self_, phase_mol, X, T_guess, P)
                return answer(key, X, T_guess)
            return f
        for n in self.saved:
            setattr(M, n, multi(n) if n.startswith('x') else single(n))
        return self
    def __exit__(self, *a):
        M = env()['mm'].Mixture
        for n, f in self.saved.items(): setattr(M, n, f)

class Null:
    def __enter__(self): return self
    def __exit__(self, *a): pass

def solver_ctx(case, real_otherwise=False):
    return Scripted(case['script'], real_otherwise) if case.get('script') else Null()

def set_value(case, s):
    w = case['which']
    if case['mode'] == 'current':
        v = getattr(s, w)
        return 0. if v is None else float(v)
    if case['mode'] == 'zero':
        return 0.
    return case['value']

def readable(f):
    """a scripted solver may leave T where the stub's enthalpy is undefined (T < 0): then only the state is compared"""
    try: return f()
    except RuntimeError: return None

def apply_pre(case, objs):
    for op in case.get('pre', []):
        s = objs[op[1]]
        if op[0] == 'read': getattr(s, op[2])
        else: s.phase = op[2]

def true_H(s):
    """enthalpy flow straight from the mixture model, bypassing the stream's memo"""
    tmo = _env['tmo']
    if isinstance(s, tmo.MultiStream):
        return float(s.mixture.xH(zip(s.phases, s.imol.data.rows), s.T, s.P))
    return float(s.mixture.H(s.phase, s.mol, s.T, s.P))

def run_wrap(case):
    """one of the four temperature-solve wrappers of Mixture on a throw-away subclass with affine H / S and constant Cn,
    flexsolve replaced by scripted calls; returns the result or exception AND what is left in _free_energy_args"""
    mm = _env['mm']
    a, b, c = case['a'], case['b'], case['c']
    var = case.get('var', 'H')
    class M(mm.Mixture):
        __slots__ = ('_free_energy_args',)
        def __init__(self): self._free_energy_args = {}
        def _load_free_energy_args(self, phase, mol, T, P): self._free_energy_args[phase] = ('eos', mol, T, P)
        def _load_xfree_energy_args(self, phase_mol, T, P):
            for phase, mol in phase_mol: self._free_energy_args[phase] = ('eos', mol, T, P)
        def H(self, phase, mol, T, P): return a * T + b
        def S(self, phase, mol, T, P): return a * T + b
        def Cn(self, phase, mol, T, P=None): return c
    Tg = (case['H'] - b) / a if case['exact_guess'] else case['aitken']
    calls = []
    class FakeFlx:
        @staticmethod
        def aitken(f, x, xtol, args, maxiter, checkiter=False):
            calls.append('aitken')
            if case.get('aitken_raises'): raise RuntimeError('scripted aitken: no convergence')
            return Tg
        @staticmethod
        def aitken_secant(f, x0, x1, xtol, ytol):
            calls.append('secant')
            if case.get('secant_raises'): raise RuntimeError('scripted aitken_secant: no convergence')
            return case['secant']
    out = {'err': None}
    m = M()
    saved, saved_exp = mm.flx, mm.exp
    mm.flx = FakeFlx
    mm.exp = lambda y: (case.get('ea', 1.) + y) / case.get('eb', 1.)
    try:
        f = getattr(m, ('xsolve_T_at_' if var.startswith('x') else 'solve_T_at_') + var[-1] + 'P')
        args = ((('l', None), ('g', None)),) if var.startswith('x') else ('l', None)
        out['T'] = fr_json(frac(f(*args, case['H'], case['Tguess'], 101325.)))
    except Exception as ex:
        out['err'] = err_of(ex); out['exc'] = f'{type(ex).__name__}: {ex}'[:120]
    finally:
        mm.flx, mm.exp = saved, saved_exp
    out['Tg'] = Tg
    out['calls'] = calls
    out['left'] = len(m._free_energy_args)
    return out

def imodel_call(case, mol, stand_in=True):
    import thermosteam.mixture.ideal_mixture_model as imm
    ms = case['models']
    if case['var'] == 'T':
        models = [(lambda phase, T, a=a, c=c: a * T + (c if phase == 'g' else 0.)) for a, b, c in ms]
        f = imm.IdealTMixtureModel(models, 'Cn'); args = (case['phase'], np.array(mol, float), case['T'])
    else:
        models = [(lambda phase, T, P, a=a, b=b, c=c: a * T + b * P / 1024. + (c if phase == 'g' else 0.)) for a, b, c in ms]
        cls = imm.IdealEntropyModel if case['var'] == 'S' else imm.IdealTPMixtureModel
        f = cls(models, case['var']); args = (case['phase'], np.array(mol, float), case['T'], case['P'])
    saved = imm.log
    if stand_in: imm.log = lambda x: (x - case['ea']) / case['eb']
    try: return float(f(*args))
    finally: imm.log = saved

def run_imodel(case):
    out = {'err': None}
    try: out['v'] = fr_json(frac(imodel_call(case, case['mol'])))
    except Exception as ex: out['err'] = err_of(ex)
    return out

def true_S(s):
    tmo = _env['tmo']
    if isinstance(s, tmo.MultiStream):
        return float(s.mixture.xS(zip(s.phases, s.imol.data.rows), s.T, s.P))
    return float(s.mixture.S(s.phase, s.mol, s.T, s.P))

def run_hist(case, check):
    """run a history on the real objects.  check=False: record what each operation returned / raised and the final state;
    check=True: evaluate the property at every step and return (None, message)"""
    tmo = _env['tmo']
    objs = [build_stream(d) for d in case['streams']]
    cell = list(range(len(objs)))
    obs = []
    out = {'err': None, 'init': [snap(x) for x in objs]}
    def fail(msg): return (None, msg)
    for n, op in enumerate(case['ops']):
        k = op[0]; s = objs[op[1]]
        who = f'op {n} {op} (handle {op[1]} of stream {cell[op[1]]})'
        if k == 'proxy':
            objs.append(s.proxy()); cell.append(cell[op[1]]); obs.append(['none'])
        elif k == 'read':
            v = getattr(s, op[2])
            obs.append(['val', None if v is None else fr_json(frac(v))])
            if check and v is not None:
                t = true_H(s) if op[2] == 'H' else true_S(s) if op[2] == 'S' else true_H(s) / s.F_mol
                if not close(v, t, 1e-7):
                    return fail(f'stale-read: {who}: .{op[2]} returned {v!r} but the mixture model gives {t!r} at T={s.T}, P={s.P}, phase {s.phase!r}')
        elif k == 'move':
            if isinstance(s, tmo.MultiStream):
                rows = s.imol.data.rows; ix = s.imol._phase_indexer
                d = rows[ix(op[2])] * op[4]
                rows[ix(op[3])] += d; rows[ix(op[2])] -= d
            obs.append(['none'])
        elif k == 'readview':
            try: vw = s[op[2]]
            except Exception as ex:
                obs.append(['stop', err_of(ex)]); out['stopped'] = True
                if check: return (None, None)
                break
            v = getattr(vw, op[3])
            obs.append(['val', None if v is None else fr_json(frac(v))])
            if check and v is not None:
                t = true_H(vw) if op[3] == 'H' else true_S(vw) if op[3] == 'S' else true_H(vw) / vw.F_mol
                if not close(v, t, 1e-7): return fail(f'stale-read: {who}: [{op[2]!r}].{op[3]} returned {v!r} but the mixture model gives {t!r}')
        elif k == 'T': s.T = op[2]; obs.append(['none'])
        elif k == 'P': s.P = op[2]; obs.append(['none'])
        elif k == 'phase': s.phase = op[2]; obs.append(['none'])
        elif k in ('set', 'cur'):
            T0, ph0 = s.T, s.phase
            try:
                if k == 'set': setattr(s, op[2], op[3])
                else:
                    v = getattr(s, op[2])
                    setattr(s, op[2], 0. if v is None else v)
                obs.append(['err', None])
            except Exception as ex:
                obs.append(['err', err_of(ex)])
                if check and s.F_mol > 0: return fail(f'set-{op[2]}: {who} raised {type(ex).__name__}: {str(ex)[:100]}')
            if check and s.F_mol > 0:
                if k == 'cur' and (not close(s.T, T0, 1e-7) or s.phase != ph0):
                    return fail(f'set-{op[2]}: {who}: assigning the current {op[2]} moved the stream from T={T0}, {ph0!r} to T={s.T}, {s.phase!r}')
                if k == 'set':
                    back = {'H': true_H(s), 'h': true_H(s) / s.F_mol, 'Hnet': true_H(s) + s.Hf}[op[2]]
                    if not close(back, op[3], 1e-7): return fail(f'set-{op[2]}: {who}: assigned {op[3]!r}, the stream now has {back!r}')
        elif k in ('mix', 'sep', 'sepview', 'mixv'):
            if k == 'mixv':
                try: others = [objs[j][p] for j, p in op[2]]
                except Exception as ex:
                    obs.append(['stop', err_of(ex)]); out['stopped'] = True
                    if check: return (None, None)
                    break
                others += [objs[o[1]] if o[0] == 's' else tmo.Heat(None, heat=o[1]) for o in op[3]]
                ne = [o for o in others if isinstance(o, tmo.Stream) and not o.isempty()]
                exp = sum(true_H(o) for o in ne) + op[4] + sum(o.heat for o in others if isinstance(o, tmo.Heat)) if ne else None
                Pmin = min(o.P for o in ne) if ne else None
                F_in = sum(o.F_mol for o in ne)
            elif k == 'sepview':
                try: o = objs[op[2]][op[3]]
                except Exception as ex:
                    obs.append(['stop', err_of(ex)]); out['stopped'] = True
                    if check: return (None, None)
                    break
                exp = true_H(s) - true_H(o); Pmin = None
            elif k == 'mix':
                others = [objs[o[1]] for o in op[2]]
                ne = [o for o in others if not o.isempty()]
                exp = sum(true_H(o) for o in ne) + op[3] if ne else None
                Pmin = min(o.P for o in ne) if ne else None
            elif k == 'sep':
                o = objs[op[2]]
                exp = true_H(s) - true_H(o); Pmin = None
            # flows of both signs (left by an earlier separation) are outside the property: Stream.H of a non-empty stream
            # whose total is 0 reads 0, not what the mixture model gives
            parts = (others if k in ('mix', 'mixv') else [o]) + [s]
            physical = all(x >= 0 for y in parts if isinstance(y, tmo.Stream) for x in state(y)[2])
            try:
                if k == 'mix': s.mix_from(others, Q=op[3])
                elif k == 'mixv': s.mix_from(others, Q=op[4])
                else: s.separate_out(o)
                obs.append(['none'])
                if check and k == 'mixv' and ne and F_in > 0 and not close(s.F_mol, F_in, 1e-9):
                    return fail(f'mixv: {who}: the receiver holds {s.F_mol!r} kmol/hr and H = {true_H(s)!r} after mixing; the inlets held {F_in!r} kmol/hr '
                                f'and H = {exp!r} (a phase of the receiver was among the inlets)')
            except Exception as ex:
                obs.append(['stop', err_of(ex)])
                out['stopped'] = True
                if any(x < 0 for x in state(s)[2]):        # flows of both signs: outside the property; the history ends before this call
                    obs.pop(); out['nops'] = n
                    if check: return (None, None)
                    break
                if check and k == 'mixv' and ne and F_in > 0 and s.F_mol == 0:
                    return fail(f'mixv: {who}: mix_from raised {type(ex).__name__} after emptying the receiver; the inlets held {F_in!r} kmol/hr '
                                f'(a phase of the receiver was among the inlets)')
                if check: return fail(f'{k}: {who} raised {type(ex).__name__}: {str(ex)[:100]}') if physical and s.F_mol > 0 and reachable(s, 'H', exp or 0.) else (None, None)
                break
            if check and physical and exp is not None and s.F_mol > 0 and all(x >= 0 for x in state(s)[2]):
                if not close(true_H(s), exp, 1e-7):
                    return fail(f'{k}: {who}: H of the receiver is {true_H(s)!r}, the inlets (read from the mixture model) give {exp!r}')
                if Pmin is not None and s.P != Pmin: return fail(f'{k}: {who}: P of the receiver is {s.P!r}, lowest inlet pressure {Pmin!r}')
    if check: return (None, None)
    out['obs'] = obs
    first = [cell.index(c) for c in range(len(case['streams']))]
    out['final'] = [snap(objs[h]) for h in first]
    out['cells'] = cell[:len(obs) and len(cell)]
    # every handle of a cell must show the same state
    out['handles_agree'] = all(snap(objs[h]) == out['final'][c] for h, c in enumerate(cell)) if not out.get('stopped') else True
    return (out, None)

def wseq_target(case, r):
    return r['F'] * (r['a'] * r['Tt'] + r['b'])

def run_wseq(case):
    """the requests of the case, one after the other, through ONE wrapper of ONE throw-away Mixture whose H / S / Cn are
    mol * (a T + b) and mol * (c + d T) (mol is the scale; the x-wrappers get it split over two phases); flexsolve.aitken is a
    driver that calls the iteration function once per weight.  Observed per solve: result / exception, how many times the
    H / S model and the Cn model were evaluated, the last Cn returned."""
    mm = _env['mm']
    var = case['var']; x = var.startswith('x'); nph = 2 if x else 1
    cur = {}; log = {'X': 0, 'Cn': []}
    class M(mm.Mixture):
        __slots__ = ('_free_energy_args',)
        def __init__(self): self._free_energy_args = {}
        def _load_free_energy_args(self, phase, mol, T, P): self._free_energy_args[phase] = ('eos', mol, T, P)
        def _load_xfree_energy_args(self, phase_mol, T, P):
            for phase, mol in phase_mol: self._free_energy_args[phase] = ('eos', mol, T, P)
        def H(self, phase, mol, T, P): log['X'] += 1; return mol * (cur['a'] * T + cur['b'])
        def S(self, phase, mol, T, P): log['X'] += 1; return mol * (cur['a'] * T + cur['b'])
        def Cn(self, phase, mol, T, P=None):
            v = mol * (cur['c'] + cur['d'] * T); log['Cn'].append(v); return v
    class Driver:
        @staticmethod
        def aitken(f, x0, xtol, args, maxiter, checkiter=False):
            for w in cur['ws']: x0 = x0 + w * (f(x0, *args) - x0)
            return x0
        @staticmethod
        def aitken_secant(f, x0, x1, xtol, ytol):
            if cur['secant_raises']: raise RuntimeError('scripted aitken_secant: no convergence')
            return cur['secant']
    m = M()
    saved, saved_exp = mm.flx, mm.exp
    mm.flx = Driver
    mm.exp = lambda y: (case['ea'] + y) / case['eb']
    out = {'err': None, 'solves': []}
    left = 0
    try:
        f = getattr(m, ('xsolve_T_at_' if x else 'solve_T_at_') + var[-1] + 'P')
        for r in case['reqs']:
            cur.clear(); cur.update(r); log['X'] = 0; log['Cn'] = []
            args = ((('l', r['F'] / 4.), ('g', 3. * r['F'] / 4.)),) if x else ('l', r['F'])
            o = {'err': None}
            try:
                T = f(*args, wseq_target(case, r), r['Tguess'], 101325.)
                o['T'] = fr_json(frac(T))
            except Exception as ex:
                o['err'] = err_of(ex); o['exc'] = f'{type(ex).__name__}: {ex}'[:120]
            cn = log['Cn']
            o['n'] = log['X'] // nph if log['X'] % nph == 0 else -1
            o['ncn'] = len(cn) // nph if len(cn) % nph == 0 else -1
            try: o['cn'] = fr_json(frac(sum(cn[-nph:]))) if cn else None
            except Exception: o['cn'] = 'nan'
            left = max(left, len(m._free_energy_args))
            out['solves'].append(o)
    finally:
        mm.flx, mm.exp = saved, saved_exp
    out['left'] = left
    return out

def run_impl(case):
    e = env(); mm = e['mm']
    k = case['kind']
    out = {'err': None}
    if k == 'copy':
        objs = [build_stream(d) for d in case['streams']]
        apply_pre(case, objs)
        out['init'] = [snap(s) for s in objs]
        try: objs[0].copy_like(objs[0] if case['same'] else objs[1])
        except Exception as ex:
            out['err'] = err_of(ex); out['exc'] = f'{type(ex).__name__}: {ex}'[:200]
        out['final'] = [snap(s) for s in objs]
        out['H'] = readable(lambda: [fr_json(frac(s.H)) for s in objs])
        return out
    if k in ('mix', 'mixs', 'sep', 'mixcp'):
        objs = [build_stream(d) for d in case['streams']]
        apply_pre(case, objs)
        out['init'] = [snap(s) for s in objs]
        out['H0'] = readable(lambda: [fr_json(frac(s.H)) for s in objs]) if case.get('pre') and len(case['pre']) % 2 else None
        if k != 'sep': out['Q'] = Qv = float(resolve_Q(case, objs))
        try:
            with solver_ctx(case):
                if k == 'sep':
                    objs[case['r']].separate_out(objs[case['o']])
                else:
                    objs[case['r']].mix_from(build_others(case, objs), Q=Qv, **({'conserve_phases': True} if k == 'mixcp' else {}))
        except Exception as ex:
            out['err'] = err_of(ex); out['exc'] = f'{type(ex).__name__}: {ex}'[:200]
        out['final'] = [snap(s) for s in objs]
        out['H'] = readable(lambda: [fr_json(frac(s.H)) for s in objs])
        return out
    if k == 'set':
        s = build_stream(case['stream'])
        apply_pre(case, [s])
        out['init'] = snap(s)
        with solver_ctx(case):
            v = set_value(case, s)
            out['value'] = v
            try:
                setattr(s, case['which'], v)
            except Exception as ex:
                out['err'] = err_of(ex); out['exc'] = f'{type(ex).__name__}: {ex}'[:200]
        out['final'] = snap(s)
        out['H'] = readable(lambda: [fr_json(frac(s.H)), fr_json(frac(s.Hnet)), None if s.h is None else fr_json(frac(s.h))])
        return out
    if k == 'iter':
        a, b, c, d = case['a'], case['b'], case['c'], case['d']
        x = case['var'].startswith('x')
        if x:
            Xm = lambda phase_mol, T, P: a * T + b
            Cm = lambda phase_mol, T, P: c + d * T
            args = (case['T'], case['X'], Xm, (('l', None),), 101325., Cm)
        else:
            Xm = lambda phase, mol, T, P: a * T + b
            Cm = lambda phase, mol, T, P: c + d * T
            args = (case['T'], case['X'], Xm, 'l', None, 101325., Cm)
        cache = [case['counter'], case['Cn']]
        f = getattr(mm, ('xiter_T_at_' if x else 'iter_T_at_') + case['var'][-1] + 'P')
        saved = mm.exp
        mm.exp = lambda y: (case['ea'] + y) / case['eb']
        try:
            out['T'] = fr_json(frac(f(*args, cache)))
            out['cache'] = [cache[0], None if cache[1] is None else fr_json(frac(cache[1]))]
        except Exception as ex:
            out['err'] = err_of(ex)
        finally:
            mm.exp = saved
        return out
    if k == 'wrap':
        return run_wrap(case)
    if k == 'wseq':
        return run_wseq(case)
    if k == 'hist':
        return run_hist(case, check=False)[0]
    if k == 'imodel':
        return run_imodel(case)
    raise ValueError(k)

# ------------------------------------------------------------------ model side
def cstream(s):
    pm = clist([f'({cnat(p)}, {qlist([F(x) for x in row])})' for p, row in s['pm']])
    return f'(mkS {cbool(s["multi"])} {pm} {q(F(s["T"]))} {q(F(s["P"]))})'

def cscript(tbl):
    ent = []
    for key in sorted(tbl):
        v = tbl[key]
        ent.append(f'({clist([PH[c] for c in key], cnat)}, {copt(v, lambda r: "(%s, %s, %s)" % (q(r[0]), q(r[1]), q(r[2])))})')
    return clist(ent)

def coracles(case):
    if case.get('script'):
        t = cscript(case['script'])
        return f'(script_oracles {CSTUB} {qlist(HF)} {q(TREF)} {t} {t})'
    return f'(lin_oracles {CSTUB} {qlist(HF)} {q(TREF)})'

CSTUB = f'(mkP {qlist(CN)} {qlist(CNG)} {qlist(LAT)} {qlist(S0L)} {qlist(SG)} {qlist(KPL)} {qlist(KPG)} {q(PREF)})'

def cinlet(o):
    if o[0] == 's': return f'(IStream {cnat(o[1])})'
    if o[0] in ('heat', 'power'): return f'(IHeat {q(o[1])})'
    return 'INone'

def cres(err, ok):
    return f'(Err {err})' if err else f'(Ok {ok})'

def creq(case, r):
    Fq, a, b, c, d = (q(r[x]) for x in ('F', 'a', 'b', 'c', 'd'))
    Xm = f'(fun T => {Fq} * ({a} * T + {b}))'
    Cm = f'(fun T => {Fq} * ({c} + {d} * T))'
    X = q(F(r['F']) * (F(r['a']) * F(r['Tt']) + F(r['b'])))
    if case['var'][-1] == 'H': g = f'(formula_HP {X} {Xm})'
    else: g = f'(formula_SP (fun y => ({q(case["ea"])} + y) / {q(case["eb"])}) {X} {Xm})'
    sec = 'Err ERuntime' if r['secant_raises'] else f'Ok {q(r["secant"])}'
    loaded = '[4%nat; 3%nat]' if case['var'].startswith('x') else '[4%nat]'
    return f'(mkReq {g} {Cm} {qlist(r["ws"])} (fun _ _ => {sec}) {q(r["Tguess"])} {loaded})'

def model_term(case, out):
    k = case['kind']
    O = coracles(case)
    if k in ('mix', 'mixs', 'mixcp'):
        return f'({"mix_from_cp" if k == "mixcp" else "mix_from_x"} {O} {clist([cstream(s) for s in out["init"]])} {cnat(case["r"])} {clist([cinlet(o) for o in case["others"]])} {q(out["Q"])})'
    if k == 'copy':
        a, b = out['init']
        return f'(copy_like_x {cstream(a)} {cstream(a if case["same"] else b)} {cbool(case["same"])})'
    if k == 'sep':
        return f'(separate_out {O} {clist([cstream(s) for s in out["init"]])} {cnat(case["r"])} {cnat(case["o"])})'
    if k == 'set':
        f = {'H': 'setH', 'h': 'seth', 'S': S_SETTER, 'Hnet': 'setHnet'}[case['which']]
        return f'({f} {O} {cstream(out["init"])} {q(out["value"])})'
    if k == 'iter':
        a, b, c, d = (q(case[x]) for x in 'abcd')
        cache = f'({cnat(case["counter"])}, {copt(case["Cn"], q)})'
        Xm = f'(fun T => {a} * T + {b})'; Cm = f'(fun T => {c} + {d} * T)'
        if case['var'][-1] == 'H':
            return f'(iter_T_at_HP {q(case["T"])} {q(case["X"])} {Xm} {Cm} {cache})'
        return f'(iter_T_at_SP (fun y => ({q(case["ea"])} + y) / {q(case["eb"])}) {q(case["T"])} {q(case["X"])} {Xm} {Cm} {cache})'
    if k == 'wrap':
        a, b, c = (q(case[x]) for x in 'abc')
        ait = 'Err ERuntime' if case.get('aitken_raises') else f'Ok ({q(out["Tg"])}, (0%nat, None))'
        sec = 'Err ERuntime' if case.get('secant_raises') else f'Ok {q(case["secant"])}'
        var = case.get('var', 'H')
        loaded = '[4%nat; 3%nat]' if var.startswith('x') else '[4%nat]'
        nph = '2' if var.startswith('x') else '1'      # the x-wrappers sum over the two phases they are given
        common = (f'(fun _ => {ait}) (fun _ _ => {sec}) (1 # 1000000) {q(case["H"])} {q(case["Tguess"])} '
                  f'(fun T => {nph} * ({a} * T + {b})) (fun _ => {nph} * {c})')
        if var[-1] == 'H':
            return f'(solve_T_at_HP_ws {loaded} {common})'
        return f'(solve_T_at_SP_ws {loaded} (fun y => ({q(case.get("ea", 1.))} + y) / {q(case.get("eb", 1.))}) {common})'
    if k == 'wseq':
        return f'(solve_seq (1 # 1000000) ([], []) {clist([creq(case, r) for r in case["reqs"]])})'
    if k == 'imodel':
        ms = clist([f'(fun (p : phase) (T P : Q) => {q(a)} * T + {q(b if case["var"] != "T" else 0.)} * P / 1024 + '
                    f'(if (p =? 3)%nat then {q(c)} else 0))' for a, b, c in case['models']])
        args = f'{ms} {cnat(PH[case["phase"]])} {qlist(case["mol"])} {q(case["T"])} {q(case["P"])}'
        if case['var'] == 'S':
            return f'(ideal_S (fun x => (x - {q(case["ea"])}) / {q(case["eb"])}) {args})'
        return f'(ideal_sum {args})'
    if k == 'hist':
        return (f'(hrun {O} (get_prop {O}) (map (fun s => mkCell s None) {clist([cstream(x) for x in out["init"]])}, '
                f'seq 0 {cnat(len(out["init"]))}) {clist([chop(o) for o in case["ops"]])})')
    raise ValueError(k)

def cancels(snapshot, H):
    """float H = C*(T - Tref) + L loses digits when it is tiny relative to C*T + L; then only the state (T to 1e-9) is compared"""
    C = sum(F(x) * F(c) for _, row in snapshot['pm'] for x, c in zip(row, CN))
    L = sum(F(x) * F(c) for p, row in snapshot['pm'] if p == PH['g'] for x, c in zip(row, LAT))
    K = sum(F(x) * F(c) for p, row in snapshot['pm'] for x, c in zip(row, KPG if p == PH['g'] else KPL)) * abs(F(snapshot['P']) - F(PREF)) / 1024
    return abs(F(H)) < F(1, 100000) * (C * abs(F(snapshot['T'])) + L + K)

WHICH = {'H': 0, 'S': 1, 'h': 2, 'Hnet': 3}
def chop(op):
    k = op[0]
    if k == 'proxy': return f'(HProxy {cnat(op[1])})'
    if k == 'read': return f'(HRead {cnat(op[1])} {cnat(1 if op[2] == "S" else 0)} {cbool(op[2] != "h")})'
    if k == 'T': return f'(HSetT {cnat(op[1])} {q(op[2])})'
    if k == 'P': return f'(HSetP {cnat(op[1])} {q(op[2])})'
    if k == 'phase': return f'(HPhase {cnat(op[1])} {cnat(PH[op[2]])})'
    if k == 'set': return f'(HSet {cnat(op[1])} {cnat(WHICH[op[2]])} {q(op[3])})'
    if k == 'cur': return f'(HSetCur {cnat(op[1])} {cnat(WHICH[op[2]])})'
    if k == 'mix': return f'(HMix {cnat(op[1])} {clist([cinlet(o) for o in op[2]])} {q(op[3])})'
    if k == 'sep': return f'(HSep {cnat(op[1])} {cnat(op[2])})'
    if k == 'move': return f'(HMove {cnat(op[1])} {cnat(PH[op[2]])} {cnat(PH[op[3]])} {q(op[4])})'
    if k == 'readview': return f'(HReadView {cnat(op[1])} {cnat(PH[op[2]])} {cnat(1 if op[3] == "S" else 0)} {cbool(op[3] != "h")})'
    if k == 'sepview': return f'(HSepView {cnat(op[1])} {cnat(op[2])} {cnat(PH[op[3]])})'
    if k == 'mixv':
        vs = clist([f'({cnat(j)}, {cnat(PH[p])})' for j, p in op[2]])
        return f'(HMixV {cnat(op[1])} {vs} {clist([cinlet(o) for o in op[3]])} {q(op[4])})'
    raise ValueError(k)

def cobs(o):
    if o[0] == 'none': return 'ONone'
    if o[0] == 'val': return f'(OVal {copt(o[1], lambda x: q(F(x)))})'
    if o[0] == 'err': return f'(OErr {copt(o[1])})'
    return f'(OStop {o[1]})'

def coq_case(case, out):
    k = case['kind']
    t = model_term(case, out)
    if k == 'copy':
        a, b = out['init']
        exp = cres(out['err'], cstream(out['final'][0]))
        H = None if (out['err'] or out['H'] is None or cancels(out['final'][0], out['H'][0])) else out['H'][0]
        untouched = cbool(case['same'] or out['final'][1] == out['init'][1])
        return (f'(copy_check {coracles(case)} {cstream(a)} {cstream(a if case["same"] else b)} {cbool(case["same"])} {exp} '
                f'{copt(H, lambda x: q(F(x)))} && {untouched})')
    if k in ('mix', 'mixs', 'sep', 'mixcp'):
        exp = cres(out['err'], clist([cstream(s) for s in out['final']]))
        pre = 'true'
        if out.get('H0') and not any(cancels(sn, h) for sn, h in zip(out['init'], out['H0'])):
            # what the getters returned after the history and before the operation
            pre = f'(Hs_ok {coracles(case)} {clist([cstream(s) for s in out["init"]])} {qlist([F(x) for x in out["H0"]])})'
        if out['H'] is None or any(cancels(sn, h) for sn, h in zip(out['final'], out['H'])):
            return f'({pre} && res_eqb store_eqb {t} {exp})'
        return f'({pre} && store_check {coracles(case)} {t} {exp} {qlist([F(x) for x in out["H"]])})'
    if k == 'set':
        O = coracles(case)
        fin = cstream(out['final'])
        cur = 'true'
        if case['mode'] == 'current' and case['which'] == 'H' and not cancels(out['init'], out['value']):
            cur = f'qapproxb (getH {O} {cstream(out["init"])}) {q(out["value"])}'      # the value the getter handed out
        if out['H'] is None or cancels(out['final'], out['H'][0]) or abs(F(out['H'][1])) < F(1, 100000) * abs(F(out['H'][0])):
            return f'({cur} && sres_eqb {t} {fin} {copt(out["err"])})'
        H, Hnet, h = out['H']
        return (f'({cur} && sres_eqb {t} {fin} {copt(out["err"])} && qapproxb (getH {O} (fst {t})) {q(F(H))} && '
                f'qapproxb (getHnet {O} (fst {t})) {q(F(Hnet))} && '
                f'opt_eqb qapproxb (geth {O} (fst {t})) {copt(h, lambda x: q(F(x)))})')
    if k == 'iter':
        if out['err']:
            return f'(it_eqb {t} (Err {out["err"]}))'
        c = out['cache']
        return f'(it_eqb {t} (Ok ({q(F(out["T"]))}, ({cnat(c[0])}, {copt(c[1], lambda x: q(F(x)))}))))'
    if k == 'wrap':
        exp = cres(out['err'], q(F(out['T'])) if not out['err'] else '')
        return f'(ws_eqb {t} {exp} {cnat(out["left"])})'
    if k == 'wseq':
        exp = []
        for o in out['solves']:
            if o['n'] < 0 or o['ncn'] < 0 or o['cn'] == 'nan': return 'false'
            exp.append(f'({cres(o["err"], q(F(o["T"])) if not o["err"] else "")}, ({cnat(o["n"])}, {copt(o["cn"], lambda v: q(F(v)))}), {cnat(o["ncn"])})')
        return f'(wseq_check (1 # 1000000) {clist([creq(case, r) for r in case["reqs"]])} {clist(exp)} {cnat(out["left"])})'
    if k == 'imodel':
        return 'false' if out['err'] else f'(qapproxb {t} {q(F(out["v"]))})'
    if k == 'hist':
        O = coracles(case)
        init = clist([cstream(x) for x in out['init']])
        ops = case['ops'][:out['nops']] if 'nops' in out else case['ops']
        return (f'(hist_check {O} {init} {clist([chop(o) for o in ops])} {clist([cobs(o) for o in out["obs"]])} '
                f'{clist([cstream(x) for x in out["final"]])} {clist(out["cells"], cnat)} {cbool(not out.get("stopped"))} '
                f'&& {cbool(out["handles_agree"])})')
    raise ValueError(k)

def coq_show(case, out):
    return model_term(case, out)

def nontrivial(case, out):
    k = case['kind']
    if k in ('mix', 'mixs', 'sep', 'mixcp', 'copy'):
        return out.get('final') != out.get('init') or out.get('err') is not None
    if k == 'set':
        return out.get('final') != out.get('init') or out.get('err') is not None
    return True

def mm_branch(a, b):
    pa, pb = sorted(a['rows']), sorted(b['rows'])
    if pa == pb: return 'same-phases'
    return 'compatible' if [x.lower() for x in pa] == [x.lower() for x in pb] else 'expand'

def classify(case, out):
    k = case['kind']
    ks = ['kind:' + k, 'result:' + (out.get('err') or 'ok')]
    if k == 'copy':
        a, b = case['streams']
        ks.append('copy:%s<-%s' % ('multi' if a['multi'] else 'single', 'self' if case['same'] else 'multi' if b['multi'] else 'single'))
        if a['multi'] and b['multi'] and not case['same']: ks.append('copy_like_mm:' + mm_branch(a, b))
    if k in ('mix', 'mixs', 'mixcp'):
        ss = case['streams']
        def empty(d): return not any(any(r) for r in d['rows'].values())
        idx = [o[1] for o in case['others'] if o[0] == 's']
        ne = [i for i in idx if not empty(ss[i])]
        ks.append('nonempty_inlets:%d' % min(len(ne), 4))
        ks.append('receiver_among_nonempty_inlets:%d' % ne.count(case['r']))
        ks.append('receiver:' + ('multi' if ss[case['r']]['multi'] else 'single'))
        if any(ss[i]['multi'] for i in ne): ks.append('multi_inlet')
        if any(empty(ss[i]) for i in idx): ks.append('empty_inlet')
        if any(o[0] in ('heat', 'power') for o in case['others']): ks.append('heat_object')
        if case['Q']: ks.append('Q!=0')
        if out.get('final') and out['final'][case['r']]['multi'] != ss[case['r']]['multi']: ks.append('receiver_changed_class')
        if len(ne) == 1 and ss[case['r']]['multi'] and ss[ne[0]]['multi'] and ne[0] != case['r']:
            ks.append('copy_like_mm:' + mm_branch(ss[case['r']], ss[ne[0]]))
        if k == 'mixcp' and len(ne) >= 2: ks.append('conserve_phases:taken')
    if k == 'set':
        ks.append('set:' + case['which'] + ':' + case['mode'] + (':scripted' if case.get('script') else ':real'))
        if out.get('final') and out['final']['pm'][0][0] != out['init']['pm'][0][0]: ks.append('phase_flipped')
    if k == 'iter':
        ks.append('iter:' + case['var'])
    if k == 'wrap':
        ks.append('wrap:' + case.get('var', 'H') + ':' + '+'.join(out.get('calls', [])) + (':raises' if out.get('err') else ''))
    if k == 'wseq':
        ks.append('wseq:' + case['var'])
        fs = [r['F'] for r in case['reqs']]
        if any(max(a, b) / min(a, b) >= 256 for a, b in zip(fs, fs[1:])): ks.append('wseq:scale-jump>=256')
        if any(a < b for a, b in zip(fs, fs[1:])): ks.append('wseq:small-then-large')
        for o in out.get('solves', []):
            ks.append('wseq:solve:' + (o['err'] or 'ok')); ks.append('wseq:Cn-evaluations:%d' % o['ncn'])
        if any(r['d'] for r in case['reqs']): ks.append('wseq:Cn(T)')
    if k == 'imodel':
        ks.append('imodel:' + case['var'] + (':total=1' if sum(case['mol']) == 1 else ':total!=1'))
    if k == 'hist':
        ks.append('hist:handles:%d' % len(out.get('cells', [])))
        for o in case['ops']: ks.append('hist:op:' + o[0])
    return ks

# ------------------------------------------------------------------ direct oracle (the property on the implementation)
def close(a, b, tol=1e-9):
    return abs(a - b) <= tol * max(1., abs(a), abs(b))

def state(s):
    tmo = env()['tmo']
    return (type(s).__name__, tuple(s.phases), tuple(np.asarray(s.imol.data.to_array(), float).reshape(-1)), float(s.T), float(s.P))

def reachable(s, w, target, lo=200., hi=600.):
    """is `target` between the values of property w of stream s at the ends of the temperature range?"""
    T0 = s.T
    try:
        s.T = lo; a = getattr(s, w)
        s.T = hi; b = getattr(s, w)
    except Exception:
        return False
    finally:
        s.T = T0
    return min(a, b) <= target <= max(a, b)

def script_honest(case):
    """a scripted solver is not a solver; the property is only checked with the real one (optionally made to raise for some phases)"""
    return not case.get('script')

def oracle(case):
    e = setenv(case); tmo = e['tmo']
    k = case['kind']
    real = case.get('package') == 'real'
    tolH = 1e-6 if real else 1e-7
    if k in ('mix', 'mixs', 'mixcp'):
        cp = {'conserve_phases': True} if k == 'mixcp' else {}
        objs = [build_stream(d) for d in case['streams']]
        apply_pre(case, objs)
        others = build_others(case, objs)
        r = objs[case['r']]
        ne = [o for o in others if isinstance(o, tmo.Stream) and not o.isempty()]
        if not ne: return None
        for o in ne:
            if not close(o.H, true_H(o), tolH):
                return f'stale-H: Stream.H returns {o.H!r} but the mixture model gives {true_H(o)!r} for phase {o.phase!r} (history {case.get("pre")})'
        Qv = float(resolve_Q(case, objs))
        H_in = sum(true_H(o) for o in ne) + Qv + sum(o.heat for o in others if isinstance(o, (tmo.Heat, tmo.Power)))
        scale = sum(abs(true_H(o)) for o in ne) + abs(Qv)
        P_min = min(o.P for o in ne)
        total_in = sum(o.F_mol for o in ne)
        before = [state(s) for s in objs]
        try:
            with solver_ctx(case, real_otherwise=True):
                r.mix_from(others, Q=Qv, **cp)
        except Exception as ex:
            if cp and len(ne) >= 2 and any(not isinstance(o, tmo.Stream) for o in others): return None   # conserve_phases reads .phase of every object given
            if case.get('script'): return None       # the injected solver failures may make the mix impossible
            if total_in == 0 or r.F_mol == 0 or any(x < 0 for x in state(r)[2]): return None
            if not reachable(r, 'H', H_in): return None
            return f'mix_from raised {type(ex).__name__}: {ex}'
        tag = ('mix-one-inlet' if len(ne) == 1 else 'mix-receiver-among-inlets' if any(o is r for o in ne) else 'mix')
        for j, s in enumerate(objs):
            if s is not r and state(s) != before[j]: return f'{tag}: mix_from modified inlet/bystander stream {j}'
        if not close(r.F_mol, total_in): return None   # material is C01's subject
        if r.F_mol == 0: return None
        if not close(true_H(r), H_in, tolH):
            return f'{tag}: H of the receiver after mixing is {true_H(r)!r}, sum of inlet H plus heat is {H_in!r}'
        if r.P != P_min:
            return f'{tag}: P of the receiver is {r.P!r}, lowest inlet pressure is {P_min!r}'
        return None
    if k == 'sep':
        objs = [build_stream(d) for d in case['streams']]
        apply_pre(case, objs)
        r, o = objs[case['r']], objs[case['o']]
        for x in (r, o):
            if x.F_mol and not close(x.H, true_H(x), tolH):
                return f'stale-H: Stream.H returns {x.H!r} but the mixture model gives {true_H(x)!r} for phase {x.phase!r} (history {case.get("pre")})'
        H_exp = 0. if r is o else true_H(r) - true_H(o)
        before = [state(s) for s in objs]
        try:
            r.separate_out(o)
        except Exception as ex:
            if type(ex).__name__ == 'UndefinedPhase': return None      # a phase the receiver does not have cannot be taken out of it
            if r.isempty() or r.F_mol == 0 or any(x < 0 for x in state(r)[2]): return None
            if not reachable(r, 'H', H_exp): return None      # the difference is not an enthalpy this material can have
            return f'sep: separate_out raised {type(ex).__name__}: {ex}'
        for j, s in enumerate(objs):
            if s is not r and state(s) != before[j]: return f'sep: separate_out modified stream {j}'
        if r.F_mol == 0: return None
        if not close(true_H(r), H_exp, tolH):
            return f'sep: H after separate_out is {true_H(r)!r}, H(self) - H(other) was {H_exp!r} (T {r.T!r}, other T {o.T!r}, phases {r.phase!r}/{o.phase!r})'
        return None
    if k == 'set':
        s = build_stream(case['stream'])
        apply_pre(case, [s])
        w = case['which']
        if s.isempty() or s.F_mol <= 0: return None
        if not close(s.H, true_H(s), tolH):
            return f'stale-H: Stream.H returns {s.H!r} but the mixture model gives {true_H(s)!r} for phase {s.phase!r} (history {case.get("pre")})'
        if any(x < 0 for x in state(s)[2]): return None
        if case['mode'] == 'current':
            T0, ph0 = s.T, s.phases
            setattr(s, w, getattr(s, w))
            # database package: S(T) of liquid water is quantised at ~5e-4 J/mol/K inside thermo's integral, which moves
            # T by up to ~5e-4 K; the stub package is exact
            if not close(s.T, T0, 1e-5 if real else 1e-7) or s.phases != ph0:
                return f'set-{w}: assigning the current {w} moved the stream from T={T0}, {ph0} to T={s.T}, {s.phases}'
            return None
        # a reachable target: the case's own value when the stream can have it, else the value at another temperature in range
        T0 = s.T
        if not real and not case.get('script') and reachable(s, w, case['value'] if case['mode'] != 'zero' else 0.):
            target = case['value'] if case['mode'] != 'zero' else 0.
        else:
            s.T = (T0 - 20. + (case['value'] % 41)) if real else 300. + (case['value'] % 97)
            target = getattr(s, w)
            s.T = T0
        flows = state(s)[2]
        ph_before = None if isinstance(s, tmo.MultiStream) else s.phase
        try:
            with solver_ctx(case, real_otherwise=True):
                setattr(s, w, target)
        except Exception as ex:
            return f'set-{w}-fallback: setter raised {type(ex).__name__}: {str(ex)[:120]}' if case.get('script') and _one_flip_ok(case, ph_before) else None
        back = getattr(s, w)
        tag = f'set-{w}-fallback' if case.get('script') else f'set-{w}'
        if case.get('script') and not reachable(s, w, target): return None    # not a value the flipped phase can have in range
        if not close(back, target, 1e-5 if real else 1e-6) or (target == 0. and abs(back) > 1e-6 * abs(s.F_mol) * 300):
            return f'{tag}: assigned {w}={target!r}, reading it back gives {back!r} (T={s.T})'
        if state(s)[2] != flows: return f'{tag}: the setter changed the flows'
        return None
    if k == 'iter':
        return None
    if k == 'wrap':
        out = run_wrap(case)
        if out['left']:
            return (f'workspace-leak: Mixture.{"x" if case.get("var", "H").startswith("x") else ""}solve_T_at_{case.get("var", "H")[-1]}P '
                    f'{"raised " + out["exc"] if out["err"] else "returned"} and left {out["left"]} entries in _free_energy_args '
                    f'(they are used by every later H / S / Cn evaluation of that phase)')
        return None
    if k == 'hist':
        return run_hist(case, check=True)[1]
    if k == 'imodel':
        if not any(case['mol']): return None
        a = imodel_call(case, case['mol'], stand_in=False)
        for kk in (4., 0.25, 1. / sum(case['mol'])):
            b = imodel_call(case, [x * kk for x in case['mol']], stand_in=False)
            if not close(b, kk * a, 1e-9):
                name = {'S': 'IdealEntropyModel', 'TP': 'IdealTPMixtureModel', 'T': 'IdealTMixtureModel'}[case['var']]
                return (f'not-homogeneous: {name}({kk}*mol) = {b!r} but {kk}*{name}(mol) = {kk * a!r} for mol={case["mol"]}: the getter '
                        f'(normalised composition times total flow) and the setter (raw flows) no longer see the same function')
        return None
    if k == 'eos':
        return oracle_eos(case)
    if k == 'wseq':
        return oracle_wseq(case)
    return None

WSEQ_COMP = {'l': [3., 2., .5], 'g': [3., 2., .5]}
def oracle_wseq(case):
    """the read-back clause on a HISTORY of assignments: the case's requests as H / S assignments, one after the other, on
    database-package streams (Water, Ethanol, Nitrogen) of the case's scales; every target is the stream's own value at a
    temperature in range, so it is reachable in the phase the stream is in.  Each assignment must read back, keep the phase
    and land on the temperature the target was taken at -- whatever was solved before it."""
    e = env_real(); tmo = e['tmo']
    try:
        w = case['var'][-1]
        done = []
        for i, r in enumerate(case['reqs']):
            Fs = r['F']
            Tt = 280. + (r['Tt'] - 300.) * (0.7 if r['phase'] == 'l' else 1.7)     # l: 280-350 K, g: 280-450 K
            T0 = 280. + (r['Tguess'] - 300.) * (0.7 if r['phase'] == 'l' else 1.7)
            if case['var'].startswith('x'):
                d = {'multi': True, 'rows': {'g': [0., 0., 2. * Fs], 'l': [3. * Fs, 2. * Fs, 0.]}, 'T': Tt, 'P': r['P']}
            else:
                d = {'multi': False, 'rows': {r['phase']: [x * Fs for x in WSEQ_COMP[r['phase']]]}, 'T': Tt, 'P': r['P']}
            s = build_stream(d)
            target = getattr(s, w)
            s.T = T0
            ph0 = s.phases
            where = (f'solve-history: {w} assignment #{i + 1} of a sequence (total flow {s.F_mol:g} kmol/hr, {"/".join(ph0)}, '
                     f'{T0:g} -> {Tt:g} K, P={r["P"]:g}) after the assignments of this sequence on streams of scale {done} (and every solve made earlier in the process)')
            try:
                setattr(s, w, target)
            except Exception as ex:
                return f'{where} raised {type(ex).__name__}: {str(ex)[:100]}'
            back = getattr(s, w)
            if s.phases != ph0:
                return f'{where} changed the phase to {"/".join(s.phases)} at T={s.T:.3f} K'
            if not close(back, target, 1e-5) or abs(s.T - Tt) > 0.05:
                return f'{where} assigned {target!r}, reads back {back!r} at T={s.T:.4f} K'
            done.append(Fs)
        return None
    finally:
        env()

def env_eos():
    """an equation-of-state package (Peng-Robinson), whose mixture keeps per-solve work-space; search step only"""
    e = env()
    if 'eos' not in e:
        tmo = e['tmo']
        chems = tmo.Chemicals(['Water', 'Ethanol', 'Methanol'], cache=True)
        e['eos'] = tmo.Thermo(chems, mixture=tmo.PRMixture.from_chemicals(chems))
    e['tmo'].settings.set_thermo(e['eos'])
    e['ids'] = ['Water', 'Ethanol', 'Methanol']
    return e

def oracle_eos(case):
    """a rejected (infeasible) enthalpy / entropy assignment on one stream must not change what other streams report,
    nor the energy balance of a later mix"""
    e = env_eos(); tmo = e['tmo']
    try:
        ref = [build_stream(d).H for d in case['streams']]
        victim = build_stream(case['victim'])
        try:
            setattr(victim, case['which'], case['value'])
            return None                       # accepted: nothing to check
        except Exception as ex:
            name = type(ex).__name__
        left = len(getattr(victim.mixture, '_free_energy_args', {}))
        for d, H0 in zip(case['streams'], ref):
            H1 = build_stream(d).H
            if not close(H1, H0, 1e-9):
                return (f'workspace-leak: after a rejected assignment {case["which"]}={case["value"]} ({name}) an identical fresh stream '
                        f'reports H = {H1!r} instead of {H0!r} ({left} entries left in mixture._free_energy_args)')
        ins = [build_stream(d) for d in case['streams']]
        if len({next(iter(d['rows'])) for d in case['streams']}) == 1:
            r = tmo.Stream(None, phase=next(iter(case['streams'][0]['rows'])))
            r.mix_from(ins, Q=case['Q'])
            if not close(r.H, sum(ref) + case['Q'], 1e-6):
                return f'mix: after a rejected assignment, receiver H = {r.H!r} but sum(inlet H) + Q = {sum(ref) + case["Q"]!r}'
        return None
    finally:
        env()

def _one_flip_ok(case, ph):
    """single-phase stream that is in phase l or g WHEN THE SETTER IS CALLED (after the case's history), whose own phase is
    scripted to raise and whose flipped phase is solved by the real solver; in every other situation the solver has no root
    and the property, which is conditional on the solver answering, allows the setter to raise"""
    d = case['stream']
    if d['multi']: return False
    if ph not in ('g', 'l'): return False
    other = 'l' if ph == 'g' else 'g'
    return case['script'].get(ph) is None and case['script'].get(other) is not None

def finding_key(case, msg):
    return 'C02:' + msg.split(':')[0]

def gen_real_stream(rng, multi_p=0.2):
    P = float(rng.choice([1e4, 5e4, 101325., 2e5, 1e6, 1e7]))
    def liq(): return [float(rng.choice([0, 1, 2, F(1, 2), 10])), float(rng.choice([0, 1, 3, F(1, 4)])), 0.]
    def gas(): return [float(rng.choice([0, 1, F(1, 2)])), float(rng.choice([0, 0, 1])), float(rng.choice([1, 2, 5, F(1, 2)]))]
    if rng.random() < multi_p:
        return {'multi': True, 'rows': {'g': gas(), 'l': liq()}, 'T': float(rng.randint(300, 360)), 'P': P}
    if rng.random() < 0.6:
        r = liq()
        if not any(r): r[0] = 1.
        return {'multi': False, 'rows': {'l': r}, 'T': float(rng.randint(280, 360)) + rng.choice([0., .25, .5]), 'P': P}
    return {'multi': False, 'rows': {'g': gas()}, 'T': float(rng.randint(300, 450)) + rng.choice([0., .25, .5]), 'P': P}

def search_cases(rng, tier):
    cases = []
    for _ in range(6 if tier == 'quick' else 40):
        def eos_stream():
            if rng.random() < 0.6:
                return {'multi': False, 'rows': {'g': [float(rng.choice([1, 4, 0])), float(rng.choice([6, 2, 1])), float(rng.choice([0, 3]))]},
                        'T': float(rng.choice([400, 420, 450])), 'P': float(rng.choice([1e5, 2e5, 3e5]))}
            return {'multi': False, 'rows': {'l': [float(rng.choice([7, 10])), float(rng.choice([0, 2])), float(rng.choice([2, 1]))]},
                    'T': float(rng.choice([300, 310, 330])), 'P': float(rng.choice([1e5, 2e5]))}
        cases.append({'kind': 'eos', 'streams': [eos_stream() for _ in range(rng.randint(1, 3))], 'victim': eos_stream(),
                      'which': rng.choice(['H', 'H', 'S']), 'value': float(rng.choice([-1e12, 1e13, -1e9])), 'Q': float(rng.choice([0, 5e4]))})
    # a real property package (Water, Ethanol, Nitrogen from the packaged database) with the real solver
    for _ in range(40 if tier == 'quick' else 400):
        n = rng.randint(2, 4)
        streams = [gen_real_stream(rng) for _ in range(n)]
        r = rng.randrange(n)
        if streams[r]['multi']: streams[r] = gen_real_stream(rng, multi_p=0.)
        k = rng.randint(1, 3)
        others = [['s', rng.randrange(n)] for _ in range(k)]
        if rng.random() < 0.3: others[0] = ['s', r]
        if rng.random() < 0.2: others.append(['heat', float(rng.choice([100., -100., 1000.]))])
        cases.append({'kind': 'mix', 'package': 'real', 'streams': streams, 'r': r, 'others': others,
                      'Q': float(rng.choice([0, 0, 100, -100, 1000]))})
    for _ in range(40 if tier == 'quick' else 400):
        cases.append({'kind': 'set', 'package': 'real', 'stream': gen_real_stream(rng, multi_p=0.3),
                      'which': rng.choice(['H', 'S', 'h', 'Hnet']), 'mode': rng.choice(['value', 'current']),
                      'value': float(rng.randint(0, 96))})
    for _ in range(20 if tier == 'quick' else 200):
        a, b = gen_real_stream(rng, multi_p=0.), gen_real_stream(rng, multi_p=0.)
        ph, = a['rows']
        brow, = b['rows'].values()
        a['rows'][ph] = [x + y + 1. for x, y in zip(a['rows'][ph], brow)]
        cases.append({'kind': 'sep', 'package': 'real', 'streams': [a, b], 'r': 0, 'o': 1})
    for _ in range(60):
        c = gen_set(rng)
        c.pop('script', None)
        cases.append(c)
    for _ in range(60):
        cases.append(gen_mix(rng, False))
    for _ in range(30 if tier == 'quick' else 300):
        cases.append(gen_wseq(rng))          # oracle: histories of H / S assignments on database streams of these scales
    return cases

WITNESS_C02_4 = {'kind': 'hist', 'streams': [{'multi': True, 'rows': {'g': [1., 0., 4.], 'l': [0., 0., 0.]}, 'T': 350., 'P': 101325.}],
                 'ops': [['mixv', 0, [[0, 'g']], [], 512.], ['read', 0, 'H']]}
CORPUS = ([WITNESS_C02_4] if AFTER_FIX_C02_4 else []) + [
    # minimised instances of the three defects of DESIGN.md section 5 (regression cases once repaired)
    {'kind': 'mix', 'streams': [{'multi': False, 'rows': {'l': [0., 0., 0.]}, 'T': 300., 'P': 101325.},
                                {'multi': False, 'rows': {'l': [2., 0., 0.]}, 'T': 350., 'P': 101325.}],
     'r': 0, 'others': [['s', 1]], 'Q': 1024.},
    {'kind': 'mix', 'streams': [{'multi': False, 'rows': {'l': [2., 0., 0.]}, 'T': 350., 'P': 101325.},
                                {'multi': False, 'rows': {'l': [0., 4., 0.]}, 'T': 320., 'P': 101325.}],
     'r': 0, 'others': [['s', 0], ['s', 1]], 'Q': 0.},
    {'kind': 'set', 'stream': {'multi': False, 'rows': {'l': [2., 1., 0.]}, 'T': 350., 'P': 101325.}, 'which': 'S', 'mode': 'value',
     'value': 1024., 'script': {'l': None, 'g': [320., 0.5, 0.], 's': None, 'L': None, 'gl': None}},
]
